#!/usr/bin/env python3
"""Confirm an independently written seeded change before it is kept under /verif/seeded/<id>/.

usage: confirm_seed.py <delivery-dir> <seed-id> [--also Cyy,Czz]

<delivery-dir> holds patch.diff, meta.json and demo/ (README.md with the `cargo test ... --test NAME`
command, and the test file(s) to copy into <crate>/tests/).  In a scratch worktree of /repo's HEAD
(/tmp/confirm-wt, with its own target dir; removed with `git -C /repo worktree remove --force`):
  1. the patch applies to HEAD,
  2. the demonstration passes WITHOUT the change,
  3. the demonstration fails WITH the change,
  4. the existing tests of the touched crates and their main dependents pass WITH the change
     (demo files removed again first),
and only then the delivery is copied to /verif/seeded/<seed-id>/ with the confirmation record
added to meta.json.  Never touches /repo's working tree.
"""
import json, os, re, shutil, subprocess, sys

WT = os.environ.get("CONFIRM_WT", "/tmp/confirm-wt")
PKG = {"vls-core": "vls-core", "vls-persist": "vls-persist", "vls-protocol-signer": "vls-protocol-signer",
       "vls-protocol": "vls-protocol", "lightning-storage-server/lib": "lightning-storage-server",
       "vls-frontend": "vls-frontend", "vlsd": "vlsd", "bolt-derive": "bolt-derive", "vls-proxy": "vls-proxy",
       "vls-util": "vls-util", "vls-common": "vls-common", "vls-protocol-client": "vls-protocol-client"}


def sh(cmd, cwd=WT, timeout=7200):
    return subprocess.run(cmd, shell=True, cwd=cwd, stdout=subprocess.PIPE, stderr=subprocess.STDOUT, text=True, timeout=timeout)


def main():
    d, sid = sys.argv[1], sys.argv[2]
    also = []
    if "--also" in sys.argv:
        also = sys.argv[sys.argv.index("--also") + 1].split(",")
    head = sh("git -C /repo rev-parse --short HEAD", cwd="/").stdout.strip()
    if not os.path.isdir(WT):
        r = sh(f"git -C /repo worktree add --detach {WT} HEAD", cwd="/")
        if r.returncode != 0:
            print(r.stdout); return 2
    else:
        sh("git checkout -q --detach " + head + " && git checkout -- . && git clean -fdq -e target")
    meta = json.load(open(f"{d}/meta.json"))
    patch = f"{d}/patch.diff"
    readme = open(f"{d}/demo/README.md").read()
    readme1 = re.sub(r"\\\s*\n\s*", " ", readme)  # join continuation lines
    m = re.search(r"((?:[A-Z_]+=(?:\"[^\"]*\"|\S+)\s+)*cargo test[^\n`]*--test[^\n`]*)", readme1)
    if not m:
        print("no demo command in README"); return 2
    democmd = m.group(1).strip()
    if "CARGO_NET_OFFLINE" not in democmd:
        democmd = "CARGO_NET_OFFLINE=true " + democmd
    crate = re.search(r"-p\s+(\S+)", democmd).group(1)
    cratedir = [k for k, v in PKG.items() if v == crate][0]
    demos = [f for f in os.listdir(f"{d}/demo") if f.endswith(".rs")]
    rec = {"base": head, "demo_cmd": democmd}

    def put_demo():
        os.makedirs(f"{WT}/{cratedir}/tests", exist_ok=True)
        for f in demos:
            shutil.copy(f"{d}/demo/{f}", f"{WT}/{cratedir}/tests/{f}")

    def rm_demo():
        for f in demos:
            try: os.remove(f"{WT}/{cratedir}/tests/{f}")
            except FileNotFoundError: pass

    r = sh(f"git apply --check {patch}")
    if r.returncode != 0:
        print("PATCH DOES NOT APPLY:", r.stdout[:400]); return 1
    touched = sh(f"git apply --numstat {patch}").stdout.split()
    files = [t for t in touched if "/" in t]
    if any("/tests/" in f or f.endswith("_tests.rs") or "test_utils" in f for f in files):
        print("patch touches test code:", files); return 1
    put_demo()
    r = sh(democmd)
    rec["demo_without_change"] = "pass" if r.returncode == 0 else "FAIL"
    print("demo without change:", rec["demo_without_change"], flush=True)
    if r.returncode != 0:
        print(r.stdout[-1500:]); rm_demo(); return 1
    sh(f"git apply {patch}")
    try:
        r = sh(democmd)
        failed = r.returncode != 0 and ("test result: FAILED" in r.stdout or "panicked" in r.stdout)
        rec["demo_with_change"] = "fails" if failed else ("compile-error-or-other" if r.returncode != 0 else "PASSES")
        msg = [l for l in r.stdout.splitlines() if "panicked" in l or "C0" in l or "C1" in l or "C2" in l][:3]
        rec["demo_failure"] = msg
        print("demo with change:", rec["demo_with_change"], msg, flush=True)
        if not failed:
            print(r.stdout[-1500:]); return 1
        rm_demo()
        pk = {"vls-core", "vls-protocol-signer", "vls-persist", "vls-protocol"}
        for f in files:
            for k, v in PKG.items():
                if f.startswith(k + "/"):
                    pk.add(v)
        # lightning-storage-server/lib is a path dependency, not a workspace member: cargo only
        # accepts it in a -p list of its own (together with a member that depends on it)
        groups = [sorted(x for x in pk if x != "lightning-storage-server")]
        if "lightning-storage-server" in pk:
            groups.append(["lightning-storage-server", "vls-frontend"])
        passed = nfail = rc = 0
        cmds = []
        out_all = ""
        for g in groups:
            cmd = "CARGO_NET_OFFLINE=true cargo test --offline --no-fail-fast " + " ".join("-p " + p for p in g)
            cmds.append(cmd)
            r = sh(cmd)
            out_all += r.stdout
            res = re.findall(r"test result: (\w+)\. (\d+) passed; (\d+) failed", r.stdout)
            passed += sum(int(x[1]) for x in res); nfail += sum(int(x[2]) for x in res)
            rc = rc or r.returncode
        class R: pass
        r = R(); r.returncode = rc; r.stdout = out_all
        cmd = " && ".join(cmds)
        rec["existing_tests_cmd"] = cmd
        rec["existing_tests_with_change"] = f"{passed} passed, {nfail} failed, exit {r.returncode}"
        print("existing tests with change:", rec["existing_tests_with_change"], flush=True)
        if r.returncode != 0 or nfail:
            bad = [l for l in r.stdout.splitlines() if "FAILED" in l or "error" in l][:10]
            print("\n".join(bad)); return 1
    finally:
        rm_demo()
        sh("git checkout -- .")
    dst = f"/verif/seeded/{sid}"
    if os.path.isdir(dst):
        shutil.rmtree(dst)
    os.makedirs(dst)
    shutil.copy(patch, f"{dst}/patch.diff")
    shutil.copytree(f"{d}/demo", f"{dst}/demo")
    meta["id"] = sid
    if also:
        meta["also"] = also
    meta["confirmed"] = rec
    json.dump(meta, open(f"{dst}/meta.json", "w"), indent=1)
    print("CONFIRMED ->", dst)
    return 0


if __name__ == "__main__":
    sys.exit(main())
