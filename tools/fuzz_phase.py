#!/usr/bin/env python3
"""Coverage-guided phase of a thorough check (called by ./check after the random tier held).

usage: fuzz_phase.py <ID> <seed>

Builds the libFuzzer target (cargo +nightly fuzz, --no-cfg-fuzzing so that the repository's own
cfg(fuzzing) shortcuts stay off, optimised, no debug assertions: the same flavour as vcheck) against
/repo's working tree, runs WORKERS independent libFuzzer processes that share one fresh corpus
directory, each for a fixed number of executions (-runs, -seed: fixed work, not time), and merges what
they covered into /verif/evidence/<ID>.json under coverage.fuzz.

exit 0 = no violation; 1 = a violation found by the fuzzer replays from its JSON file in the ordinary
(stable, non-instrumented) build: VIOLATION line printed; 2 = inconclusive (build failure, hang,
out-of-memory, a finding that does not replay).
"""
import glob, json, os, random, re, shutil, subprocess, sys, time

ID, SEED = sys.argv[1].upper(), int(sys.argv[2])
HARN = "/verif/harness"
OUT = os.environ.get("VERIF_OUT_DIR", "/verif")
WORKERS = int(os.environ.get("VERIF_FUZZ_WORKERS", "16"))
# executions per worker (fixed work); sized so that the phase takes a few minutes on 16 cores
RUNS = {"C01": 6000, "C02": 6000, "C03": 12000, "C04": 8000, "C05": 20000, "C06": 8000, "C07": 12000, "C08": 10000,
        "C09": 12000, "C10": 2500, "C11": 1500, "C12": 20000, "C13": 3000, "C14": 2500, "C15": 600, "C16": 6000,
        "C17": 20000, "C18": 2500, "C19": 20000}
runs = int(os.environ.get("VERIF_FUZZ_RUNS", RUNS.get(ID, 0)))
if runs == 0:
    print(f"fuzz phase: no coverage-guided target for {ID}")
    sys.exit(0)

t0 = time.time()
env = dict(os.environ, CARGO_NET_OFFLINE="true")
env.pop("RUSTFLAGS", None)
b = subprocess.run("cargo +nightly fuzz build --no-cfg-fuzzing -O -s none prop", shell=True, cwd=HARN, env=env,
                   stdout=subprocess.PIPE, stderr=subprocess.STDOUT, text=True)
if b.returncode != 0:
    open(f"{HARN}/build-fuzz.log", "w").write(b.stdout)
    print(f"INCONCLUSIVE property={ID} fuzz target build failed (see {HARN}/build-fuzz.log)", file=sys.stderr)
    print(b.stdout[-1500:], file=sys.stderr)
    sys.exit(2)
binp = f"{HARN}/fuzz/target/x86_64-unknown-linux-gnu/release/prop"

work = f"{HARN}/fuzz/work-{ID}-{os.getpid()}"
shutil.rmtree(work, ignore_errors=True)
os.makedirs(f"{work}/corpus")
os.makedirs(f"{work}/artifacts")
rnd = random.Random(SEED * 1000003 + sum(ord(c) for c in ID))
for i in range(96):  # a start corpus of entropy strings of many lengths (libFuzzer grows inputs slowly on its own)
    n = rnd.choice([8, 32, 64, 128, 256, 512, 1024, 2048, 4096])
    open(f"{work}/corpus/seed{i:03d}", "wb").write(bytes(rnd.getrandbits(8) for _ in range(n)))

penv = dict(os.environ, VERIF_PROP=ID, VERIF_SEED=str(SEED), VERIF_OUT_DIR=OUT, VERIF_FUZZ_STATS=f"{work}/stats.json")
procs = []
for w in range(WORKERS):
    log = open(f"{work}/fuzz-{w}.log", "w")
    cmd = [binp, f"{work}/corpus", f"-runs={runs}", f"-seed={SEED * 97 + w + 1}", "-max_len=8192", "-len_control=0",
           "-timeout=300", "-rss_limit_mb=6144", f"-artifact_prefix={work}/artifacts/", "-print_final_stats=1", "-reload=1"]
    procs.append((subprocess.Popen(cmd, cwd=work, env=penv, stdout=log, stderr=subprocess.STDOUT), log))
rcs = []
for p, log in procs:
    rcs.append(p.wait())
    log.close()

logs = "".join(open(f).read() for f in sorted(glob.glob(f"{work}/fuzz-*.log")))
viol = re.findall(r"^FUZZ-VIOLATION property=(\S+) sig=\[([^\]]*)\] replay=(\S+)", logs, re.M)
cov = [int(x) for x in re.findall(r"cov: (\d+)", logs)]
ft = [int(x) for x in re.findall(r"ft: (\d+)", logs)]
execs = sum(int(x) for x in re.findall(r"stat::number_of_executed_units: (\d+)", logs))
agg = dict(executions=0, cases_run=0, rejected_by_strategy=0, harness_errors=0, classes={}, known_findings_hit={})
hashes, samples = set(), []
for f in glob.glob(f"{work}/stats.json.*"):
    if f.endswith(".tmp"):
        continue
    try:
        d = json.load(open(f))
    except Exception:
        continue
    for k in ("executions", "cases_run", "rejected_by_strategy", "harness_errors"):
        agg[k] += d.get(k, 0)
    for k, v in d.get("classes", {}).items():
        agg["classes"][k] = agg["classes"].get(k, 0) + v
    for k, v in d.get("known_findings_hit", {}).items():
        agg["known_findings_hit"][k] = agg["known_findings_hit"].get(k, 0) + v
    hashes.update(d.get("nontrivial_hashes", []))
    samples.extend(d.get("samples", [])[:1])
corpus_n = len(os.listdir(f"{work}/corpus"))
hang = [a for a in os.listdir(f"{work}/artifacts") if a.startswith(("timeout-", "oom-"))]
other_crash = [a for a in os.listdir(f"{work}/artifacts") if a.startswith("crash-")]
fz = dict(engine="libFuzzer (cargo-fuzz 0.13, --no-cfg-fuzzing, -O, sanitizer none) over the property's proptest strategy: "
                 "input bytes = entropy stream of the strategy, oracle = the property's own",
          workers=WORKERS, runs_per_worker=runs, libfuzzer_executions=execs, cases_run=agg["cases_run"],
          rejected_by_strategy=agg["rejected_by_strategy"], harness_errors=agg["harness_errors"],
          distinct_nontrivial=len(hashes), edge_coverage_max=max(cov) if cov else 0, features_max=max(ft) if ft else 0,
          corpus_files_final=corpus_n, start_corpus_files=96, classes=agg["classes"], known_findings_hit=agg["known_findings_hit"],
          samples=samples[:3], violations_reported=len(viol), hangs_or_oom=hang, wall_s=round(time.time() - t0, 1))

evp = f"{OUT}/evidence/{ID}.json"
try:
    ev = json.load(open(evp))
    ev["coverage"]["fuzz"] = fz
    ev["coverage"]["evaluations"] = ev["coverage"].get("evaluations", 0) + agg["cases_run"]
    ev["wall_s"] = ev.get("wall_s", 0) + fz["wall_s"]
    json.dump(ev, open(evp, "w"), indent=1)
except Exception as e:
    print(f"fuzz phase: could not merge evidence: {e}", file=sys.stderr)

code = 0
for k in sorted(agg["known_findings_hit"]):
    pass  # KNOWN-FINDING lines were already printed by the random tier from the same known_findings.json
if viol:
    pid, sig, rp = viol[0]
    r = subprocess.run([f"{HARN}/target/release/vcheck", ID, "--tier", "thorough", "--seed", str(SEED), "--replay", rp],
                       stdout=subprocess.PIPE, stderr=subprocess.STDOUT, text=True)
    if r.returncode == 1 and "VIOLATION" in r.stdout:
        keep = f"{OUT}/replays/{ID}/" + os.path.basename(rp)
        print(f"violation (coverage-guided phase): [{sig}]")
        print(f"VIOLATION property={ID} replay={rp}")
        code = 1
    else:
        print(f"INCONCLUSIVE property={ID} fuzz finding [{sig}] did not replay from {rp} in the ordinary build", file=sys.stderr)
        code = 2
elif hang or (other_crash and not viol):
    print(f"INCONCLUSIVE property={ID} fuzz phase: {hang + other_crash} (hang / out of memory / crash outside the oracle); artifacts kept in {work}", file=sys.stderr)
    code = 2
print(f"{ID} thorough-fuzz seed={SEED} workers={WORKERS} runs/worker={runs} cases={agg['cases_run']} distinct_nontrivial={len(hashes)} "
      f"cov={fz['edge_coverage_max']} ft={fz['features_max']} corpus={corpus_n} wall={fz['wall_s']}s exit={code}")
if code != 2:
    shutil.rmtree(work, ignore_errors=True)
sys.exit(code)
