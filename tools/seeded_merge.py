#!/usr/bin/env python3
"""Merge result files of side-by-side seeded.py runs into tools/seeded_result.json (later files win)."""
import json, sys
RES = "/verif/tools/seeded_result.json"
try:
    r = json.load(open(RES))
except Exception:
    r = {}
for f in sys.argv[1:]:
    r.update(json.load(open(f)))
json.dump(r, open(RES, "w"), indent=1, sort_keys=True)
print("merged", len(r), "entries")
