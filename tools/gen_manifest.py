#!/usr/bin/env python3
"""Regenerates /verif/MANIFEST.json from the table below (kept in one place so the manifest
is always schema-valid).  Run: python3 tools/gen_manifest.py"""
import json, os, sys

ALL = ["C%02d" % i for i in range(1, 21)]

# id -> (technique, level text, level note, design section)
CLAIMED = {
 "C15": ("stateful property-based testing of channel life cycles through the node's real tracker (regtest blocks with funding, double-spend, mutual / unilateral close, sweeps), forget requests, heartbeats, reorgs around the burial depth, restarts, id-reuse attempts; oracle = independent chain/forget model kept by the harness (a ready channel may vanish from memory and store only if forget was acknowledged and a terminal event is buried >= 100 on the model's best chain; ids at or below a forgotten id are never created again); compact, streamed or wire delivery of blocks; HTLC outputs with identical scripts, all-but-one sweeps, HTLC spends with fee inputs, closes whose second-level outputs stay unswept",
         "Held-on-N-histories exploration (burial depths 98..102 hit by construction).",
         "Over-retention is never judged; received HTLCs not required in the swept rule (weaker than the signer's, hence sound); compact block delivery only.",
         "C15"),
 "C20": ("randomised concurrency testing: proptest-generated programs of 2-3 threads with fixed-argument requests (plain scenario, and a chain scenario with funded and confirmed channels, a stub, funding-transaction signing, setup_channel and blocks that hold a closing transaction), thread schedules explored with shuttle (random and PCT schedulers, fixed seeds) on vls-core built with --cfg vls_verif; oracle = no deadlock/panic in any explored schedule and replies + final state equal to those of some sequential interleaving on a fresh world (linearizability witness search); wire-level ValidateCommitmentTx2 (protocol version 4) and invoice requests among the racing requests; keysends through a stateless approver (duplicate hashes, invoice against keysend), TipInfo through the root handler; store entries compared modulo the order of serialised hash maps",
         "Exploration of sampled schedules (60 per program quick, 400 thorough), not enumeration; four genuine lock-order inversions and one atomicity defect (the last one introduced by an earlier repair and found by the check) were repaired by fix: commits and are kept as regression replays.",
         "The hook swaps std::sync for shuttle::sync in vls-core's prelude; behaviour outside those primitives is not modelled.",
         "C20"),
 "C10": ("stateful property-based testing with a union request machine (commitments on both sides, payments, on-chain, allowlist, tracker blocks, channel lifecycle) biased to refusable requests, on a plain and on a cloud-staged store, plus a wire group (holder-commitment histories through the protocol handlers at protocol versions 4-6, every refused message compared); oracle = full observation (all channels' enforcement state, node bookkeeping, tracker entry, store dump, pending mutations) is identical before and after every refused request; a sixth of the API histories on the redb store; wire group: SetupChannel for a never-announced channel",
         "Held-on-N-histories exploration; three genuine defects (revocation secret stored before refusal, allowlist partially applied, channel entry rewritten by the refused combined validate request) were repaired by fix: commits.",
         "Storage backend failures not generated; API-level requests with the handler's persist envelope; the wire group covers the channel handler's commitment requests on the in-memory store only.",
         "C10"),
 "C11": ("stateful property-based testing with crash injection after every request: a twin signer is restored from a copy of the store alone and compared field by field with the running signer on the items the property lists; memory store, cloud-staged store, vls-persist's BackupPersister (twin restored from the backup store alone), and the redb store vlsd uses by default (database on tmpfs; one twin from a byte copy of the database directory opened afresh, one from the listed entries); one channel carries a permanent id; a third of the histories start with a full header window",
         "Held-on-N-histories exploration (about 50k restores per quick run); the genuine defect found (forget flag not durable) was repaired by a fix: commit.",
         "Twin restored through the in-memory KVV store (redb reopen: C16); cloud store twin is restored from the committed local store.",
         "C11"),
 "C14": ("stateful property-based testing of channel monitors: generated transaction pools grouped into blocks, connect/disconnect histories with reorgs, compact and streamed delivery, driven both directly on ChainListener and through the real ChainTracker; oracle = differential against a fresh signer that connected only the surviving best chain, connect-disconnect identity, no abort; blocks delivered at API level or with protocol messages through the root handler; batch open (one transaction funds two channels); fixed case: 100-block reorganisation after a restart",
         "Held-on-N-histories exploration; four genuine defects (forward-order undo, inverted watch changes, abort on revoked commitment, streamed removal always refused) were repaired by fix: commits.",
         "Regtest only for tracker-level runs; HTLC/second-level spends carry synthetic scripts (the monitor looks at outpoints only); chains up to 40 blocks.",
         "C14"),
 "C13": ("stateful property-based testing of ChainTracker on regtest with mined headers, constructed proofs and attestation sets; one injected fault per request (incl. repeated attestations), plus a node-level scenario (configured trusted oracle, restart from the store, block attested by an untrusted key); oracle = reference chain model (accepted implies no injected fault), snapshot equality after every refusal, a valid request succeeds after a rejection; the harness keeps its own record of the watched outpoints each block spends (removal proofs that hide a spend); a restored tracker must watch what was persisted; fixed case with 150 spent outpoints",
         "Held-on-N-histories exploration; three genuine defects (header popped before validation, streamed removal compared against the wrong hash, no abort path for refused streamed blocks) were repaired by fix: commits and are kept as regression replays.",
         "Only regtest proof-of-work can be mined: mainnet/testnet checkpoints get refusal paths only; retarget rule is the x4 band as implemented (no timestamp retargeting).",
         "C13"),
 "C09": ("property-based testing: sweeps with labelled destinations and version/locktime/sequence drawn around their bounds; second-level HTLC transactions as hand-built BOLT-3 reference +- one mutation; oracle = acceptance implies a reference predicate, sighash equality with the hand-built reference, signature verification under the expected derived key; both validator factories; operator filter assembled with merge; allowlist replacement requests (set_allowlist with an empty list, a strict subset, a disjoint list), also followed by restarts",
         "Held-on-N-cases exploration; the genuine defect found (sequence checked on input 0 instead of the signed input) was repaired by a fix: commit.",
         "HTLC redeemscripts from LDK (generator side only); reference second-level tx and to-local script hand-built with rust-bitcoin.",
         "C09"),
 "C19": ("property-based testing with generators derived at build time from the message definitions (build.rs parses msgs.rs/model.rs; unknown field types fail the build): encode/decode/re-encode round trip, Debug equality, typed-path agreement; semantic oracle for streamed PSBTs (transaction, previous outputs, independent BIP-141 segwit-flag rule); byte-level mutation fixed-point check in the thorough tier; framed write/read path over short-writing transports; typed framed writer / reader (msgs::write, msgs::read_message::<T>) generated per message type",
         "Held-on-N-cases exploration over all 112 message types (>= 50 hits each or the run is vacuous); the genuine defect found (message id collision) was repaired by a fix: commit.",
         "Symmetric encoder/decoder errors are invisible to a round trip; rust-bitcoin and the txoo proof builder construct inputs.",
         "C19"),
 "C07": ("property-based testing: channel states reached by real requests x generated close proposals with labelled outputs through both entry points; oracle = acceptance implies a reference predicate (exists output assignment), signature verification against the harness-built closing transaction, closed flag in memory and in a signer restored from the store; both validator factories; start-up allowlist scenario over the wire; operator carve-out filter (policy-mutual-* and the raw entry point's format rule stay errors, everything else is logged); allowlist replacement requests (set_allowlist with an empty list, a strict subset, a disjoint list); a pending holder commitment replaced through the raw entry point",
         "Held-on-N-cases exploration of mutual-close validation.",
         "Trusted: LDK ClosingTransaction builder, BOLT-3 closing witness weight 222, +2/kw tolerance.",
         "C07"),
 "C08": ("property-based testing: on-chain transactions assembled from labelled inputs/outputs/channels incl. arithmetic extremes; oracle = acceptance implies a reference predicate in u128, UnknownDestinations index set equals the labelled set, velocity ledger; both validator factories; wire group (SignWithdrawal with utxos and streamed PSBT, witnesses verified, unknown-destination set compared); start-up allowlist scenario; wire group: an input the request does not describe at all (fee judged by what the transaction really spends); allowlist replacement requests",
         "Held-on-N-cases exploration of check_onchain_tx and Approve::handle_proposed_onchain.",
         "Weight lower bound as documented in check_onchain_tx; explicit approval of unknown outputs outside the oracle.",
         "C08"),
 "C18": ("metamorphic property-based testing: same channel id under different creation orders / other channels / setup / restart / lone world must give identical keys, different ids different keys; independent BOLT-3 derivation and compact-store acceptance for secrets; world b under a permissive operator filter, secrets ahead of the channel state requested",
         "Held-on-N-cases exploration over seeds, styles (Native, Ldk), networks and id sets.",
         "Far-away commitment numbers are observed with the test-only counter setter (not a state-machine property).",
         "C18"),
 "C06": ("stateful property-based testing on one node with 2-3 channels: generated approvals, per-channel content edits pushed to either commitment in any order, preimages, pruning, restarts; oracle = invariant over the ledger of accepted commitment contents (u128 msat); both validator factories (confirmed funding); wire execution: the same histories through the vls-protocol-signer handlers at negotiated protocol versions 4, 5 and 6 (PreapproveInvoice / PreapproveKeysend through the approver, SignRemoteCommitmentTx2, ValidateRevocation, ValidateCommitmentTx2, RevokeCommitmentTx, SignLocalCommitmentTx2, GetHeartbeat, handler restarts)",
         "Held-on-N-histories exploration; the genuine defect found (payments applied at revoke without re-validation) was repaired by a fix: commit and kept as a regression replay.",
         "Approval liveness (existence only) read from the node after pruning; issue-331 tolerated imbalance outside the oracle.",
         "C06"),
 "C04": ("property-based testing: generated setups x contents x one of 28 mutations of the raw transaction / witness scripts / arguments; oracle = byte equality with and signature verification against an independently built BOLT-3 reference transaction, differential between the semantic and raw entry points; both validator factories; wire group: commitment 0 and 1 through SignRemoteCommitmentTx2 (HTLC amounts in msat) and the raw-transaction request with a tx field that differs from the PSBT; the peer announces one of the holder's per-commitment points right after the signer used it on the holder side",
         "Held-on-N-cases exploration of both counterparty-commitment entry points against reference transactions.",
         "Trusted: LDK CommitmentTransaction/build_htlc_transaction builders fed directly from the generated setup, rust-bitcoin sighash, libsecp256k1.",
         "C04"),
 "C05": ("property-based testing with boundary-value and arithmetic-extreme generators; oracle = acceptance implies a reference predicate written from the property statement in 128-bit arithmetic; a chain group drives funded channels through funding confirmation, burial, closes and reorgs (real regtest blocks through the node's tracker, on-chain validator) against a reference chain model; a refused setup must not leave a usable channel; blocks between NewChannel, SetupChannel and the request; wire group for the initial commitments of a pushed channel",
         "Held-on-N-cases exploration; the genuine defect found (implied fee rate truncated to 32 bits) was repaired by a fix: commit and kept as a regression replay.",
         "Dust limit 330 sat and +2/kw rounding tolerance so that the oracle never demands more than the property; min_funding_depth is fixed at 1 by OnchainValidatorFactory.",
         "C05"),
 "C12": ("property-based testing of VelocityControl against an exact approvals ledger (window-sum oracle in u128), plus stateful generation on a real node (invoices, keysends, retries of the last invoice, on-chain fees) and on VelocityApprover with restarts from the store; invoices also proposed through the approver paths; node group also over the wire (HandlerBuilder signer, PreapproveInvoice / PreapproveKeysend, handler restarts)",
         "Held-on-N-sequences exploration; two genuine defects (controls reset by restart, fee control not persisted) were repaired by fix: commits and kept as regression replays.",
         "Non-decreasing timestamps; on-chain fees capped at 150 sat per request.",
         "C12"),
 "C17": ("property-based testing with constructed tamper operators: round-trip and injectivity oracles over three authentication layers (LSS per-value tag, shared mutation-list tag in both implementations, nonce binding); start-up group driving vlsd external-persist driver (init_state) against a tampering storage; client-driver group: lightning-storage-server's PrivClient over tonic against an in-process storage server that knows the transport secret and tampers with read replies and put-conflict lists (bit flips, truncation to every length incl. nothing, value swap, version change, rename, injected records, replayed replies, tags over an empty nonce or under another secret): every record handed back must be one this client wrote",
         "Held-on-N-cases exploration; collisions between record lists whose key|version|value concatenations are equal are the genuine unframed-input weakness, listed as known findings (one signature per layer); any other collision or accepted tamper (other key, version, swapped, truncated, damaged tag, replayed or restart-repeated nonce) is reported.",
         "HMAC-SHA256/ChaCha20 trusted; versions < 2^63.",
         "C17"),
 "C01": ("stateful property-based testing: generated request histories on a real channel, executed at API level or through the vls-protocol-signer wire handlers at negotiated protocol versions 4, 5 and 6 (old combined validate+revoke, point requests that return secrets), ghost ledger of disclosed secrets vs independently verified accepted validations, restarts and storage faults (failed channel write, answer, crash-restart) injected; also with the on-chain validator factory on a channel with confirmed funding, on a channel whose SetupChannel was refused, and under an operator carve-out policy filter (the rules the guarantee is tagged with stay errors, every other policy-* rule is only logged)",
         "Held-on-N-histories exploration of the holder revocation state machine against an explicit ledger oracle; not a proof.",
         "Trusted: LDK commitment/HTLC transaction builders used for the reference transactions, libsecp256k1 verification.",
         "C01"),
 "C02": ("stateful property-based testing: same machine (API level and wire handlers at protocol versions 4/5/6) with signing requests, ledger sets Signed/Revoked must stay disjoint and Revoked frozen after first signature; also with the on-chain validator factory on a channel with confirmed funding",
         "Held-on-N-histories exploration; the one genuine defect found (revoke after sign with a pre-validated successor) is repaired by a fix: commit and kept as a regression replay.",
         "Trusted: LDK builders for signature attribution; mutual-close signatures are outside Signed.",
         "C02"),
 "C03": ("stateful property-based testing of sign/revoke interleavings with two counterparty seeds + model-based testing of the compact secret store against an independent BOLT-3 derivation; both validator factories (confirmed funding), carve-out operator filter cases",
         "Held-on-N-histories exploration with ledger invariants (a),(b),(c) and a reference model of the secret store.",
         "Trusted: LDK builders; store sequences limited to shapes the channel can feed (contiguous indices, right-secret retries).",
         "C03"),
 "C16": ("stateful property-based testing: differential (memory vs redb) + BTreeMap reference model; transaction invariants for the cloud store; batches may write one key twice with increasing versions; crash reopen of redb (byte copy of the open database); cloud sync batches carrying the last-writer record",
         "Generated op sequences over small key/version/value alphabets are executed on the real MemoryKVVStore, RedbKVVStore (with real reopen) and CloudKVVStore and compared step by step with a reference model; held-on-N-cases exploration, not a proof.",
         "Trusted: redb itself, tmpfs for the database files; batches with duplicate keys, clear_database and reset_versions are outside the domain.",
         "C16"),
}

PENDING_REASON = "check under construction in this session; not claimed until its harness is committed"

def main():
    checks = []
    for pid in ALL:
        if pid not in CLAIMED:
            continue
        tech, text, note, ref = CLAIMED[pid]
        if pid != "C20":
            tech += "; thorough tier additionally: coverage-guided fuzzing (libFuzzer via cargo-fuzz, 16 workers, fixed -runs/-seed) whose input bytes are the entropy stream of the same proptest strategy and whose oracle is the same, findings replayed from their JSON case in the ordinary build before they are reported"
        checks.append({
            "property_id": pid,
            "quick_cmd": "./check %s quick" % pid,
            "thorough_cmd": "./check %s thorough" % pid,
            "evidence_file": "/verif/evidence/%s.json" % pid,
            "replay_cmd_template": "./check %s quick --replay {path}" % pid,
            "engine": "vcheck",
            "level_claimed": {"category": "exploration", "text": text, "design_ref": "DESIGN.md §3 " + ref},
            "level_note": note,
            "technique": tech,
        })
    m = {
        "version": 1,
        "setup_cmd": "cd /verif/harness && CARGO_NET_OFFLINE=true cargo build --release --offline --target-dir target && RUSTFLAGS='--cfg vls_verif' CARGO_NET_OFFLINE=true cargo build --release --offline --target-dir target-hooks",
        "hooks": {
            "guard": "--cfg vls_verif",
            "enable": "RUSTFLAGS='--cfg vls_verif' cargo build --release --offline --target-dir target-hooks (done by ./check C20)",
            "baseline_off_cmd": "cd /repo && cargo test --workspace --no-fail-fast --offline",
            "source_commits": HOOK_COMMITS,
            "add_only": False,
        },
        "engines": [
            {"name": "vcheck", "path": "/verif/harness",
             "serves_properties": sorted(CLAIMED.keys()),
             "kind_free_text": "Rust harness crate (path deps into /repo) with a sharded proptest runner: 16 fixed-seed shards, explicit oracles, shrinking to JSON replay files, known-findings matching"},
            {"name": "prop (libFuzzer)", "path": "/verif/harness/fuzz",
             "serves_properties": sorted(k for k in CLAIMED.keys() if k != "C20"),
             "kind_free_text": "cargo-fuzz target (nightly, --no-cfg-fuzzing, -O) that turns libFuzzer's input into the entropy of the property's own proptest strategy (proptest pass-through generator, local copy with a one-function patch) and runs the property's own oracle; used by the thorough tier (tools/fuzz_phase.py)"},
        ],
        "checks": checks,
        "not_applicable": [{"property_id": p, "reason": PENDING_REASON} for p in ALL if p not in CLAIMED],
        "notes": "All checks are property-based testing / fuzzing; see DESIGN.md. exit 2 = inconclusive (build/infra/vacuous), never a violation.",
    }
    json.dump(m, open("/verif/MANIFEST.json", "w"), indent=1)
    print("wrote MANIFEST.json with", len(checks), "checks")

HOOK_COMMITS = ["d63615f"]
if __name__ == "__main__":
    main()
