#!/usr/bin/env python3
"""Print the brief handed to a fresh sub-agent that is asked for a seeded change.

usage: seed_prompt.py <PROPERTY-ID> <seed-id> [<steer>]
The brief contains the property record verbatim, the path of the agent's own scratch worktree, the
sites earlier rounds used (code locations only) and the delivery layout; nothing else from /verif.
"""
import json, os, sys

STEER = {
    "data": "Make the defect DATA-DEPENDENT: it should sit on a path every request takes and show only for particular values or shapes of input that are legal but unusual: a boundary value, an integer conversion or truncation, a size or count limit, duplicates or equal elements in a collection, ordering / sorting / de-duplication, an empty or maximal collection, a particular combination of optional fields. Stay away from the functions the property record names as anchors where you can; helper functions shared by several callers, conversions between crates and (de)serialisation code are good places.",
    "wire": "Put the defect in the PLUMBING around the core logic rather than in the core logic: the wire-protocol handlers and conversions (vls-protocol-signer/src/handler.rs arms and helpers, vls-protocol-signer/src/util.rs, vls-protocol model types), signer construction and restore (HandlerBuilder, Node::new_from_persistence / restore_node and what they call), persistence conversions (vls-persist/src/model.rs, kvv.rs, ser_util), configuration (policy construction, filters, defaults), caches. The core function the property names should stay untouched and still be correct when called directly with the right arguments.",
    "default": "Prefer a site AWAY from the functions the property record names as anchors: plumbing between crates (wire handlers, persistence conversions, restore paths, configuration, caches, helper functions shared by several callers), data-dependent behaviour (a boundary value, an unusual but legal shape of input, a size, an ordering), or two cooperating edits that each look harmless.",
}


def main():
    pid, sid = sys.argv[1], sys.argv[2]
    steer = STEER.get(sys.argv[3] if len(sys.argv) > 3 else "default", sys.argv[3] if len(sys.argv) > 3 else STEER["default"])
    rec = None
    for l in open("/verif/properties.jsonl"):
        p = json.loads(l)
        if p["id"] == pid:
            rec = p
    used = []
    for d in sorted(os.listdir("/verif/seeded")):
        m = json.load(open(f"/verif/seeded/{d}/meta.json"))
        if m["property"] == pid:
            s = m.get("summary", "")
            used.append(s.split(": ")[0][:160])
    wt = f"/tmp/seedwt/{sid}"
    out = f"/tmp/seedout/{sid}"
    print(f"""You are helping to evaluate how well a verification effort protects one semantic property of the Rust project validating-lightning-signer (VLS). Your job is to write ONE realistic change to the project's source that BREAKS the property below while the project still compiles and its existing tests still pass, together with a demonstration. You work alone, in your own scratch git worktree; you know nothing about the verification effort and must not look for it (do not read anything under /verif, and do not touch /repo itself).

## The property (verbatim record)

```json
{json.dumps(rec, indent=1)}
```

## Your workspace

* Your scratch worktree (a git worktree of the project at the commit under study): `{wt}`. It already exists. Work ONLY there. NEVER use `git stash` (the stash is shared between all worktrees of the repository and other people work in sibling worktrees right now); to test the unchanged source, save your diff to a file and use `git apply -R` / `git apply`.
* No network. Always build offline: prefix cargo with `CARGO_NET_OFFLINE=true` and pass `--offline`. Use `-j 4` (the machine is shared with other jobs). Use the worktree's own `target` directory (the default).
* Useful commands: `CARGO_NET_OFFLINE=true cargo test --offline -j 4 -p vls-core --features test_utils --test NAME` (integration tests in `<crate>/tests/` see only the public API; vls-core's `test_utils` feature gives helpers in `vls-core/src/util/test_utils.rs`; look at how existing tests under `vls-core/src/*_tests.rs`, `vls-persist/tests`, `vls-protocol-signer/tests` build nodes and channels).

## What to deliver

A change (one or a few small hunks in NON-test source files; never edit tests, test utilities or Cargo files) such that:

1. the workspace still compiles, and the EXISTING tests of every crate you touched and of the crates that depend on it still pass, unedited (at least `CARGO_NET_OFFLINE=true cargo test --offline -j 4 --no-fail-fast -p vls-core -p vls-persist -p vls-protocol -p vls-protocol-signer`; add `-p lightning-storage-server`, `-p vls-util`, `-p vlsd` etc. if you touched them);
2. the property as stated above no longer holds: there is a concrete input / request history / crash point / schedule, reachable through public entry points that real callers use, on which the signer now does what the property forbids;
3. the violation needs something SPECIFIC to manifest - a multi-step sequence of operations, a restart or fault at a particular point, an unusual but legal input or configuration, a particular interleaving, or two cooperating sites that each look fine alone. NOT something ordinary use or a basic smoke test would expose at once. It should look like a plausible mistake (a refactor, an optimisation, a tidy-up, an off-by-one, a changed default, a reordered statement), not sabotage, and must not be guarded by magic constants.
4. {steer}
5. Sites already used by earlier changes for this property (choose a DIFFERENT function/mechanism; a different function in the same file is fine):
{chr(10).join('   - ' + u for u in used) if used else '   (none)'}

And a demonstration: an integration test file (public API only) that PASSES on the unchanged worktree and FAILS with your change applied. Verify both yourself.

Put the result in `{out}/` (create it), exactly:

* `{out}/patch.diff` - output of `git -C {wt} diff` (source change only, without the demo test; must apply with `git apply` to the commit under study);
* `{out}/demo/<name>.rs` - the demonstration test file(s), to be copied into `<crate>/tests/`;
* `{out}/demo/README.md` - containing one line with the exact command, of the form `CARGO_NET_OFFLINE=true cargo test --offline -p <crate> [--features ...] --test <name>`;
* `{out}/meta.json` - {{"property": "{pid}", "summary": "<file, function: what was changed>", "breaks_because": "...", "needs_to_manifest": "...", "ran": ["<each command you ran and its outcome>"]}}.

When you are done: remove the demo test from the worktree, leave the worktree in place (it will be removed by the coordinator) but delete its build output (`rm -rf {wt}/target`). Report in a few lines what you changed and what is needed to trigger it. If after honest effort you cannot find such a change, say so plainly instead of delivering a weak one.
""")


if __name__ == "__main__":
    main()
