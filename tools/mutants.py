#!/usr/bin/env python3
"""Sensitivity run: apply each source mutant to a SCRATCH copy of the repository (never /repo),
rebuild a scratch copy of the harness against it, run the listed checks (quick tier) and report
which mutants are caught (exit 1 + VIOLATION) within the quick budget.

usage: mutants.py [--only SUBSTR] [--seed N] [--keep]
Scratch dirs: /tmp/mut-repo, /tmp/mut-harness (removed at the end unless --keep).
"""
import json, os, re, shutil, subprocess, sys, time

REPO = "/repo"
SREPO = "/tmp/mut-repo"
SHARN = "/tmp/mut-harness"
OUT = "/tmp/mut-out"

# (name, property ids, file, old, new, count)  -- old must occur exactly `count` times (0 = all)
M = []
def m(name, props, file, old, new, count=1):
    M.append(dict(name=name, props=props, file=file, old=old, new=new, count=count))

CH = "vls-core/src/channel.rs"
SV = "vls-core/src/policy/simple_validator.rs"
VA = "vls-core/src/policy/validator.rs"
ND = "vls-core/src/node.rs"
MO = "vls-core/src/monitor.rs"
TR = "vls-core/src/chain/tracker.rs"
VE = "vls-core/src/util/velocity.rs"
PE = "vls-core/src/persist/mod.rs"
TX = "vls-core/src/tx/tx.rs"

# ---- C01
m("c01-secret-bound-plus1", ["C01"], CH, "if commitment_number + 2 > next_holder_commit_num {", "if commitment_number + 1 > next_holder_commit_num {", 2)
m("c01-skip-htlc-sig-loop", ["C01"], CH, "for ndx in 0..recomposed_tx.htlcs().len() {\n            let htlc = &recomposed_tx.htlcs()[ndx];\n\n            let htlc_redeemscript", "for ndx in 0..0 {\n            let htlc = &recomposed_tx.htlcs()[ndx];\n\n            let htlc_redeemscript")
m("c01-skip-commit-sig-check", ["C01"], CH, """            .map_err(|ve| {
                policy_error(
                    "policy-revoke-new-commitment-signed",
                    format!("commit sig verify failed: {}", ve),
                )
            })?;""", """            .map_err(|ve| {
                policy_error(
                    "policy-revoke-new-commitment-signed",
                    format!("commit sig verify failed: {}", ve),
                )
            })
            .ok();""")
m("c01-stub-releases-secret", ["C01"], CH, """    fn get_per_commitment_secret_or_none(&self, _commitment_number: u64) -> Option<SecretKey> {
        None
    }""", """    fn get_per_commitment_secret_or_none(&self, _commitment_number: u64) -> Option<SecretKey> {
        Some(SecretKey::from_slice(&self.keys.release_commitment_secret(INITIAL_COMMITMENT_NUMBER - _commitment_number).unwrap()).unwrap())
    }""")
# ---- C02
m("c02-drop-closed-check-in-revoke", ["C02"], CH, "        if self.enforcement_state.channel_closed {\n            policy_err!(\n                validator,\n                \"policy-revoke-not-closed\",", "        if false {\n            policy_err!(\n                validator,\n                \"policy-revoke-not-closed\",")
m("c02-drop-closed-check-in-validate", ["C02"], SV, "if commit_num == estate.next_holder_commit_num && estate.channel_closed {", "if false && estate.channel_closed {")
m("c02-sign-revoked-commitment", ["C02"], VA, "if commitment_number + 1 != estate.next_holder_commit_num {", "if commitment_number + 1 != estate.next_holder_commit_num && commitment_number + 2 != estate.next_holder_commit_num {")
# ---- C03
m("c03-window-plus2", ["C03"], SV, "if commit_num > estate.next_counterparty_revoke_num + 1 {", "if commit_num > estate.next_counterparty_revoke_num + 2 {")
m("c03-skip-point-comparison", ["C03"], SV, "                if supplied_commit_point != prev {", "                if false && supplied_commit_point != prev {")
m("c03-skip-retry-same-info", ["C03"], SV, "            if Some(info2) != prev_commit_info.as_ref() {", "            if false && Some(info2) != prev_commit_info.as_ref() {")
m("c03-skip-retry-same-point", ["C03"], SV, "                    if *commitment_point != prev {", "                    if false && *commitment_point != prev {")
m("c03-provide-secret-no-chain-check", ["C03", "C18"], VA, "        for i in 0..pos {\n            let (old_secret, old_idx) = self.old_secrets[i as usize];", "        for i in 0..0 {\n            let (old_secret, old_idx) = self.old_secrets[i as usize];")
m("c03-place-secret-off-by-one", ["C03", "C18"], VA, "        for i in 0..48 {\n            if idx & (1 << i) == (1 << i) {", "        for i in 1..48 {\n            if idx & (1 << i) == (1 << i) {")
m("c03-set-revoke-num-window", ["C03"], VA, "        if num + 1 > estate.next_counterparty_commit_num {", "        if num > estate.next_counterparty_commit_num + 1 {")
# ---- C04
m("c04-drop-recompose-compare", ["C04"], CH, "        if recomposed_tx.trust().built_transaction().transaction != *tx {\n            #[cfg(not(feature = \"log_pretty_print\"))]\n            {\n                debug!(\"ORIGINAL_TX", "        if false {\n            #[cfg(not(feature = \"log_pretty_print\"))]\n            {\n                debug!(\"ORIGINAL_TX")
m("c04-swap-values-in-rebuild", ["C04"], CH, "            INITIAL_COMMITMENT_NUMBER - commitment_number,\n            to_counterparty_value_sat,\n            to_holder_value_sat,\n            self.counterparty_pubkeys().funding_pubkey,", "            INITIAL_COMMITMENT_NUMBER - commitment_number,\n            to_holder_value_sat,\n            to_counterparty_value_sat,\n            self.counterparty_pubkeys().funding_pubkey,")
m("c04-sign-with-holder-delay", ["C04"], CH, "            holder_selected_contest_delay: self.setup.holder_selected_contest_delay,\n            is_outbound_from_holder", "            holder_selected_contest_delay: self.setup.holder_selected_contest_delay.wrapping_add(1),\n            is_outbound_from_holder")
# ---- C05
m("c05-skip-offered-htlc-dust", ["C05"], SV, "            if htlc.value_sat < offered_htlc_dust_limit {", "            if false && htlc.value_sat < offered_htlc_dust_limit {")
m("c05-skip-initial-rules", ["C05"], SV, "        // Enforce additional requirements on initial commitments.\n        if commit_num == 0 {", "        // Enforce additional requirements on initial commitments.\n        if false && commit_num == 0 {")
m("c05-skip-channel-value-phase2", ["C05"], CH, "        // Since we didn't have the value at the real open, validate it now.\n        let validator = self.validator();\n        validator.validate_channel_value(&self.setup)?;\n\n        let info2 = self.build_counterparty_commitment_info(", "        // Since we didn't have the value at the real open, validate it now.\n        let validator = self.validator();\n\n        let info2 = self.build_counterparty_commitment_info(")
m("c05-htlc-count-plus1", ["C05"], SV, "if info.offered_htlcs.len() + info.received_htlcs.len() > policy.max_htlcs {", "if info.offered_htlcs.len() + info.received_htlcs.len() > policy.max_htlcs + 1 {")
m("c05-inflight-ge", ["C05"], SV, "        if htlc_value_sat > policy.max_htlc_value_sat {", "        if htlc_value_sat > policy.max_htlc_value_sat + 1 {")
m("c05-feerate-u32-truncation", ["C05", "C08"], "vls-core/src/util/transaction_utils.rs", "    let feerate = ((total_fee as u128 * 1000) + 999) / weight as u128;\n    u32::try_from(feerate).unwrap_or(u32::MAX)", "    (((total_fee * 1000) + 999) / weight) as u32")
m("c05-max-delay-off", ["C05"], SV, "        if delay > policy.max_delay as u32 {", "        if delay > policy.max_delay as u32 + 1 {")
m("c05-unsafe-type-allowed", ["C05"], SV, "const SAFE_COMMITMENT_TYPE: &[CommitmentType] =\n    &[CommitmentType::StaticRemoteKey, CommitmentType::AnchorsZeroFeeHtlc];", "const SAFE_COMMITMENT_TYPE: &[CommitmentType] =\n    &[CommitmentType::StaticRemoteKey, CommitmentType::AnchorsZeroFeeHtlc, CommitmentType::Anchors];")
m("c05-cltv-max-skip", ["C05"], SV, "        if expiry >= MAX_CLTV_EXPIRY {", "        if expiry > MAX_CLTV_EXPIRY {")
# ---- C06
m("c06-no-validate-payments-cp-phase2", ["C06"], CH, """        let outgoing_payment_summary = self.enforcement_state.payments_summary(None, Some(&info2));
        state.validate_payments(
            &self.id0,
            &incoming_payment_summary,
            &outgoing_payment_summary,
            &delta,
            validator.clone(),
        )?;

        // Only advance the state if nothing goes wrong.
        validator.set_next_counterparty_commit_num(
            &mut self.enforcement_state,
            commitment_number + 1,""", """        let outgoing_payment_summary = self.enforcement_state.payments_summary(None, Some(&info2));

        // Only advance the state if nothing goes wrong.
        validator.set_next_counterparty_commit_num(
            &mut self.enforcement_state,
            commitment_number + 1,""")
m("c06-max-to-min-in-summary", ["C06"], VA, "summary.entry(k).and_modify(|e| *e = max(*e, v)).or_insert(v);", "summary.entry(k).and_modify(|e| *e = min(*e, v)).or_insert(v);")
m("c06-skip-restore-payments", ["C06"], ND, "                    channel.restore_payments();\n", "")
m("c06-no-revalidate-at-revoke", ["C06"], CH, """        state.validate_payments(
            &self.id0,
            &incoming_payment_summary,
            &outgoing_payment_summary,
            &delta,
            validator.clone(),
        )?;

        let (info2, sigs) = self.enforcement_state.next_holder_commit_info.take().unwrap();""", """        let (info2, sigs) = self.enforcement_state.next_holder_commit_info.take().unwrap();""")
m("c06-routing-fee-times-1000", ["C06"], SV, "            a + self.policy.max_routing_fee_msat\n", "            a + self.policy.max_routing_fee_msat * 1000\n")
# ---- C07
m("c07-skip-htlc-test", ["C07"], SV, "if !holder_info.htlcs_is_empty() || !counterparty_info.htlcs_is_empty() {", "if false && !holder_info.htlcs_is_empty() {")
m("c07-only-one-commitment-outbound", ["C07"], SV, """            if let (true, descr) = self.outside_epsilon_range(
                to_counterparty_value_sat,
                holder_info.to_countersigner_value_sat,
            ) {""", """            if let (true, descr) = self.outside_epsilon_range(
                to_counterparty_value_sat,
                to_counterparty_value_sat,
            ) {""")
m("c07-skip-upfront-compare", ["C07"], SV, "            if *holder_script != setup.holder_shutdown_script {", "            if false && *holder_script != setup.holder_shutdown_script {")
m("c07-no-closed-flag-phase2", ["C07", "C11"], CH, """            .map_err(|_| Status::internal("failed to sign"))?;
        self.enforcement_state.channel_closed = true;
        trace_enforcement_state!(self);
        self.persist()?;
        Ok(sig)
    }

    /// Sign a delayed output""", """            .map_err(|_| Status::internal("failed to sign"))?;
        trace_enforcement_state!(self);
        self.persist()?;
        Ok(sig)
    }

    /// Sign a delayed output""")
m("c07-allowlist-not-consulted-foreign-ok", ["C07"], SV, """                policy_err!(
                    self,
                    "policy-mutual-destination-allowlisted",
                    "holder output not to wallet or in allowlist"
                );""", "")
# ---- C08
m("c08-unknown-counted-silently", ["C08"], SV, "                unknowns.push(outndx);", "                let _ = outndx;")
m("c08-skip-value-match", ["C08"], SV, "                        if output.value.to_sat() != chan.setup.channel_value_sat {", "                        if false && output.value.to_sat() != chan.setup.channel_value_sat {")
m("c08-skip-segwit-test", ["C08"], SV, "if channels.iter().any(|c| c.is_some()) && !is_tx_non_malleable(tx, segwit_flags) {", "if false && !is_tx_non_malleable(tx, segwit_flags) {")
m("c08-skip-initial-commitment-test", ["C08"], SV, "                        if chan.enforcement_state.next_holder_commit_num != 1 {", "                        if false && chan.enforcement_state.next_holder_commit_num != 1 {")
m("c08-skip-push-test", ["C08"], SV, "                        if push_val_sat > 0 {", "                        if false && push_val_sat > 0 {")
m("c08-skip-script-match", ["C08"], SV, "                        if output.script_pubkey != script_pubkey {", "                        if false && output.script_pubkey != script_pubkey {")
# ---- C09
m("c09-check-first-output-only", ["C09"], SV, "        for out in tx.output.iter() {\n            let dest_script = &out.script_pubkey;", "        for out in tx.output.iter().take(1) {\n            let dest_script = &out.script_pubkey;")
m("c09-htlc-tx-swapped-delays", ["C09"], SV, "        let to_self_delay = if is_counterparty {\n            setup.holder_selected_contest_delay", "        let to_self_delay = if !is_counterparty {\n            setup.holder_selected_contest_delay")
m("c09-skip-htlc-fee-max", ["C09"], SV, "        if feerate_per_kw > self.policy.max_feerate_per_kw {\n            policy_err!(\n                self,\n                \"policy-htlc-fee-range\",", "        if false && feerate_per_kw > self.policy.max_feerate_per_kw {\n            policy_err!(\n                self,\n                \"policy-htlc-fee-range\",")
m("c09-sweep-version-unchecked", ["C09"], SV, "        if tx.version != Version::TWO {\n            transaction_format_err!(self, \"policy-sweep-version\"", "        if false && tx.version != Version::TWO {\n            transaction_format_err!(self, \"policy-sweep-version\"")
m("c09-sequence-input0", ["C09"], SV, "let seq = tx.input[input].sequence.0;", "let seq = tx.input[0].sequence.0;", 3)
# ---- C10 / C11
m("c10-secret-stored-before-check", ["C10"], CH, "        let mut new_secrets = self.enforcement_state.counterparty_secrets.clone();\n        if let Some(secrets) = new_secrets.as_mut() {", "        let mut new_secrets = self.enforcement_state.counterparty_secrets.clone();\n        if let Some(secrets) = self.enforcement_state.counterparty_secrets.as_mut() {")
m("c10-pending-stored-before-payments-check", ["C10"], CH, """        let outgoing_payment_summary = self.enforcement_state.payments_summary(Some(&info2), None);
        state.validate_payments(
            &self.id0,
            &incoming_payment_summary,
            &outgoing_payment_summary,
            &delta,
            validator.clone(),
        )?;

        if commitment_number == self.enforcement_state.next_holder_commit_num {
            let counterparty_signatures = CommitmentSignatures(
                counterparty_commit_sig.clone(),
                counterparty_htlc_sigs.to_vec(),
            );
            self.enforcement_state.next_holder_commit_info = Some((info2, counterparty_signatures));
        }

        trace_enforcement_state!(self);
        self.persist()?;

        Ok(())
    }

    /// Revoke holder commitment""", """        let outgoing_payment_summary = self.enforcement_state.payments_summary(Some(&info2), None);
        if commitment_number == self.enforcement_state.next_holder_commit_num {
            let counterparty_signatures = CommitmentSignatures(
                counterparty_commit_sig.clone(),
                counterparty_htlc_sigs.to_vec(),
            );
            self.enforcement_state.next_holder_commit_info = Some((info2, counterparty_signatures));
        }
        state.validate_payments(
            &self.id0,
            &incoming_payment_summary,
            &outgoing_payment_summary,
            &delta,
            validator.clone(),
        )?;

        trace_enforcement_state!(self);
        self.persist()?;

        Ok(())
    }

    /// Revoke holder commitment""")
m("c10-tracker-pop-before-validate", ["C10", "C13"], TR, "            }\n        };\n\n        let mut prev_headers = supplied_prev_headers;", "            }\n            self.headers.pop_front();\n        };\n\n        let mut prev_headers = supplied_prev_headers;")
m("c10-invoice-inserted-before-velocity", ["C10"], ND, """        if !state.velocity_control.insert(now.as_secs(), payment_state.amount_msat) {
            warn!(""", """        state.payments.entry(hash).or_insert_with(RoutedPayment::new);
        if !state.velocity_control.insert(now.as_secs(), payment_state.amount_msat) {
            warn!(""")
m("c11-no-persist-activate", ["C11"], CH, "        trace_enforcement_state!(self);\n        self.persist()?;\n        Ok(self.get_per_commitment_point_unchecked(1))", "        trace_enforcement_state!(self);\n        Ok(self.get_per_commitment_point_unchecked(1))")
m("c11-no-persist-sign-holder", ["C11", "C02"], CH, "        self.enforcement_state.channel_closed = true;\n        trace_enforcement_state!(self);\n        self.persist()?;\n        Ok(sig)\n    }\n\n    /// Sign a holder commitment and HTLCs when recovering", "        self.enforcement_state.channel_closed = true;\n        trace_enforcement_state!(self);\n        Ok(sig)\n    }\n\n    /// Sign a holder commitment and HTLCs when recovering")
m("c11-no-persist-revocation", ["C11", "C03"], CH, "        self.enforcement_state.counterparty_secrets = new_secrets;\n\n        trace_enforcement_state!(self);\n        self.persist()?;", "        self.enforcement_state.counterparty_secrets = new_secrets;\n\n        trace_enforcement_state!(self);")
m("c11-forget-no-tracker-persist", ["C11", "C15"], ND, "            self.persister\n                .update_tracker(&self.get_id(), &tracker)\n                .map_err(|_| internal_error(\"tracker persist failed\"))?;\n        }\n        return Ok(());", "            let _ = &tracker;\n        }\n        return Ok(());")
m("c11-allowlist-not-persisted", ["C11"], ND, "        for allowable in allowables {\n            state.allowlist.insert(allowable);\n        }\n        self.update_allowlist(&state)?;\n        Ok(())\n    }\n\n    /// Replace", "        for allowable in allowables {\n            state.allowlist.insert(allowable);\n        }\n        Ok(())\n    }\n\n    /// Replace")
m("c11-hwm-not-persisted", ["C11", "C15"], ND, "                node_state.dbid_high_water_mark = channel_id.oid();\n                self.persister\n                    .update_node(&self.get_id(), &node_state)\n                    .unwrap_or_else(|err| panic!(\"could not update node state: {:?}\", err));", "                node_state.dbid_high_water_mark = channel_id.oid();")
# ---- C12
m("c12-shift-one-less", ["C12"], VE, "        let nshift = min(len, nshift as usize);", "        let nshift = min(len, (nshift as usize).saturating_sub(1));")
m("c12-no-shift", ["C12"], VE, "        for _ in 0..nshift {\n            self.buckets.insert(0, 0);\n        }", "        for _ in 0..nshift {\n            self.buckets.push(0);\n        }")
m("c12-restored-controls-dropped", ["C12"], ND, "        let mut global_velocity_control = state.velocity_control.clone();\n        global_velocity_control.update_spec(&policy.global_velocity_control());", "        let mut global_velocity_control = Self::make_velocity_control(&policy);\n        global_velocity_control.update_spec(&policy.global_velocity_control());")
m("c12-fee-not-persisted", ["C12"], ND, "        self.persister.update_node(&self.get_id(), &*state).expect(\"node persistence failure\");\n\n        Ok(())\n    }\n\n    fn validator(&self)", "        Ok(())\n    }\n\n    fn validator(&self)")
m("c12-limit-compare-saturating-wrong", ["C12"], VE, "        if current_velocity.saturating_add(velocity_msat) > self.limit {", "        if current_velocity.wrapping_add(velocity_msat) > self.limit {")
# ---- C16
m("c16-redb-no-version-cache-update", ["C16"], "vls-persist/src/kvv/redb.rs", "        for (key, value) in staged_versions.into_iter() {\n            versions.insert(key, value);\n        }", "        let _ = staged_versions;")
m("c16-memory-batch-not-atomic", ["C16"], "vls-persist/src/kvv/memory.rs", """                if version < ver {
                    error!("version mismatch for {}: {} < {}", key, version, ver);
                    // version cannot go backwards
                    return Err(Error::VersionMismatch);
                } else if version == ver {""", """                if version < ver {
                    error!("version mismatch for {}: {} < {}", key, version, ver);
                    // version cannot go backwards
                    for kvv in kvvs.iter().take(1) {
                        data.insert(kvv.0.clone(), kvv.1.clone());
                    }
                    return Err(Error::VersionMismatch);
                } else if version == ver {""")
m("c16-memory-equal-version-overwrite", ["C16"], "vls-persist/src/kvv/memory.rs", """            } else if version == *ver {
                // if same version, value must not have changed
                if *val != value {
                    error!("value mismatch for {}: {}", key, version);
                    return Err(Error::VersionMismatch);
                }
                return Ok(());
            }""", """            } else if version == *ver {
                // if same version, value must not have changed
                if false && *val != value {
                    error!("value mismatch for {}: {}", key, version);
                    return Err(Error::VersionMismatch);
                }
            }""")
m("c16-cloud-get-ignores-log", ["C16"], "vls-persist/src/kvv/cloud.rs", "        if let Some((v, vv)) = commit_log.get(key) {\n            Ok(Some((*v, vv.clone())))\n        } else {\n            self.local.get(key)\n        }", "        let _ = commit_log;\n        self.local.get(key)")
m("c16-cloud-version-below-local", ["C16"], "vls-persist/src/kvv/cloud.rs", "            if version < v {\n                error!(\"version mismatch for {}: {} < {}\", key, version, v);", "            if version + 1 < v {\n                error!(\"version mismatch for {}: {} < {}\", key, version, v);")
# ---- C17
m("c17-core-tag-without-version", ["C17"], PE, "    hmac.input(key.as_bytes());\n    hmac.input(&version.to_be_bytes());\n    hmac.input(&value);", "    hmac.input(key.as_bytes());\n    let _ = version;\n    hmac.input(&value);")
m("c17-check-hmac-ignores-nonce", ["C17"], PE, "        let hmac = compute_shared_hmac(&self.shared_secret, &self.last_nonce, &kvs); // in signer", "        let hmac = compute_shared_hmac(&self.shared_secret, &[0u8; 32], &kvs); // in signer")
m("c17-lss-tag-without-key", ["C17"], "lightning-storage-server/lib/src/util.rs", "    hmac.input(key.as_bytes());\n    hmac.input(&version.to_be_bytes());", "    let _ = key;\n    hmac.input(&version.to_be_bytes());")
m("c17-lss-prefix-compare", ["C17"], "lightning-storage-server/lib/src/util.rs", "    if hmac == expected_hmac.as_slice() {", "    if hmac[..4] == expected_hmac.as_slice()[..4] {")
# ---- C13 / C14 / C15 (samples; the sub-agents ran their own sets)
m("c13-skip-pow", ["C13"], TR, "        header.validate_pow(header.target()).map_err(|_| Error::InvalidBlock)?;", "        let _ = header.validate_pow(header.target());")
m("c13-majority-half-rounded-down", ["C13"], VA, "    let required_majority = (trusted_oracle_pubkeys.len() + 1) / 2;", "    let required_majority = trusted_oracle_pubkeys.len() / 2;")
m("c14-forward-order-undo", ["C14"], MO, "for change in decode_state.changes.drain(..).rev() {", "for change in decode_state.changes.drain(..) {")
m("c14-no-unsweep", ["C14", "C15"], MO, "            self.closing_swept_height = None;\n        }\n\n        if our_output_was_swept", "        }\n\n        if our_output_was_swept")
m("c15-min-depth-10", ["C15"], MO, "const MIN_DEPTH: u32 = 100;", "const MIN_DEPTH: u32 = 10;")
m("c15-hwm-gt", ["C15"], ND, "        if self.get_state().dbid_high_water_mark >= dbid {", "        if self.get_state().dbid_high_water_mark > dbid {")
# ---- C18 / C19
m("c18-keys-depend-on-value", ["C18"], "vls-core/src/signer/my_keys_manager.rs", None, None)
# ---- C20
m("c20-new-channel-lock-inversion", ["C20"], ND, "        let tracker = arc_self.get_tracker();\n        let blockheight = tracker.height();\n        let mut channels = self.get_channels();", "        let mut channels = self.get_channels();\n        let tracker = arc_self.get_tracker();\n        let blockheight = tracker.height();")
m("c20-sign-onchain-lock-inversion", ["C20"], ND, "        let mut tracker = self.get_tracker();\n        let channels_lock = self.get_channels();\n\n        // Funding transactions cannot", "        let channels_lock = self.get_channels();\n        let mut tracker = self.get_tracker();\n\n        // Funding transactions cannot")
m("c20-height-read-before-stub", ["C20"], ND, "        let tracker = arc_self.get_tracker();\n        let blockheight = tracker.height();\n        let mut channels = self.get_channels();", "        let blockheight = arc_self.get_tracker().height();\n        let mut channels = self.get_channels();")


def sh(cmd, **kw):
    return subprocess.run(cmd, shell=True, stdout=subprocess.PIPE, stderr=subprocess.STDOUT, text=True, **kw)


def setup():
    os.makedirs(OUT, exist_ok=True)
    sh(f"rsync -a --delete --exclude target --exclude .git {REPO}/ {SREPO}/")
    sh(f"rsync -a --delete --exclude target-hooks /verif/harness/ {SHARN}/")
    for f in ["Cargo.toml", "build.rs"]:
        p = os.path.join(SHARN, f)
        s = open(p).read().replace("/repo/", SREPO + "/")
        open(p, "w").write(s)
    shutil.copy(os.path.join(SREPO, "Cargo.lock"), os.path.join(SHARN, "Cargo.lock.repo"))


def build(hooks=False):
    if hooks:
        r = sh(f"cd {SHARN} && RUSTFLAGS='--cfg vls_verif' CARGO_NET_OFFLINE=true cargo build --release --offline --target-dir target-hooks 2>&1 | grep -E '^error' -A6 | head -30")
    else:
        r = sh(f"cd {SHARN} && CARGO_NET_OFFLINE=true cargo build --release --offline 2>&1 | grep -E '^error' -A6 | head -30")
    return r.stdout.strip()


def main():
    only = None
    seed = 1
    keep = False
    a = sys.argv[1:]
    while a:
        x = a.pop(0)
        if x == "--only":
            only = a.pop(0)
        elif x == "--seed":
            seed = int(a.pop(0))
        elif x == "--keep":
            keep = True
    setup()
    results = []
    for mu in M:
        if mu["old"] is None:
            continue
        if only and only not in mu["name"]:
            continue
        path = os.path.join(SREPO, mu["file"])
        orig = open(os.path.join(REPO, mu["file"])).read()
        n = orig.count(mu["old"])
        if n == 0 or (mu["count"] and n != mu["count"]):
            results.append((mu["name"], "SPEC-MISMATCH(%d)" % n, ""))
            print(mu["name"], "SPEC-MISMATCH", n, flush=True)
            continue
        open(path, "w").write(orig.replace(mu["old"], mu["new"]))
        for pid in mu["props"]:
            hooks = pid == "C20"
            t0 = time.time()
            err = build(hooks)
            if err:
                res = "BUILD-FAIL"
                detail = err[:200]
            else:
                binp = f"{SHARN}/{'target-hooks' if hooks else 'target'}/release/vcheck"
                r = sh(f"cd {SHARN} && VERIF_OUT_DIR={OUT} {binp} {pid} --tier quick --seed {seed}", timeout=1500)
                viol = [l for l in r.stdout.splitlines() if l.startswith("violation:") or l.startswith("regression:") or l.startswith("unlisted")]
                res = {0: "MISSED", 1: "CAUGHT", 2: "INCONCLUSIVE"}.get(r.returncode, "rc%d" % r.returncode)
                detail = (viol[0][:160] if viol else r.stdout.strip().splitlines()[-1][:160] if r.stdout.strip() else "")
            dt = time.time() - t0
            results.append((mu["name"] + "@" + pid, res, detail))
            print(f"{mu['name']}@{pid}: {res} ({dt:.0f}s) {detail}", flush=True)
        open(path, "w").write(orig)
    # merge with earlier results (a partial run with --only must not drop the rest)
    try:
        old = json.load(open("/verif/tools/mutants_result.json"))
    except Exception:
        old = []
    merged = {r[0]: r for r in old}
    for r in results:
        merged[r[0]] = list(r)
    order = [r[0] for r in old] + [r[0] for r in results if r[0] not in {o[0] for o in old}]
    json.dump([merged[k] for k in order], open("/verif/tools/mutants_result.json", "w"), indent=1)
    if not keep:
        shutil.rmtree(SREPO, ignore_errors=True)
        shutil.rmtree(SHARN, ignore_errors=True)
        shutil.rmtree(OUT, ignore_errors=True)


if __name__ == "__main__":
    main()
