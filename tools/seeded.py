#!/usr/bin/env python3
"""Run the registered checks against the independently seeded changes kept under /verif/seeded/<id>/.

Each seeded/<id>/ holds patch.diff (applies to /repo's HEAD with `git apply`), the author's
demonstration (demo/), and meta.json {"property": "Cxx", "also": ["Cyy", ...], ...}.

usage: seeded.py [--only SUBSTR] [--ids A,B,C] [--seed N] [--tier quick|thorough] [--in-place] [--keep]
                 [--primary-only] [--scratch SUFFIX] [--res FILE]
--primary-only : only the check of the property the change breaks (not the sibling checks in meta.also)
--scratch S    : scratch dirs /tmp/seed-repo-S, /tmp/seed-harness-S, /tmp/seed-out-S (two runs side by side)
--res FILE     : result file (default tools/seeded_result.json); merge with tools/seeded_merge.py

default mode   : the patch is applied to a SCRATCH copy of the repository (/tmp/seed-repo) and a
                 scratch copy of the harness (/tmp/seed-harness) is built against it, so /repo and
                 the registered target dirs are never touched (safe to run next to other checks).
--in-place mode: the prescribed procedure: `git -C /repo apply patch.diff`, `./check <ID> <tier>`,
                 `git -C /repo checkout -- .` (always, even on error). Refuses to start when /repo
                 has uncommitted changes.
Results go to /verif/tools/seeded_result.json (merged by change id and check id).
"""
import json, os, shutil, subprocess, sys, time

REPO = "/repo"
SREPO = "/tmp/seed-repo"
SHARN = "/tmp/seed-harness"
OUT = "/tmp/seed-out"
RES = "/verif/tools/seeded_result.json"


def sh(cmd, **kw):
    return subprocess.run(cmd, shell=True, stdout=subprocess.PIPE, stderr=subprocess.STDOUT, text=True, **kw)


def setup_scratch():
    os.makedirs(OUT, exist_ok=True)
    sh(f"rsync -a --delete --exclude target {REPO}/ {SREPO}/")
    # the scratch copy carries .git so that `git apply` and `git checkout -- .` work on it
    sh(f"git -C {SREPO} checkout -- . ; git -C {SREPO} clean -fdq -e target")
    sh(f"rsync -a --delete --exclude target-hooks /verif/harness/ {SHARN}/")
    for f in ["Cargo.toml", "build.rs"]:
        p = os.path.join(SHARN, f)
        s = open(p).read().replace("/repo/", SREPO + "/")
        open(p, "w").write(s)


def build_scratch(hooks):
    if hooks:
        cmd = f"cd {SHARN} && RUSTFLAGS='--cfg vls_verif' CARGO_NET_OFFLINE=true cargo build --release --offline --target-dir target-hooks 2>&1"
    else:
        cmd = f"cd {SHARN} && CARGO_NET_OFFLINE=true cargo build --release --offline 2>&1"
    r = sh(cmd + " | grep -E '^error' -A6 | head -30")
    return r.stdout.strip()


def classify(r):
    lines = r.stdout.splitlines()
    viol = [l for l in lines if l.startswith("violation:") or l.startswith("regression:") or l.startswith("VIOLATION")]
    res = {0: "MISSED", 1: "CAUGHT", 2: "INCONCLUSIVE"}.get(r.returncode, "rc%d" % r.returncode)
    detail = viol[0][:220] if viol else (lines[-1][:220] if lines else "")
    return res, detail


def main():
    global SREPO, SHARN, OUT, RES
    only, seed, tier, inplace, keep = None, 1, "quick", False, False
    idlist = None
    primary_only = False
    a = sys.argv[1:]
    while a:
        x = a.pop(0)
        if x == "--only":
            only = a.pop(0)
        elif x == "--seed":
            seed = int(a.pop(0))
        elif x == "--tier":
            tier = a.pop(0)
        elif x == "--in-place":
            inplace = True
        elif x == "--keep":
            keep = True
        elif x == "--ids":
            idlist = a.pop(0).split(",")
        elif x == "--primary-only":
            primary_only = True
        elif x == "--scratch":
            suf = a.pop(0)
            SREPO, SHARN, OUT = f"/tmp/seed-repo-{suf}", f"/tmp/seed-harness-{suf}", f"/tmp/seed-out-{suf}"
        elif x == "--res":
            RES = a.pop(0)
    ids = sorted(d for d in os.listdir("/verif/seeded") if os.path.isfile(f"/verif/seeded/{d}/patch.diff"))
    if only:
        ids = [d for d in ids if only in d]
    if idlist:
        ids = [d for d in ids if d in idlist]
    try:
        results = json.load(open(RES))
    except Exception:
        results = {}
    if inplace:
        if sh(f"git -C {REPO} status --porcelain --untracked-files=no").stdout.strip():
            print("refusing: /repo has uncommitted changes")
            return 2
    else:
        setup_scratch()
    repo = REPO if inplace else SREPO
    for sid in ids:
        meta = json.load(open(f"/verif/seeded/{sid}/meta.json"))
        checks = [meta["property"]] + ([] if primary_only else [c for c in meta.get("also", []) if c != meta["property"]])
        patch = f"/verif/seeded/{sid}/patch.diff"
        ap = sh(f"git -C {repo} apply --whitespace=nowarn {patch}")
        if ap.returncode != 0:
            print(f"{sid}: PATCH-DOES-NOT-APPLY {ap.stdout.strip()[:200]}", flush=True)
            results[f"{sid}@{checks[0]}"] = dict(result="PATCH-DOES-NOT-APPLY", detail=ap.stdout.strip()[:200], tier=tier, seed=seed)
            continue
        try:
            for pid in checks:
                t0 = time.time()
                if inplace:
                    r = sh(f"cd /verif && VERIF_SEED={seed} VERIF_OUT_DIR={OUT} ./check {pid} {tier}", timeout=7200)
                    res, detail = classify(r)
                else:
                    hooks = pid == "C20"
                    err = build_scratch(hooks)
                    if err:
                        res, detail = "BUILD-FAIL", err[:200]
                    else:
                        binp = f"{SHARN}/{'target-hooks' if hooks else 'target'}/release/vcheck"
                        r = sh(f"cd {SHARN} && VERIF_OUT_DIR={OUT} {binp} {pid} --tier {tier} --seed {seed}", timeout=7200)
                        res, detail = classify(r)
                dt = time.time() - t0
                results[f"{sid}@{pid}"] = dict(result=res, detail=detail, tier=tier, seed=seed, seconds=round(dt))
                print(f"{sid}@{pid}: {res} ({dt:.0f}s) {detail}", flush=True)
        finally:
            sh(f"git -C {repo} checkout -- .")
            if sh(f"git -C {repo} status --porcelain --untracked-files=no").stdout.strip():
                print(f"WARNING: {repo} not clean after reverting {sid}", flush=True)
        json.dump(results, open(RES, "w"), indent=1, sort_keys=True)
    if not inplace and not keep:
        shutil.rmtree(SREPO, ignore_errors=True)
        shutil.rmtree(SHARN, ignore_errors=True)
    shutil.rmtree(OUT, ignore_errors=True)
    return 0


if __name__ == "__main__":
    sys.exit(main())
