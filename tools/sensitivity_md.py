#!/usr/bin/env python3
"""Generate /verif/SENSITIVITY.md from tools/mutants_result.json (hand-written mutants, tools/mutants.py)
and tools/seeded_result.json (independently seeded changes under seeded/, tools/seeded.py)."""
import json, os

NOTES = {
    # hand-written mutants that survive because they do not break the property they were filed under
    "c02-drop-closed-check-in-validate@C02": "not a violation of C02 on the repaired tree: a commitment validated after closing can no longer be made current because revoke_previous_holder_commitment refuses once the channel is closing (fix af285ce); no secret and no second signature can follow. Defence in depth only.",
    "c03-set-revoke-num-window@C03": "equivalent w.r.t. C03: allows revoking the latest signed commitment before its successor is signed; the secret is still verified against the signed point and every commitment below n-1 is still revoked before n is signed (at most two unrevoked).",
    "c03-provide-secret-no-chain-check@C18": "filed under C18 only to see whether key-stability notices; C18 feeds true secrets only. The C03 check catches it.",
    "c03-place-secret-off-by-one@C03": "over-refusal: every odd-index secret is refused, so no commitment can advance and the C03 run becomes vacuous (exit 2, inconclusive, not a pass). The C18 check catches it (compact store rejects the channel's own secrets).",
    "c07-no-closed-flag-phase2@C11": "filed under C11 speculatively: memory and store agree (neither has the flag), so durability holds. The C07 check catches it.",
}
NOTES.update({
    "c12-shift-one-less@C12": "conservative: old buckets age more slowly, amounts stay counted longer; can only refuse more, never exceed the limit (the property is a safety bound).",
    "c12-no-shift@C12": "conservative: buckets never rotate, every approved amount stays counted forever; over-refusal only.",
    "c17-lss-prefix-compare@C17": "comparing only 4 tag bytes needs a 32-bit collision to forge; not reachable by generated search. A flipped bit in the uncompared tag bytes is accepted, but the content returned is exactly what was written, which the property allows.",
    "c11-no-persist-revocation@C03": "filed under C03 speculatively (C03 is not about durability); the C11 check catches it.",
    "c11-forget-no-tracker-persist@C15": "the forget flag is lost on restart, so the channel is kept longer (over-retention); C15 is about discarding too early. The C11 check catches it.",
})

SEED_NOTES = {
    "C06-b": "caught by C06 after the finite-velocity option was added (first run: missed).",
    "C06-r2b": "a pure interleaving defect (validate and apply of the node-wide ledger no longer one critical section): not reachable by the single-threaded C06 histories by construction; caught by the C20 check (CSignPay requests).",
    "C20-a": "caught after payment-carrying counterparty sign requests were added to C20 (first run: missed).",
    "C11-r2a": "needs burial of a close, a forget request and a heartbeat, which the union machine of C11 does not have; the C15 check catches it (the restart fails: a channel record without its tracker listener).",
    "C08-r3a": "caught by C08 after the wire group got an input that the request misdescribes (first run: missed by C08, caught by C19).",
    "C09-r4b": "a durability defect (the RemoveBlock handler no longer persists the tracker); the C09 generator has no chain and no restart. Caught by the C11 check (block requests through the root handler).",
    "C01-r4b": "caught by C01 after histories on a channel with a refused setup were added (first run: missed by C01, caught by C05 and C10).",
    "C08-r4a": "caught after the start-up allowlist scenario was added (first run: missed).",
    "C08-r4b": "caught after the validator-factory dimension was added to C08 (first run: missed by C08, caught by C12).",
    "C10-r4a": "caught after self-issued invoices, day-long clock steps and the Stale macro were added (first run: missed).",
    "C14-r4a": "caught after wire delivery of blocks was added (first run: missed everywhere).",
    "C15-r4b": "caught by C15 after streamed delivery was added (first run: missed by C15, caught by C14).",
    "C17-r4b": "caught by the start-up group added in the same round.",
    "C03-r5b": "caught by C03 after carve-out filter cases were added (first run: missed by C03, caught by C09).",
    "C05-r5a": "caught after blocks between NewChannel, SetupChannel and the request were added (first run: missed).",
    "C05-r5b": "caught after the C05 wire group was added (first run: missed).",
    "C06-r5b": "the C06 oracle leaves hashes with a known preimage outside the in-flight bound, so it cannot see a retry of a settled payment; caught by the C11 check (node.invoices not durable).",
    "C12-r5b": "caught after invoices were proposed through the approver paths (first run: missed).",
    "C18-r5a": "caught after world b got a permissive filter and secrets ahead of the state were requested (first run: missed).",
    "C20-r5a": "confirmed by hand (the demonstration needs shuttle as a dev-dependency of vls-protocol-signer); caught after the wire-level validate request was added.",
    "C20-r5b": "caught after invoice requests were added to the programs (first run: missed).",
    "C19-r5b": "caught by the framed path added in the same round (reported through a fixed-case replay, hence the word regression in the detail).",
    "C09-r3b": "needs a reorg (block removal with a transaction-less filter proof) before the sweep; the C09 generator has no chain. Caught by the C14 check (connect + disconnect is not the identity).",
    "C10-r3a": "caught after the union machine got a channel funded by a real transaction (first run: missed by every check).",
    "C18-r3a": "caught by C18 after channels were also observed through their permanent id (first run: missed by C18, caught by C04 and C11).",
    "C19-r3b": "caught after the build-time structural comparison of the dispatch enum was added (first run: inconclusive, the registry floor tripped).",
    "C17-r2a": "caught since round 7: the client-driver group drives PrivClient over tonic against an in-process storage server (first runs: missed, the driver was not reachable).",
    "C17-r7a": "caught after the client-driver group was added (first run: missed).",
    "C13-r7a": "caught after the harness's own restore self-check became an oracle (first run: inconclusive, exit 2: the self-check panicked).",
    "C15-r7a": "caught after HTLCs with identical scripts and all-but-one sweeps were added (first run: missed).",
    "C16-r7a": "caught after the crash reopen (byte copy of the open database) was added (first run: missed).",
    "C09-r7a": "caught after allowlist replacement requests (set_allowlist with an empty list, a strict subset, a disjoint list) were added (first run: missed).",
    "C19-r7a": "caught after the typed framed writer / reader were added (first run: missed); reported through a fixed-case replay, hence the word regression in the detail.",
    "C14-r7a": "caught after batch funding (one transaction funding two channels) was added (first run: missed).",
    "C04-r7a": "caught after the peer-reuses-a-holder-point cases were added (first run: missed).",
    "C20-r7a": "caught after keysends through a stateless approver were added to the programs (first run: missed).",
    "C07-r7a": "caught after the replaced holder commitment also went through the raw entry point (first run: missed).",
    "C01-r7a": "caught by the carve-out filter dimension added in the same round.",
    "C11-r6b": "a pure interleaving defect filed under C11 (allowlist written outside the node-state lock); caught by the C20 check (two racing allowlist requests, a fixed case since round 8).",
    "C20-r6a": "the same change as C11-r6b; caught by the fixed case [[Allowlist], [Allowlist]] (in-place run; the random programs of seed 1 no longer contain two racing allowlist requests since the request mix grew).",
    "C17-r6a": "a store defect filed under C17 (redb batch-mismatch flag overwritten); caught by the C16 check (C16:redb.put_batch).",
    "C17-r6b": "a store defect filed under C17 (redb version cache rebuilt without tombstones); caught by the C16 check (C16:redb.version_cache).",
    "C02-r8a": "caught after the carve-out filter also ran with the on-chain validator factory (written before the first run).",
    "C07-r8a": "caught by the carve-out filter dimension added to C07 because of this change (written before the first run).",
    "C08-r8a": "caught after the wire group got an input the request does not describe at all (written before the first run).",
    "C10-r8a": "caught after a SetupChannel for a never-announced channel was added to the wire group (written before the first run).",
    "C11-r8a": "caught after histories that start with a full header window were added (first run: missed).",
    "C13-r8a": "caught after the harness kept its own record of the watched outpoints each block spends, plus a fixed case with 150 spends (first runs: missed).",
    "C14-r8a": "caught by the fixed case added because of this change (101 blocks, restart, 100-block reorganisation; written before the first run).",
    "C17-r8a": "the import into the local store is the cloud store's (C16): caught by C16 after sync batches carrying the last-writer record were added; the C17 check does not reach it.",
    "C20-r8a": "caught after TipInfo through the root handler was added to the programs (the first run reported a false alarm of the harness instead, see DESIGN.md 8.5).",
    "C02-r7a": "a pure interleaving defect (two racing SetupChannel requests for one stub): not reachable by the single-threaded C02 histories; caught by the C20 check.",
}


def esc(s):
    return s.replace("|", "\\|").replace("\n", " ")


def main():
    out = ["# Sensitivity of the checks", "",
           "Generated by `tools/sensitivity_md.py`; do not edit. All runs use the *quick* tier, VERIF_SEED=1, against a scratch copy of the repository with one change applied (never `/repo` itself).",
           "CAUGHT = exit 1 with a VIOLATION line (or a regression replay of a repaired defect failing); MISSED = exit 0; INCONCLUSIVE = exit 2.", ""]
    try:
        mres = json.load(open("/verif/tools/mutants_result.json"))
    except Exception:
        mres = []
    if mres:
        n = len(mres); c = sum(1 for r in mres if r[1] == "CAUGHT")
        out += [f"## Hand-written mutants ({c} of {n} mutant/check pairs caught)", "",
                "| mutant @ check | result | violation signature / note |", "|---|---|---|"]
        for name, res, detail in mres:
            note = NOTES.get(name, "")
            sig = ""
            if "[" in detail and "]" in detail:
                sig = detail[detail.index("[") + 1:detail.index("]")]
            txt = sig if res == "CAUGHT" else (note or detail[:120])
            out.append(f"| {name} | {res} | {esc(txt)} |")
        out.append("")
    try:
        sres = json.load(open("/verif/tools/seeded_result.json"))
    except Exception:
        sres = {}
    ids = sorted(d for d in os.listdir("/verif/seeded") if os.path.isfile(f"/verif/seeded/{d}/meta.json"))
    if ids:
        prim_c = prim_n = 0
        rows = []
        for sid in ids:
            meta = json.load(open(f"/verif/seeded/{sid}/meta.json"))
            p = meta["property"]
            summ = meta.get("summary", "")
            needs = meta.get("needs_to_manifest", "")
            r = sres.get(f"{sid}@{p}")
            prim_n += 1
            res = r["result"] if r else "not run"
            if res == "CAUGHT":
                prim_c += 1
            sig = ""
            if r and "[" in r["detail"] and "]" in r["detail"]:
                sig = r["detail"][r["detail"].index("[") + 1:r["detail"].index("]")]
            others = []
            for k, v in sorted(sres.items()):
                if k.startswith(sid + "@") and k != f"{sid}@{p}":
                    others.append(f"{k.split('@')[1]}: {v['result'].lower()}")
            note = SEED_NOTES.get(sid, "")
            rows.append(f"| {sid} | {p} | {esc(summ)[:260]} | {esc(needs)[:220]} | **{res}** {esc(sig)} | {', '.join(others)} | {esc(note)} |")
        out += [f"## Independently seeded changes ({prim_c} of {prim_n} caught by the check of the property they break)", "",
                "Each was written by a fresh sub-agent that saw only the property text and a scratch worktree, and was confirmed (applies, existing tests pass, demonstration fails with / passes without) by `tools/confirm_seed.py` before being kept under `seeded/<id>/`.", "",
                "| id | property | change | needs | result of that property's check | other checks tried | note |", "|---|---|---|---|---|---|---|"]
        out += rows
        out.append("")
    open("/verif/SENSITIVITY.md", "w").write("\n".join(out))
    print("wrote SENSITIVITY.md")


if __name__ == "__main__":
    main()
