//! One coverage-guided target for every property (selected with VERIF_PROP).  The input bytes are
//! the entropy stream of the property's proptest strategy; the oracle is the property's own.
//! A violation writes the generated case as a JSON replay file, prints its path and aborts, so
//! libFuzzer stores the entropy string as a crash artifact; listed known findings are tolerated.
#![no_main]
use libfuzzer_sys::fuzz_target;
use std::sync::OnceLock;
use vls_verif::engine::{FuzzDyn, FuzzOutcome};

static FUZZER: OnceLock<Box<dyn FuzzDyn>> = OnceLock::new();

extern "C" {
    fn atexit(cb: extern "C" fn()) -> i32;
}

extern "C" fn at_exit() {
    if let Some(f) = FUZZER.get() {
        f.dump_now();
    }
}

fn fuzzer() -> &'static Box<dyn FuzzDyn> {
    FUZZER.get_or_init(|| {
        let id = std::env::var("VERIF_PROP").expect("VERIF_PROP");
        if std::env::var("VERIF_DEBUG").is_err() {
            // panics inside the signer are caught by the harness (neither acceptance nor refusal)
            std::panic::set_hook(Box::new(|_| {}));
        }
        unsafe {
            atexit(at_exit);
        }
        vls_verif::fuzzer_for(&id).expect("property has a fuzzer")
    })
}

fuzz_target!(|data: &[u8]| {
    let f = fuzzer();
    match f.one(data) {
        FuzzOutcome::Rejected | FuzzOutcome::Held => {}
        FuzzOutcome::Violation(path, v) => {
            f.dump_now();
            println!("FUZZ-VIOLATION property={} sig=[{}] replay={}", f.id(), v.sig, path.display());
            eprintln!("FUZZ-VIOLATION property={} sig=[{}] replay={} {}", f.id(), v.sig, path.display(), v.msg);
            std::process::abort();
        }
        FuzzOutcome::Harness(e) => {
            // a harness panic is not a verdict on the property; counted, never a crash
            if std::env::var("VERIF_DEBUG").is_ok() {
                eprintln!("harness error: {}", e);
            }
        }
    }
});
