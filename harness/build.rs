//! Build script for the C19 check (protocol messages survive the wire unchanged).
//!
//! Parses `vls-protocol/src/msgs.rs` and `model.rs` of the tree under test with a small
//! hand-written tokenizer (no dependencies) and emits `$OUT_DIR/c19_gen.rs`:
//!   * `REGISTRY`: one entry per variant of `enum Message` (except `Unknown`),
//!   * for every struct reachable from a message: `strat_<S>(p) -> BoxedStrategy<V>` composed
//!     from the hand-written leaf table in `src/props/c19.rs`, and `build_<S>(&V) -> S`,
//!   * dispatchers `strat_message`, `build_message`, `typed_roundtrip`, `streamed_ref`.
//!
//! A message struct with a field type that is neither in the leaf table, a fixed byte array
//! declared through `array_impl!`/`secret_array_impl!`, a parsed struct with named public
//! fields, nor one of the generic wrappers `Option`/`Array`/`ArrayBE`/`WithSize` makes the
//! build fail, so that a new message type cannot silently escape the check.

use std::collections::{BTreeMap, BTreeSet};
use std::fmt::Write as _;
use std::path::{Path, PathBuf};

/// Source directory of the protocol crate under test.
const PROTO_SRC: &str = "/repo/vls-protocol/src";

/// Leaf types with a hand-written `leaf_strat_<T>` / `leaf_build_<T>` pair in c19.rs, and the
/// minimum number of bytes their encoding takes (used to size "largest array that fits").
const LEAVES: &[(&str, usize)] = &[
    ("u8", 1),
    ("u16", 2),
    ("u32", 4),
    ("u64", 8),
    ("bool", 1),
    ("Octets", 2),
    ("LargeOctets", 4),
    ("WireString", 1),
    ("Transaction", 10),
    ("PsbtWrapper", 19),
    ("StreamedPSBT", 19),
    ("BlockHeader", 80),
    ("FilterHeader", 32),
    ("BlockHash", 32),
    ("Txid", 32),
    ("OutPoint", 36),
    ("DebugTxoProof", 150),
];

// ---------------------------------------------------------------------------------------------
// tokenizer

#[derive(Clone, Debug, PartialEq)]
enum Tok {
    Ident(String),
    Punct(char),
    Lit(String),
}

fn tokenize(src: &str, file: &str) -> Vec<Tok> {
    let c: Vec<char> = src.chars().collect();
    let mut i = 0;
    let mut out = vec![];
    while i < c.len() {
        let ch = c[i];
        if ch.is_whitespace() {
            i += 1;
        } else if ch == '/' && i + 1 < c.len() && c[i + 1] == '/' {
            while i < c.len() && c[i] != '\n' {
                i += 1;
            }
        } else if ch == '/' && i + 1 < c.len() && c[i + 1] == '*' {
            let mut depth = 1;
            i += 2;
            while i < c.len() && depth > 0 {
                if c[i] == '/' && i + 1 < c.len() && c[i + 1] == '*' {
                    depth += 1;
                    i += 2;
                } else if c[i] == '*' && i + 1 < c.len() && c[i + 1] == '/' {
                    depth -= 1;
                    i += 2;
                } else {
                    i += 1;
                }
            }
        } else if ch == '"' {
            let s = i;
            i += 1;
            while i < c.len() && c[i] != '"' {
                if c[i] == '\\' {
                    i += 1;
                }
                i += 1;
            }
            i += 1;
            out.push(Tok::Lit(c[s..i.min(c.len())].iter().collect()));
        } else if ch == '\'' {
            // char literal or lifetime
            if i + 1 < c.len() && c[i + 1] == '\\' {
                let s = i;
                i += 2;
                while i < c.len() && c[i] != '\'' {
                    i += 1;
                }
                i += 1;
                out.push(Tok::Lit(c[s..i.min(c.len())].iter().collect()));
            } else if i + 2 < c.len() && c[i + 2] == '\'' {
                out.push(Tok::Lit(c[i..i + 3].iter().collect()));
                i += 3;
            } else {
                let s = i;
                i += 1;
                while i < c.len() && (c[i].is_alphanumeric() || c[i] == '_') {
                    i += 1;
                }
                out.push(Tok::Ident(c[s..i].iter().collect()));
            }
        } else if ch.is_ascii_digit() {
            let s = i;
            while i < c.len() && (c[i].is_alphanumeric() || c[i] == '_') {
                i += 1;
            }
            out.push(Tok::Lit(c[s..i].iter().collect()));
        } else if ch.is_alphabetic() || ch == '_' {
            let s = i;
            while i < c.len() && (c[i].is_alphanumeric() || c[i] == '_') {
                i += 1;
            }
            out.push(Tok::Ident(c[s..i].iter().collect()));
        } else if ch.is_ascii_punctuation() {
            out.push(Tok::Punct(ch));
            i += 1;
        } else {
            fail(&format!("{}: unexpected character {:?} at offset {}", file, ch, i));
        }
    }
    out
}

fn fail(msg: &str) -> ! {
    eprintln!("C19 generator (build.rs): {}", msg);
    println!("cargo:warning=C19 generator: {}", msg);
    std::process::exit(1);
}

// ---------------------------------------------------------------------------------------------
// parsed model

#[derive(Clone, Debug, PartialEq)]
struct Ty {
    name: String,
    args: Vec<Ty>,
}

impl Ty {
    fn show(&self) -> String {
        if self.args.is_empty() {
            self.name.clone()
        } else {
            format!("{}<{}>", self.name, self.args.iter().map(|a| a.show()).collect::<Vec<_>>().join(", "))
        }
    }
}

#[derive(Clone, Debug)]
struct Field {
    name: String,
    ty: Ty,
    tlv_tag: Option<u64>,
}

#[derive(Clone, Debug)]
struct Struct {
    name: String,
    file: String,
    message_id: Option<u64>,
    developer: bool,
    derives: Vec<String>,
    /// None: tuple / unit / generic struct (not generable)
    fields: Option<Vec<Field>>,
    all_pub: bool,
}

#[derive(Default)]
struct Parsed {
    structs: BTreeMap<String, Struct>,
    /// fixed byte arrays declared through array_impl!/secret_array_impl!
    fixed: BTreeMap<String, usize>,
    /// variants of `enum Message`: (variant, payload type, developer-only)
    variants: Vec<(String, Ty, bool)>,
}

fn skip_balanced(t: &[Tok], mut i: usize, open: char, close: char) -> usize {
    // t[i] is `open`; returns the index after the matching close
    let mut depth = 0;
    while i < t.len() {
        if t[i] == Tok::Punct(open) {
            depth += 1;
        } else if t[i] == Tok::Punct(close) {
            depth -= 1;
            if depth == 0 {
                return i + 1;
            }
        }
        i += 1;
    }
    i
}

fn parse_attr(t: &[Tok], i: usize) -> (Option<Vec<Tok>>, usize) {
    // t[i] == '#'
    let mut j = i + 1;
    let inner = t.get(j) == Some(&Tok::Punct('!'));
    if inner {
        j += 1;
    }
    if t.get(j) != Some(&Tok::Punct('[')) {
        return (None, j);
    }
    let end = skip_balanced(t, j, '[', ']');
    let body = t[j + 1..end - 1].to_vec();
    (if inner { None } else { Some(body) }, end)
}

fn parse_type(t: &[Tok], pos: &mut usize, ctx: &str) -> Ty {
    match t.get(*pos) {
        Some(Tok::Punct('[')) => {
            *pos += 1;
            let elem = parse_type(t, pos, ctx);
            if t.get(*pos) != Some(&Tok::Punct(';')) {
                fail(&format!("{}: unsupported slice/array type", ctx));
            }
            *pos += 1;
            let n = match t.get(*pos) {
                Some(Tok::Lit(n)) => n.clone(),
                _ => fail(&format!("{}: array length is not a literal", ctx)),
            };
            *pos += 1;
            if t.get(*pos) != Some(&Tok::Punct(']')) {
                fail(&format!("{}: malformed array type", ctx));
            }
            *pos += 1;
            Ty { name: format!("[{};{}]", elem.show(), n), args: vec![] }
        }
        Some(Tok::Ident(_)) => {
            let mut name;
            loop {
                match t.get(*pos) {
                    Some(Tok::Ident(id)) => {
                        name = id.clone();
                        *pos += 1;
                    }
                    _ => fail(&format!("{}: malformed type path", ctx)),
                }
                if t.get(*pos) == Some(&Tok::Punct(':')) && t.get(*pos + 1) == Some(&Tok::Punct(':')) {
                    *pos += 2;
                } else {
                    break;
                }
            }
            let mut args = vec![];
            if t.get(*pos) == Some(&Tok::Punct('<')) {
                *pos += 1;
                loop {
                    args.push(parse_type(t, pos, ctx));
                    match t.get(*pos) {
                        Some(Tok::Punct(',')) => *pos += 1,
                        Some(Tok::Punct('>')) => {
                            *pos += 1;
                            break;
                        }
                        _ => fail(&format!("{}: malformed generic arguments", ctx)),
                    }
                }
            }
            Ty { name, args }
        }
        other => fail(&format!("{}: unsupported type syntax starting at {:?}", ctx, other)),
    }
}

fn attr_is(a: &[Tok], name: &str) -> bool {
    matches!(a.first(), Some(Tok::Ident(n)) if n == name)
}

fn attr_int(a: &[Tok]) -> Option<u64> {
    a.iter().find_map(|t| match t {
        Tok::Lit(l) => l.replace('_', "").parse::<u64>().ok(),
        _ => None,
    })
}

fn attr_developer(a: &[Tok]) -> bool {
    attr_is(a, "cfg") && a.iter().any(|t| *t == Tok::Lit("\"developer\"".into()))
}

fn parse_file(path: &Path, p: &mut Parsed) {
    let file = path.file_name().unwrap().to_string_lossy().to_string();
    let src = std::fs::read_to_string(path).unwrap_or_else(|e| fail(&format!("cannot read {:?}: {}", path, e)));
    let t = tokenize(&src, &file);
    let mut i = 0;
    let mut attrs: Vec<Vec<Tok>> = vec![];
    while i < t.len() {
        match &t[i] {
            Tok::Punct('#') => {
                let (a, next) = parse_attr(&t, i);
                if let Some(a) = a {
                    attrs.push(a);
                }
                i = next;
            }
            Tok::Ident(k) if k == "pub" => {
                i += 1;
                if t.get(i) == Some(&Tok::Punct('(')) {
                    i = skip_balanced(&t, i, '(', ')');
                }
            }
            Tok::Ident(k) if k == "mod" => {
                // `#[cfg(test)] mod tests { .. }` and friends: not part of the protocol
                i += 1;
                while i < t.len() && t[i] != Tok::Punct('{') && t[i] != Tok::Punct(';') {
                    i += 1;
                }
                if t.get(i) == Some(&Tok::Punct('{')) {
                    i = skip_balanced(&t, i, '{', '}');
                } else {
                    i += 1;
                }
                attrs.clear();
            }
            Tok::Ident(k) if k == "macro_rules" => {
                i += 1;
                while i < t.len() && t[i] != Tok::Punct('{') && t[i] != Tok::Punct('(') {
                    i += 1;
                }
                i = match t.get(i) {
                    Some(Tok::Punct('{')) => skip_balanced(&t, i, '{', '}'),
                    Some(Tok::Punct('(')) => skip_balanced(&t, i, '(', ')'),
                    _ => i,
                };
                attrs.clear();
            }
            Tok::Ident(k) if k == "struct" => {
                i += 1;
                let name = match t.get(i) {
                    Some(Tok::Ident(n)) => n.clone(),
                    _ => {
                        attrs.clear();
                        continue;
                    }
                };
                i += 1;
                let mut generic = false;
                if t.get(i) == Some(&Tok::Punct('<')) {
                    generic = true;
                    i = skip_balanced(&t, i, '<', '>');
                }
                let mut s = Struct {
                    name: name.clone(),
                    file: file.clone(),
                    message_id: None,
                    developer: false,
                    derives: vec![],
                    fields: None,
                    all_pub: true,
                };
                for a in attrs.drain(..) {
                    if attr_is(&a, "message_id") {
                        s.message_id = attr_int(&a);
                    } else if attr_developer(&a) {
                        s.developer = true;
                    } else if attr_is(&a, "derive") {
                        for tk in a.iter().skip(1) {
                            if let Tok::Ident(d) = tk {
                                s.derives.push(d.clone());
                            }
                        }
                    }
                }
                // skip a where clause
                while i < t.len()
                    && t[i] != Tok::Punct('{')
                    && t[i] != Tok::Punct('(')
                    && t[i] != Tok::Punct(';')
                {
                    generic = true;
                    i += 1;
                }
                match t.get(i) {
                    Some(Tok::Punct('{')) => {
                        let end = skip_balanced(&t, i, '{', '}');
                        if !generic {
                            let body = &t[i + 1..end - 1];
                            let mut fields = vec![];
                            let mut j = 0;
                            while j < body.len() {
                                let mut tag = None;
                                while body.get(j) == Some(&Tok::Punct('#')) {
                                    let (a, next) = parse_attr(body, j);
                                    if let Some(a) = a {
                                        if attr_is(&a, "tlv_tag") {
                                            tag = attr_int(&a);
                                        }
                                    }
                                    j = next;
                                }
                                if j >= body.len() {
                                    break;
                                }
                                let mut is_pub = false;
                                if body.get(j) == Some(&Tok::Ident("pub".into())) {
                                    is_pub = true;
                                    j += 1;
                                    if body.get(j) == Some(&Tok::Punct('(')) {
                                        is_pub = false;
                                        j = skip_balanced(body, j, '(', ')');
                                    }
                                }
                                let fname = match body.get(j) {
                                    Some(Tok::Ident(n)) => n.clone(),
                                    other => fail(&format!("{}: struct {}: expected a field name, found {:?}", file, name, other)),
                                };
                                j += 1;
                                if body.get(j) != Some(&Tok::Punct(':')) {
                                    fail(&format!("{}: struct {}: expected ':' after field {}", file, name, fname));
                                }
                                j += 1;
                                let ty = parse_type(body, &mut j, &format!("{}: struct {} field {}", file, name, fname));
                                match body.get(j) {
                                    Some(Tok::Punct(',')) => j += 1,
                                    None => {}
                                    other => fail(&format!(
                                        "{}: struct {} field {}: unexpected token {:?} after the type",
                                        file, name, fname, other
                                    )),
                                }
                                if !is_pub {
                                    s.all_pub = false;
                                }
                                fields.push(Field { name: fname, ty, tlv_tag: tag });
                            }
                            s.fields = Some(fields);
                        }
                        i = end;
                    }
                    Some(Tok::Punct('(')) => {
                        i = skip_balanced(&t, i, '(', ')');
                    }
                    _ => {}
                }
                p.structs.insert(name, s);
            }
            Tok::Ident(k) if k == "enum" => {
                i += 1;
                let name = match t.get(i) {
                    Some(Tok::Ident(n)) => n.clone(),
                    _ => String::new(),
                };
                while i < t.len() && t[i] != Tok::Punct('{') {
                    i += 1;
                }
                let end = skip_balanced(&t, i, '{', '}');
                if name == "Message" && file == "msgs.rs" {
                    let body = &t[i + 1..end - 1];
                    let mut j = 0;
                    while j < body.len() {
                        let mut dev = false;
                        while body.get(j) == Some(&Tok::Punct('#')) {
                            let (a, next) = parse_attr(body, j);
                            if let Some(a) = a {
                                if attr_developer(&a) {
                                    dev = true;
                                } else if attr_is(&a, "cfg") {
                                    fail(&format!("enum Message: unsupported cfg attribute on a variant: {:?}", a));
                                }
                            }
                            j = next;
                        }
                        if j >= body.len() {
                            break;
                        }
                        let vname = match body.get(j) {
                            Some(Tok::Ident(n)) => n.clone(),
                            other => fail(&format!("enum Message: expected a variant name, found {:?}", other)),
                        };
                        j += 1;
                        if body.get(j) != Some(&Tok::Punct('(')) {
                            fail(&format!("enum Message: variant {} is not a single-field tuple variant", vname));
                        }
                        j += 1;
                        let ty = parse_type(body, &mut j, &format!("enum Message variant {}", vname));
                        if body.get(j) != Some(&Tok::Punct(')')) {
                            fail(&format!("enum Message: variant {} must have exactly one field", vname));
                        }
                        j += 1;
                        if body.get(j) == Some(&Tok::Punct(',')) {
                            j += 1;
                        }
                        p.variants.push((vname, ty, dev));
                    }
                }
                i = end;
                attrs.clear();
            }
            Tok::Ident(k)
                if t.get(i + 1) == Some(&Tok::Punct('!')) && t.get(i + 2) == Some(&Tok::Punct('(')) =>
            {
                let end = skip_balanced(&t, i + 2, '(', ')');
                if k == "array_impl" || k == "secret_array_impl" {
                    let args = &t[i + 3..end - 1];
                    match (args.first(), args.get(2)) {
                        (Some(Tok::Ident(n)), Some(Tok::Lit(l))) => {
                            let len = l.parse::<usize>().unwrap_or_else(|_| fail(&format!("{}!: bad length {}", k, l)));
                            p.fixed.insert(n.clone(), len);
                        }
                        _ => fail(&format!("{}: cannot parse {}!(..) invocation", file, k)),
                    }
                }
                i = end;
                attrs.clear();
            }
            Tok::Punct('{') => {
                i = skip_balanced(&t, i, '{', '}');
                attrs.clear();
            }
            _ => {
                i += 1;
                attrs.clear();
            }
        }
    }
}

// ---------------------------------------------------------------------------------------------
// emission

struct Gen<'a> {
    p: &'a Parsed,
    leaves: BTreeMap<&'static str, usize>,
    needed: BTreeSet<String>,
    queue: Vec<String>,
}

impl<'a> Gen<'a> {
    fn need(&mut self, s: &str) {
        if self.needed.insert(s.to_string()) {
            self.queue.push(s.to_string());
        }
    }

    fn min_size(&self, ty: &Ty, ctx: &str, depth: usize) -> usize {
        if depth > 20 {
            fail(&format!("{}: recursive type {}", ctx, ty.show()));
        }
        match (ty.name.as_str(), ty.args.len()) {
            ("Option", 1) => 1,
            ("Array", 1) | ("ArrayBE", 1) => 2,
            ("WithSize", 1) => 4 + self.min_size(&ty.args[0], ctx, depth + 1),
            (n, 0) => {
                if let Some(sz) = self.leaves.get(n) {
                    *sz
                } else if let Some(len) = self.p.fixed.get(n) {
                    *len
                } else if let Some(s) = self.p.structs.get(n) {
                    match &s.fields {
                        Some(fs) if s.derives.iter().any(|d| d == "SerBoltTlvOptions") => {
                            let _ = fs;
                            0
                        }
                        Some(fs) => fs.iter().map(|f| self.min_size(&f.ty, ctx, depth + 1)).sum(),
                        None => self.unknown(ty, ctx),
                    }
                } else {
                    self.unknown(ty, ctx)
                }
            }
            _ => self.unknown(ty, ctx),
        }
    }

    fn unknown(&self, ty: &Ty, ctx: &str) -> ! {
        fail(&format!(
            "{}: field type `{}` is not in the C19 leaf table (LEAVES in /verif/harness/build.rs and \
             leaf_strat_*/leaf_build_* in src/props/c19.rs), is not a fixed array declared with array_impl!, \
             and is not a struct with named public fields in msgs.rs/model.rs. Add a generator for it before \
             the check can run.",
            ctx,
            ty.show()
        ))
    }

    fn strat_expr(&mut self, ty: &Ty, ctx: &str) -> String {
        match (ty.name.as_str(), ty.args.len()) {
            ("Option", 1) => format!("opt({})", self.strat_expr(&ty.args[0], ctx)),
            ("Array", 1) | ("ArrayBE", 1) => {
                let min = self.min_size(&ty.args[0], ctx, 0);
                if ty.name == "ArrayBE" && !["u8", "u16", "u32", "u64"].contains(&ty.args[0].name.as_str()) {
                    self.unknown(ty, ctx);
                }
                let inner = self.strat_expr(&ty.args[0], ctx);
                format!("arr(&|p: &P| {}, {}, p)", inner, min)
            }
            ("WithSize", 1) => {
                let a = &ty.args[0];
                if !["Transaction", "PsbtWrapper", "StreamedPSBT"].contains(&a.name.as_str()) || !a.args.is_empty() {
                    self.unknown(ty, ctx);
                }
                self.strat_expr(a, ctx)
            }
            (n, 0) => {
                if self.leaves.contains_key(n) {
                    format!("leaf_strat_{}(p)", n)
                } else if let Some(len) = self.p.fixed.get(n) {
                    format!("fixed_bytes({}, p)", len)
                } else if self.p.structs.contains_key(n) {
                    self.check_struct(n, ctx);
                    self.need(n);
                    format!("strat_{}(p)", n)
                } else {
                    self.unknown(ty, ctx)
                }
            }
            _ => self.unknown(ty, ctx),
        }
    }

    fn check_struct(&self, n: &str, ctx: &str) {
        let s = &self.p.structs[n];
        if s.fields.is_none() || !s.all_pub {
            fail(&format!(
                "{}: struct `{}` ({}) is not a plain struct with named public fields and has no entry in the C19 leaf table",
                ctx, n, s.file
            ));
        }
        let tlv = s.derives.iter().any(|d| d == "SerBoltTlvOptions");
        // a struct with named public fields and a hand-written codec is generated like any other:
        // the field strategies and the struct literal do not depend on how it is encoded
        if tlv {
            for f in s.fields.as_ref().unwrap() {
                if f.tlv_tag.is_none() || f.ty.name != "Option" {
                    fail(&format!("TLV option struct {}: field {} must be an Option with a #[tlv_tag]", n, f.name));
                }
            }
        }
    }

    fn build_expr(&self, ty: &Ty, v: &str) -> String {
        match (ty.name.as_str(), ty.args.len()) {
            ("Option", 1) => format!("as_opt({}).map(|x| {})", v, self.build_expr(&ty.args[0], "x")),
            ("Array", 1) => {
                format!("Array(as_list({}).iter().map(|x| {}).collect())", v, self.build_expr(&ty.args[0], "x"))
            }
            ("ArrayBE", 1) => {
                format!("ArrayBE(as_list({}).iter().map(|x| {}).collect())", v, self.build_expr(&ty.args[0], "x"))
            }
            ("WithSize", 1) => format!("WithSize({})", self.build_expr(&ty.args[0], v)),
            (n, 0) => {
                if self.leaves.contains_key(n) {
                    format!("leaf_build_{}({})", n, v)
                } else if let Some(len) = self.p.fixed.get(n) {
                    format!("{}(as_fixed::<{}>({}))", n, len, v)
                } else {
                    format!("build_{}({})", n, v)
                }
            }
            _ => unreachable!(),
        }
    }
}

fn main() {
    let dir = PathBuf::from(PROTO_SRC);
    let msgs = dir.join("msgs.rs");
    let model = dir.join("model.rs");
    println!("cargo:rerun-if-changed={}", msgs.display());
    println!("cargo:rerun-if-changed={}", model.display());
    println!("cargo:rerun-if-changed={}", dir.join("psbt.rs").display());
    println!("cargo:rerun-if-changed=build.rs");

    let mut p = Parsed::default();
    parse_file(&model, &mut p);
    parse_file(&msgs, &mut p);
    if p.variants.len() < 10 {
        fail(&format!("only {} variants found in `enum Message` of {:?}: parser out of date", p.variants.len(), msgs));
    }

    let mut g = Gen { p: &p, leaves: LEAVES.iter().cloned().collect(), needed: BTreeSet::new(), queue: vec![] };
    let mut out = String::new();
    writeln!(out, "// @generated by /verif/harness/build.rs from {} — do not edit", dir.display()).unwrap();

    // registry
    struct Entry {
        variant: String,
        sname: String,
        id: u64,
        developer: bool,
        streamed_field: Option<usize>,
    }
    let mut entries: Vec<Entry> = vec![];
    for (vname, ty, dev) in p.variants.iter() {
        if vname == "Unknown" {
            // not a wire message: the catch-all for unregistered type numbers, it has no encoder
            continue;
        }
        let ctx = format!("message {}", vname);
        if !ty.args.is_empty() {
            fail(&format!("{}: payload type {} is generic", ctx, ty.show()));
        }
        let s = p.structs.get(&ty.name).unwrap_or_else(|| fail(&format!("{}: struct {} not found in msgs.rs/model.rs", ctx, ty.name)));
        let id = s.message_id.unwrap_or_else(|| fail(&format!("{}: struct {} has no #[message_id(N)]", ctx, ty.name)));
        if !s.derives.iter().any(|d| d == "SerBolt") {
            fail(&format!("{}: struct {} does not derive SerBolt", ctx, ty.name));
        }
        g.check_struct(&ty.name, &ctx);
        g.need(&ty.name);
        let mut streamed_field = None;
        for (fi, f) in s.fields.as_ref().unwrap().iter().enumerate() {
            fn mentions(t: &Ty, n: &str) -> bool {
                t.name == n || t.args.iter().any(|a| mentions(a, n))
            }
            if mentions(&f.ty, "StreamedPSBT") {
                let direct = f.ty.name == "WithSize" && f.ty.args.len() == 1 && f.ty.args[0].name == "StreamedPSBT";
                if !direct || streamed_field.is_some() {
                    fail(&format!("{}: StreamedPSBT is only supported as a single top-level WithSize<StreamedPSBT> field", ctx));
                }
                streamed_field = Some(fi);
            }
        }
        entries.push(Entry { variant: vname.clone(), sname: ty.name.clone(), id, developer: s.developer || *dev, streamed_field });
    }

    // structure of the dispatch enum: a variant must carry the struct of its own name (the
    // ReadMessage derive dispatches on the variant's payload type), and every message struct
    // should be reachable through a variant
    let mut variant_mismatch: Vec<(String, String)> = vec![];
    for (vname, ty, _) in p.variants.iter() {
        if vname != "Unknown" && *vname != ty.name {
            variant_mismatch.push((vname.clone(), ty.name.clone()));
        }
    }
    let mut orphans: Vec<(String, u64)> = vec![];
    for (name, st) in p.structs.iter() {
        if let Some(id) = st.message_id {
            if !p.variants.iter().any(|(_, ty, _)| ty.name == *name) {
                orphans.push((name.clone(), id));
            }
        }
    }
    orphans.sort();
    let mut structure = String::new();
    structure.push_str("pub const VARIANT_MISMATCH: &[(&str, &str)] = &[");
    for (v, t) in variant_mismatch.iter() {
        structure.push_str(&format!("(\"{}\", \"{}\"), ", v, t));
    }
    structure.push_str("];\npub const STRUCTS_WITHOUT_VARIANT: &[(&str, u64)] = &[");
    for (n, id) in orphans.iter() {
        structure.push_str(&format!("(\"{}\", {}), ", n, id));
    }
    structure.push_str("];\n");

    // struct generators (closure over everything reachable)
    let mut body = String::new();
    while let Some(n) = g.queue.pop() {
        let s = p.structs[&n].clone();
        let fields = s.fields.as_ref().unwrap();
        let ctx = format!("struct {} ({})", n, s.file);
        if entries.iter().all(|e| e.sname != n) {
            // nested structs may not contain a streamed PSBT
            for f in fields {
                if f.ty.show().contains("StreamedPSBT") {
                    fail(&format!("{}: StreamedPSBT nested below the top level of a message", ctx));
                }
            }
        }
        writeln!(body, "#[allow(non_snake_case)]\npub fn strat_{}(p: &P) -> BoxedStrategy<V> {{", n).unwrap();
        writeln!(body, "    let _ = p;\n    let fields: Vec<BoxedStrategy<V>> = vec![").unwrap();
        for f in fields {
            let e = g.strat_expr(&f.ty, &format!("{} field `{}`", ctx, f.name));
            writeln!(body, "        {}, // {}: {}", e, f.name, f.ty.show()).unwrap();
        }
        writeln!(body, "    ];\n    rec(fields)\n}}").unwrap();
        writeln!(body, "#[allow(non_snake_case)]\npub fn build_{}(v: &V) -> {} {{", n, n).unwrap();
        writeln!(body, "    let f = as_rec(v, {}, \"{}\");\n    let _ = f;\n    {} {{", fields.len(), n, n).unwrap();
        for (i, f) in fields.iter().enumerate() {
            writeln!(body, "        {}: {},", f.name, g.build_expr(&f.ty, &format!("&f[{}]", i))).unwrap();
        }
        writeln!(body, "    }}\n}}").unwrap();
    }

    writeln!(out, "pub struct RegEntry {{ pub name: &'static str, pub id: u16, pub developer: bool, pub streamed_field: Option<usize>, pub has_variable: bool }}").unwrap();
    writeln!(out, "pub const REGISTRY: &[RegEntry] = &[").unwrap();
    for e in entries.iter() {
        // does the message have any variable-length / optional part at all?
        fn variable(p: &Parsed, t: &Ty) -> bool {
            match t.name.as_str() {
                "Option" | "Array" | "ArrayBE" | "WithSize" | "Octets" | "LargeOctets" | "WireString" => true,
                n => match p.structs.get(n).and_then(|s| s.fields.as_ref()) {
                    Some(fs) => fs.iter().any(|f| variable(p, &f.ty)),
                    None => false,
                },
            }
        }
        let hv = variable(&p, &Ty { name: e.sname.clone(), args: vec![] });
        writeln!(
            out,
            "    RegEntry {{ name: \"{}\", id: {}, developer: {}, streamed_field: {:?}, has_variable: {} }},",
            e.sname, e.id, e.developer, e.streamed_field, hv
        )
        .unwrap();
    }
    writeln!(out, "];").unwrap();
    out.push_str(&structure);
    out.push_str(&body);

    writeln!(out, "pub fn strat_message(idx: usize, p: &P) -> BoxedStrategy<V> {{\n    match idx {{").unwrap();
    for (i, e) in entries.iter().enumerate() {
        writeln!(out, "        {} => strat_{}(p),", i, e.sname).unwrap();
    }
    writeln!(out, "        _ => panic!(\"bad registry index\"),\n    }}\n}}").unwrap();

    writeln!(out, "pub fn build_message(idx: usize, v: &V) -> Message {{\n    match idx {{").unwrap();
    for (i, e) in entries.iter().enumerate() {
        writeln!(out, "        {} => Message::{}(build_{}(v)),", i, e.variant, e.sname).unwrap();
    }
    writeln!(out, "        _ => panic!(\"bad registry index\"),\n    }}\n}}").unwrap();

    writeln!(out, "/// decode through the typed entry point `<T as DeBolt>::from_vec` and encode again").unwrap();
    writeln!(out, "pub fn typed_roundtrip(idx: usize, bytes: Vec<u8>) -> Result<(Vec<u8>, String), String> {{\n    match idx {{").unwrap();
    for (i, e) in entries.iter().enumerate() {
        writeln!(
            out,
            "        {} => <{} as DeBolt>::from_vec(bytes).map(|m| (m.as_vec(), format!(\"{{:?}}\", m))).map_err(|e| format!(\"{{:?}}\", e)),",
            i, e.sname
        )
        .unwrap();
    }
    writeln!(out, "        _ => panic!(\"bad registry index\"),\n    }}\n}}").unwrap();

    writeln!(out, "/// decode through the typed entry point and send through the typed framed writer `msgs::write`").unwrap();
    writeln!(out, "pub fn typed_write(idx: usize, bytes: Vec<u8>) -> Result<Vec<u8>, String> {{\n    match idx {{").unwrap();
    for (i, e) in entries.iter().enumerate() {
        writeln!(
            out,
            "        {} => <{} as DeBolt>::from_vec(bytes).map_err(|e| format!(\"{{:?}}\", e)).and_then(|m| {{ let mut w: Vec<u8> = Vec::new(); vls_protocol::msgs::write(&mut w, m).map_err(|e| format!(\"{{:?}}\", e))?; Ok(w) }}),",
            i, e.sname
        )
        .unwrap();
    }
    writeln!(out, "        _ => panic!(\"bad registry index\"),\n    }}\n}}").unwrap();
    writeln!(out, "/// take a frame off a link through the typed framed reader `msgs::read_message::<T>` and encode again").unwrap();
    writeln!(out, "pub fn typed_read(idx: usize, frame: &[u8]) -> Result<Vec<u8>, String> {{\n    let mut cur = std::io::Cursor::new(frame.to_vec());\n    match idx {{").unwrap();
    for (i, e) in entries.iter().enumerate() {
        writeln!(
            out,
            "        {} => vls_protocol::msgs::read_message::<_, {}>(&mut cur).map(|m| m.as_vec()).map_err(|e| format!(\"{{:?}}\", e)),",
            i, e.sname
        )
        .unwrap();
    }
    writeln!(out, "        _ => panic!(\"bad registry index\"),\n    }}\n}}").unwrap();

    writeln!(out, "/// the streamed PSBT of a decoded request, if the message carries one").unwrap();
    writeln!(out, "pub fn streamed_ref(m: &Message) -> Option<&StreamedPSBT> {{\n    match m {{").unwrap();
    for e in entries.iter() {
        if let Some(fi) = e.streamed_field {
            let fname = &p.structs[&e.sname].fields.as_ref().unwrap()[fi].name;
            writeln!(out, "        Message::{}(m) => Some(&m.{}.0),", e.variant, fname).unwrap();
        }
    }
    writeln!(out, "        _ => None,\n    }}\n}}").unwrap();

    let out_dir = PathBuf::from(std::env::var("OUT_DIR").expect("OUT_DIR"));
    std::fs::write(out_dir.join("c19_gen.rs"), out).expect("write c19_gen.rs");
}
