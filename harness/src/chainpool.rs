//! chainpool — on-chain transaction pool, block building and chain delivery helpers (C14, C15).
//!
//! # API
//!
//! World / channel preparation (real requests only):
//! * [`regtest_cfg`] — a `WorldCfg` on regtest (the node's `ChainTracker` then starts at the regtest
//!   genesis, for which valid headers can be mined and TXOO proofs can be built locally).
//! * [`open_funded`] — `new_channel` + a *real funding transaction* (wallet inputs, funding output at
//!   a chosen index, change) + `setup_channel` with the outpoint of that transaction + initial holder
//!   commitment (validate, activate) + `check_onchain_tx`/`unchecked_sign_onchain_tx` of the funding
//!   transaction for outbound channels (this is what registers the funding inputs with the monitor
//!   and the tracker) + initial counterparty commitment.  Returns [`Funded`].
//! * [`mk_content`] / [`advance`] — one full commitment round (sign counterparty n, validate holder n,
//!   revoke holder n-1, validate counterparty revocation n-1) with a given [`Content`].
//! * [`fulfill_received`] — tell the signer the preimages of received HTLCs.
//!
//! Transaction pool:
//! * [`ChanTxs::build`] — reference transactions of one channel: funding, wallet inputs, holder /
//!   counterparty / revoked-counterparty commitment ([`CommitRef`], outputs classified by script
//!   into ours / theirs / HTLC / anchor with the reference BOLT-3 builders of `world.rs`).
//! * [`TxSel`] — serialisable selector of one pool transaction (funding, double-spend, mutual
//!   close, commitments, sweeps, batched first-level HTLC spends, second-level spends, noise).
//! * [`ChainSim`] — the simulated best chain.  `resolve(sel, chans, pending)` turns a selector into
//!   a concrete transaction that is *valid on the current chain plus the pending block* (parent
//!   present, inputs unspent) or `None`; `push`/`pop` connect and disconnect blocks.  Every resolved
//!   transaction carries a kind label ([`PoolTx::kind`]) and a monitor-relevance category
//!   ([`category`]: funding / dspend / mutual / close / sweep / htlc / second).
//!   `build_block(sels, chans, salt)` resolves a list of selectors in order into the next block.
//! * [`block_categories`], [`closure`], [`abort_candidates`] — abstraction of a block for
//!   statistics and for naming the smallest sub-block that reproduces an abort.
//!
//! Blocks, proofs, delivery:
//! * [`make_block`] — block with a unique coinbase on top of a header, mined at regtest difficulty.
//! * [`make_proof`] — TXOO proof for (block, watches) signed by the dummy oracle, exactly as the
//!   chain follower builds it: compact (`Filter` + SPV proof of the matched transactions) or
//!   `ExternalBlock` (streamed) when requested or when the filter has a false positive.
//! * [`tracker_add`] / [`tracker_remove`] — deliver a block to `node.get_tracker()` through
//!   `block_chunk` + `add_block` / `remove_block`, with forward / reverse watches read from the
//!   tracker itself; panics are caught and returned as [`Deliver::Panic`].
//! * [`wire_add`] / [`wire_remove`] — deliver a block the way the chain follower of a deployment
//!   does (vls-frontend `ChainFollower::update` + vls-proxy `NodePortFront`), with protocol messages
//!   to a `RootHandler` only: `TipInfo`, `ForwardWatches` / `ReverseWatches`, a proof for exactly the
//!   watches of the reply, `BlockChunk`s for an `ExternalBlock` proof, `AddBlock` / `RemoveBlock`.
//!   Every request and every reply crosses the wire encoding.  [`WireLog`] records (message, result).
//! * [`DirectListeners`] — level-A driver: clones the production `ChainMonitor`s (with their
//!   production commitment-point providers) out of the tracker and performs the same listener calls
//!   and `ListenSlot` bookkeeping as `ChainTracker::notify_listeners_add/remove`, compact or
//!   streamed (through a `push_decoder::BlockDecoder`).
//! * [`monitor_view`] / [`view_diff`] — the comparable view of one channel (getters, monitor `State`
//!   through serde, `ListenSlot`) as ordered (field, value) pairs, and the first differing field.
//!
//! Typical use (see `props/c14.rs`): `World::new(regtest_cfg())`, `open_funded`, `advance`…,
//! `ChanTxs::build`, then per block `sim.build_block(..)`, `sim.push(..)`, `tracker_add(..)` (or
//! `DirectListeners::add`), and for a reorg `tracker_remove(.., sim.prev_headers(), ..)` followed by
//! `sim.pop()`.

use crate::world::*;
use lightning_signer::bitcoin;
use lightning_signer::lightning;
use lightning_signer::txoo;

use bitcoin::absolute::LockTime;
use bitcoin::bip32::{ChildNumber, DerivationPath};
use bitcoin::block::{Header as BlockHeader, Version as BlockVersion};
use bitcoin::consensus::serialize;
use bitcoin::hash_types::{FilterHeader, TxMerkleNode};
use bitcoin::hashes::sha256::Hash as Sha256;
use bitcoin::hashes::Hash;
use bitcoin::key::Keypair;
use bitcoin::secp256k1::{PublicKey, Secp256k1, SecretKey};
use bitcoin::transaction::Version;
use bitcoin::{merkle_tree, Amount, Block, BlockHash, CompactTarget, Network, OutPoint, ScriptBuf, Sequence, Transaction, TxIn, TxOut, Txid, Witness};
use lightning::sign::ChannelSigner;
use lightning::ln::chan_utils::{get_revokeable_redeemscript, get_to_countersignatory_with_anchors_redeemscript, CommitmentTransaction};
use lightning_signer::chain::tracker::{ChainListener, Error as TrackerError, Headers, ListenSlot};
use lightning_signer::monitor::ChainMonitor;
use lightning_signer::node::Node;
use lightning_signer::policy::simple_validator::make_default_simple_policy;
use lightning_signer::signer::derive::KeyDerivationStyle;
use lightning_signer::wallet::Wallet;
use serde::{Deserialize, Serialize};
use serde_json::{json, Value};
use std::collections::BTreeSet;
use std::panic::{catch_unwind, AssertUnwindSafe};
use lightning_signer::prelude::Arc;
use txoo::filter::BlockSpendFilter;
use txoo::proof::{ProofType, TxoProof};
use txoo::spv::SpvProof;
use txoo::util::sign_attestation;
use txoo::Attestation;
use vls_protocol::msgs::{self, Message};
use vls_protocol::serde_bolt::{LargeOctets, Octets};
use vls_protocol_signer::handler::{Handler, RootHandler};

// ---------------------------------------------------------------------------------------------
// world / channel preparation

pub fn regtest_cfg() -> WorldCfg {
    WorldCfg {
        seed: [0x42; 32],
        network: Network::Regtest,
        style: KeyDerivationStyle::Native,
        policy: make_default_simple_policy(Network::Regtest),
        now_secs: 1_700_000_000,
        trusted_oracles: vec![],
        no_checkpoints: false,
    }
}

#[derive(Clone, Debug, Serialize, Deserialize, PartialEq, Eq, Hash)]
pub struct FundSpec {
    /// 1 or 2 wallet inputs
    pub two_inputs: bool,
    /// funding output first (vout 0) or after the change output (vout 1)
    pub funding_first: bool,
}

pub struct Funded {
    pub ci: usize,
    pub funding_tx: Transaction,
    pub wallet_inputs: Vec<OutPoint>,
    /// content of the initial commitments (number 0)
    pub content0: Content,
}

fn h32(tag: &str, a: u64, b: u64) -> [u8; 32] {
    Sha256::hash(format!("vverif/chainpool/{}/{}/{}", tag, a, b).as_bytes()).to_byte_array()
}

/// An outpoint that exists "before the history" (wallet coin, fee input, noise input).
pub fn ext_outpoint(tag: &str, a: u64, b: u64) -> OutPoint {
    OutPoint { txid: Txid::from_byte_array(h32(tag, a, b)), vout: 0 }
}

fn txin(op: OutPoint, seq: Sequence) -> TxIn {
    TxIn { previous_output: op, script_sig: ScriptBuf::new(), sequence: seq, witness: Witness::new() }
}

fn script_tag(tag: &str, a: u64, b: u64) -> ScriptBuf {
    // an arbitrary p2wsh-shaped script
    let h = h32(tag, a, b);
    let mut v = vec![0x00u8, 0x20];
    v.extend_from_slice(&h);
    ScriptBuf::from_bytes(v)
}

/// Commitment content with the fee paid by the funder and `other_sat` on the non-funder's side.
pub fn mk_content(anchors: bool, outbound: bool, value_sat: u64, feerate: u32, other_sat: u64, offered: Vec<Htlc>, received: Vec<Htlc>) -> Content {
    let n = offered.len() + received.len();
    let weight = if anchors { 1124 } else { 724 } + 172 * n as u64;
    let mut fee = feerate as u64 * weight / 1000;
    if anchors {
        fee += 660;
    }
    let hs: u64 = offered.iter().chain(received.iter()).map(|h| h.sat).sum();
    let funder = value_sat.saturating_sub(other_sat + hs + fee);
    if outbound {
        Content { feerate, to_holder: funder, to_cp: other_sat, offered, received }
    } else {
        Content { feerate, to_holder: other_sat, to_cp: funder, offered, received }
    }
}

/// Open a channel funded by a real transaction.  Panics (harness error) if a preparation request
/// is refused: the preparation only uses requests a node issues when opening a channel.
pub fn open_funded(w: &mut World, spec: &ChanSpec, fs: &FundSpec) -> Funded {
    open_funded_perm(w, spec, fs, false)
}

/// As `open_funded`; with `perm` the channel is set up with a permanent id different from its
/// initial one (LDK-style flow) and is addressed by it afterwards.
pub fn open_funded_perm(w: &mut World, spec: &ChanSpec, fs: &FundSpec, perm: bool) -> Funded {
    let ci = match w.new_stub(spec) {
        Out::Ok(i) => i,
        o => panic!("new_stub failed: {}", o.err_msg()),
    };
    if perm {
        let mut v = b"chainpool/permanent/".to_vec();
        v.extend_from_slice(&spec.dbid.to_le_bytes());
        v.push(spec.peer);
        w.chans[ci].perm_id = Some(lightning_signer::channel::ChannelId::new(&v));
    }
    let n_in = if fs.two_inputs { 2 } else { 1 };
    let fee = 1_000u64;
    let change = 50_000u64;
    let total_in = spec.value_sat + change + fee;
    let mut ipaths: Vec<DerivationPath> = vec![];
    let mut prev_outs: Vec<TxOut> = vec![];
    let mut inputs: Vec<TxIn> = vec![];
    let mut wallet_inputs = vec![];
    for i in 0..n_in {
        let path: DerivationPath = vec![ChildNumber::from_normal_idx(10 + i as u32).unwrap()].into();
        let spk = w.node.get_native_address(&path).expect("address").script_pubkey();
        let val = if n_in == 1 { total_in } else if i == 0 { total_in / 2 } else { total_in - total_in / 2 };
        let op = ext_outpoint("wallet", spec.dbid, i as u64);
        wallet_inputs.push(op);
        inputs.push(txin(op, Sequence::MAX));
        prev_outs.push(TxOut { value: Amount::from_sat(val), script_pubkey: spk });
        ipaths.push(path);
    }
    let change_path: DerivationPath = vec![ChildNumber::from_normal_idx(20).unwrap()].into();
    let change_spk = w.node.get_native_address(&change_path).expect("address").script_pubkey();
    let funding_spk = w.chans[ci].funding_redeemscript().to_p2wsh();
    let f_out = TxOut { value: Amount::from_sat(spec.value_sat), script_pubkey: funding_spk };
    let c_out = TxOut { value: Amount::from_sat(change), script_pubkey: change_spk };
    let (outputs, vout, opaths) = if fs.funding_first {
        (vec![f_out, c_out], 0u32, vec![DerivationPath::master(), change_path.clone()])
    } else {
        (vec![c_out, f_out], 1u32, vec![change_path.clone(), DerivationPath::master()])
    };
    let funding_tx = Transaction { version: Version::TWO, lock_time: LockTime::ZERO, input: inputs, output: outputs };
    w.chans[ci].setup.funding_outpoint = OutPoint { txid: funding_tx.compute_txid(), vout };
    match w.setup_chan(ci) {
        Out::Ok(()) => {}
        o => panic!("setup_chan failed: {}", o.err_msg()),
    }
    // the funding key must not have changed at setup (the funding script was built from the stub)
    let fk = w.with_chan(ci, |c| Ok(c.keys.pubkeys().funding_pubkey)).ok().expect("chan");
    assert_eq!(fk, w.chans[ci].holder_pubkeys.funding_pubkey, "funding key changed at setup");

    // initial commitments
    let c0 = mk_content(spec.anchors, spec.outbound, spec.value_sat, 1000, 0, vec![], vec![]);
    let signed = w.chans[ci].cp_sign_holder(&w.secp, 0, &c0, SigKind::Valid);
    must(w.with_chan(ci, |ch| ch.validate_holder_commitment_tx_phase2(0, c0.feerate, c0.to_holder, c0.to_cp, vec![], vec![], &signed.commit_sig, &signed.htlc_sigs)), "validate holder 0");
    must(w.with_chan(ci, |ch| ch.activate_initial_commitment().map(|_| ())), "activate");
    if spec.outbound {
        let node = w.node.clone();
        let tx = funding_tx.clone();
        let flags = vec![true; n_in];
        let ucks = vec![None; n_in];
        let r = call(|| {
            node.check_onchain_tx(&tx, &flags, &prev_outs, &ucks, &opaths).map_err(|e| lightning_signer::util::status::Status::from(e))?;
            node.unchecked_sign_onchain_tx(&tx, &ipaths, &prev_outs, ucks.clone()).map(|_| ())
        });
        must(r, "sign funding tx");
    }
    let point0 = w.chans[ci].cp.point(&w.secp, 0);
    must(
        w.with_chan(ci, |ch| ch.sign_counterparty_commitment_tx_phase2(&point0, 0, c0.feerate, c0.to_holder, c0.to_cp, vec![], vec![]).map(|_| ())),
        "sign counterparty 0",
    );
    Funded { ci, funding_tx, wallet_inputs, content0: c0 }
}

/// Batch open: ONE transaction (wallet inputs, one funding output per channel in the order of
/// `specs`, then the change output) funds all the channels, which are outbound; it is checked and
/// signed once, as a node does when it opens several channels at a time.
pub fn open_funded_batch(w: &mut World, specs: &[ChanSpec], fs: &FundSpec) -> Vec<Funded> {
    assert!(specs.iter().all(|s| s.outbound), "batch funding: outbound channels only");
    let cis: Vec<usize> = specs
        .iter()
        .map(|spec| match w.new_stub(spec) {
            Out::Ok(i) => i,
            o => panic!("new_stub failed: {}", o.err_msg()),
        })
        .collect();
    let n_in = if fs.two_inputs { 2 } else { 1 };
    let fee = 1_000u64;
    let change = 50_000u64;
    let total_in = specs.iter().map(|s| s.value_sat).sum::<u64>() + change + fee;
    let mut ipaths: Vec<DerivationPath> = vec![];
    let mut prev_outs: Vec<TxOut> = vec![];
    let mut inputs: Vec<TxIn> = vec![];
    let mut wallet_inputs = vec![];
    for i in 0..n_in {
        let path: DerivationPath = vec![ChildNumber::from_normal_idx(10 + i as u32).unwrap()].into();
        let spk = w.node.get_native_address(&path).expect("address").script_pubkey();
        let val = if n_in == 1 { total_in } else if i == 0 { total_in / 2 } else { total_in - total_in / 2 };
        let op = ext_outpoint("wallet-batch", specs[0].dbid, i as u64);
        wallet_inputs.push(op);
        inputs.push(txin(op, Sequence::MAX));
        prev_outs.push(TxOut { value: Amount::from_sat(val), script_pubkey: spk });
        ipaths.push(path);
    }
    let change_path: DerivationPath = vec![ChildNumber::from_normal_idx(20).unwrap()].into();
    let change_spk = w.node.get_native_address(&change_path).expect("address").script_pubkey();
    let c_out = TxOut { value: Amount::from_sat(change), script_pubkey: change_spk };
    let mut outputs: Vec<TxOut> = vec![];
    let mut opaths: Vec<DerivationPath> = vec![];
    if !fs.funding_first {
        outputs.push(c_out.clone());
        opaths.push(change_path.clone());
    }
    let first_vout = outputs.len() as u32;
    for (spec, ci) in specs.iter().zip(cis.iter()) {
        outputs.push(TxOut { value: Amount::from_sat(spec.value_sat), script_pubkey: w.chans[*ci].funding_redeemscript().to_p2wsh() });
        opaths.push(DerivationPath::master());
    }
    if fs.funding_first {
        outputs.push(c_out);
        opaths.push(change_path.clone());
    }
    let funding_tx = Transaction { version: Version::TWO, lock_time: LockTime::ZERO, input: inputs, output: outputs };
    let txid = funding_tx.compute_txid();
    let mut contents = vec![];
    for (k, (spec, ci)) in specs.iter().zip(cis.iter()).enumerate() {
        let ci = *ci;
        w.chans[ci].setup.funding_outpoint = OutPoint { txid, vout: first_vout + k as u32 };
        match w.setup_chan(ci) {
            Out::Ok(()) => {}
            o => panic!("setup_chan failed: {}", o.err_msg()),
        }
        let c0 = mk_content(spec.anchors, spec.outbound, spec.value_sat, 1000, 0, vec![], vec![]);
        let signed = w.chans[ci].cp_sign_holder(&w.secp, 0, &c0, SigKind::Valid);
        must(w.with_chan(ci, |ch| ch.validate_holder_commitment_tx_phase2(0, c0.feerate, c0.to_holder, c0.to_cp, vec![], vec![], &signed.commit_sig, &signed.htlc_sigs)), "validate holder 0");
        must(w.with_chan(ci, |ch| ch.activate_initial_commitment().map(|_| ())), "activate");
        contents.push(c0);
    }
    {
        let node = w.node.clone();
        let tx = funding_tx.clone();
        let flags = vec![true; n_in];
        let ucks = vec![None; n_in];
        let r = call(|| {
            node.check_onchain_tx(&tx, &flags, &prev_outs, &ucks, &opaths).map_err(|e| lightning_signer::util::status::Status::from(e))?;
            node.unchecked_sign_onchain_tx(&tx, &ipaths, &prev_outs, ucks.clone()).map(|_| ())
        });
        must(r, "sign batch funding tx");
    }
    let mut out = vec![];
    for (ci, c0) in cis.iter().zip(contents.into_iter()) {
        let ci = *ci;
        let point0 = w.chans[ci].cp.point(&w.secp, 0);
        must(
            w.with_chan(ci, |ch| ch.sign_counterparty_commitment_tx_phase2(&point0, 0, c0.feerate, c0.to_holder, c0.to_cp, vec![], vec![]).map(|_| ())),
            "sign counterparty 0",
        );
        out.push(Funded { ci, funding_tx: funding_tx.clone(), wallet_inputs: wallet_inputs.clone(), content0: c0 });
    }
    out
}

/// A ready channel (no commitment validated yet) whose funding transaction is a real one
/// (one wallet input, funding output at index 0) and is confirmed in a block connected to the
/// node's tracker: the state in which an on-chain validator lets commitments advance.
pub fn open_confirmed(w: &mut World, spec: &ChanSpec) -> (usize, Transaction) {
    let ci = match w.new_stub(spec) {
        Out::Ok(i) => i,
        o => panic!("new_stub failed: {}", o.err_msg()),
    };
    let funding_tx = funding_tx_for(w, ci);
    match w.setup_chan(ci) {
        Out::Ok(()) => {}
        o => panic!("setup_chan failed: {}", o.err_msg()),
    }
    confirm_tx(w, &funding_tx, spec.dbid);
    (ci, funding_tx)
}

/// A real funding transaction for the stub channel `ci` (one wallet input, funding output at
/// index 0); the channel's intended setup is pointed at it.  Call before the channel is set up.
pub fn funding_tx_for(w: &mut World, ci: usize) -> Transaction {
    let spec = w.chans[ci].spec.clone();
    let funding_spk = w.chans[ci].funding_redeemscript().to_p2wsh();
    let funding_tx = Transaction {
        version: Version::TWO,
        lock_time: LockTime::ZERO,
        input: vec![txin(ext_outpoint("wallet", spec.dbid, 0), Sequence::MAX)],
        output: vec![TxOut { value: Amount::from_sat(spec.value_sat), script_pubkey: funding_spk }],
    };
    w.chans[ci].setup.funding_outpoint = OutPoint { txid: funding_tx.compute_txid(), vout: 0 };
    funding_tx
}

/// Connect `k` blocks without relevant transactions to the node's tracker.
pub fn connect_empty_blocks(w: &mut World, k: u32, salt: u64) {
    for i in 0..k {
        connect_block_with(w, vec![], salt.wrapping_mul(1000).wrapping_add(i as u64));
    }
}

/// Connect a block holding `tx` to the node's tracker (and persist the tracker).
pub fn confirm_tx(w: &mut World, tx: &Transaction, salt: u64) {
    connect_block_with(w, vec![tx.clone()], salt);
}

fn connect_block_with(w: &mut World, txs: Vec<Transaction>, salt: u64) {
    let tip = w.node.get_tracker().tip().0;
    let height = w.node.get_tracker().height() + 1;
    // regtest difficulty whatever the network: a testnet tracker accepts any difficulty between
    // retarget heights (its 20-minute rule makes the bits of consecutive blocks unrelated)
    let block = make_block_bits(&tip, height, salt, txs, bitcoin::blockdata::constants::genesis_block(Network::Regtest).header.bits);
    let node = w.node.clone();
    let d = w.txn(|| {
        let d = tracker_add(&node, &block, false, 0);
        let t = node.get_tracker();
        node.get_persister().update_tracker(&node.get_id(), &t).expect("persist tracker");
        d
    }).0;
    match d {
        Deliver::Ok => {}
        d => panic!("connecting a block failed: {:?}", d),
    }
}

fn must<T>(o: Out<T>, what: &str) -> T {
    match o {
        Out::Ok(t) => t,
        o => panic!("channel preparation: {} failed: {}", what, o.err_msg()),
    }
}

/// One full commitment round to number `n` (= next holder = next counterparty number).
pub fn advance(w: &mut World, ci: usize, n: u64, c: &Content) -> Result<(), String> {
    let point = w.chans[ci].cp.point(&w.secp, n);
    let (cp_offered, cp_received) = (to_info2(&c.received), to_info2(&c.offered));
    let r = w.with_chan(ci, |ch| ch.sign_counterparty_commitment_tx_phase2(&point, n, c.feerate, c.to_holder, c.to_cp, cp_offered.clone(), cp_received.clone()).map(|_| ()));
    if !r.is_ok() {
        return Err(format!("sign counterparty {}: {}", n, r.err_msg()));
    }
    let signed = w.chans[ci].cp_sign_holder(&w.secp, n, c, SigKind::Valid);
    let (o, r_) = (to_info2(&c.offered), to_info2(&c.received));
    let r = w.with_chan(ci, |ch| ch.validate_holder_commitment_tx_phase2(n, c.feerate, c.to_holder, c.to_cp, o.clone(), r_.clone(), &signed.commit_sig, &signed.htlc_sigs));
    if !r.is_ok() {
        return Err(format!("validate holder {}: {}", n, r.err_msg()));
    }
    let r = w.with_chan(ci, |ch| ch.revoke_previous_holder_commitment(n).map(|_| ()));
    if !r.is_ok() {
        return Err(format!("revoke holder {}: {}", n - 1, r.err_msg()));
    }
    let sk = w.chans[ci].cp.secret(n - 1);
    let r = w.with_chan(ci, |ch| ch.validate_counterparty_revocation(n - 1, &sk));
    if !r.is_ok() {
        return Err(format!("counterparty revocation {}: {}", n - 1, r.err_msg()));
    }
    Ok(())
}

/// Preimages of received HTLCs become known to the signer.
pub fn fulfill_received(w: &mut World, ci: usize, c: &Content) {
    let pre: Vec<_> = c.received.iter().map(|h| preimage(h.h)).collect();
    if !pre.is_empty() {
        must(w.with_chan(ci, |ch| { ch.htlcs_fulfilled(pre.clone()); Ok(()) }), "htlcs_fulfilled");
    }
}

// ---------------------------------------------------------------------------------------------
// reference transactions of a channel

#[derive(Clone, Debug)]
pub struct CommitRef {
    /// "holder_commit" | "cp_commit" | "cp_revoked"
    pub kind: &'static str,
    pub tx: Transaction,
    pub txid: Txid,
    /// our main output (to_local on our commitment, to_remote on theirs)
    pub ours: Option<u32>,
    pub theirs: Option<u32>,
    /// every HTLC output, in output order, with the timeout (0 for preimage spends by us)
    pub htlcs: Vec<u32>,
    pub anchors: Vec<u32>,
}

fn classify(kind: &'static str, chan: &Chan, ctx: &CommitmentTransaction, holder_is_broadcaster: bool) -> CommitRef {
    let trusted = ctx.trust();
    let keys = trusted.keys();
    let tx = trusted.built_transaction().transaction.clone();
    let delay = if holder_is_broadcaster { chan.setup.counterparty_selected_contest_delay } else { chan.setup.holder_selected_contest_delay };
    let to_broadcaster = get_revokeable_redeemscript(&keys.revocation_key, delay, &keys.broadcaster_delayed_payment_key).to_p2wsh();
    let cs_point = if holder_is_broadcaster { chan.setup.counterparty_points.payment_point } else { chan.holder_pubkeys.payment_point };
    let to_cs = if chan.setup.is_anchors() {
        get_to_countersignatory_with_anchors_redeemscript(&cs_point).to_p2wsh()
    } else {
        ScriptBuf::new_p2wpkh(&bitcoin::CompressedPublicKey(cs_point).wpubkey_hash())
    };
    let htlc_idx: BTreeSet<u32> = ctx.htlcs().iter().filter_map(|h| h.transaction_output_index).collect();
    let mut r = CommitRef { kind, txid: tx.compute_txid(), tx: tx.clone(), ours: None, theirs: None, htlcs: vec![], anchors: vec![] };
    for (i, o) in tx.output.iter().enumerate() {
        let i = i as u32;
        if htlc_idx.contains(&i) {
            r.htlcs.push(i);
        } else if o.script_pubkey == to_broadcaster {
            if holder_is_broadcaster { r.ours = Some(i) } else { r.theirs = Some(i) }
        } else if o.script_pubkey == to_cs {
            if holder_is_broadcaster { r.theirs = Some(i) } else { r.ours = Some(i) }
        } else {
            r.anchors.push(i);
        }
    }
    r
}

/// The reference transactions of one channel.
#[derive(Clone, Debug)]
pub struct ChanTxs {
    pub dbid: u64,
    pub funding_tx: Transaction,
    pub funding_outpoint: OutPoint,
    pub wallet_inputs: Vec<OutPoint>,
    pub value_sat: u64,
    /// current holder commitment, current counterparty commitment, revoked counterparty one
    pub commits: Vec<CommitRef>,
}

impl ChanTxs {
    /// `holder` = (number, content) of the current holder commitment, `cp` likewise for the
    /// counterparty's, `cp_revoked` the counterparty's previous (revoked) commitment if any.
    pub fn build(w: &World, f: &Funded, holder: (u64, &Content), cp: (u64, &Content), cp_revoked: Option<(u64, &Content)>) -> ChanTxs {
        let chan = &w.chans[f.ci];
        let mut commits = vec![];
        let h = chan.ref_holder_commitment(&w.secp, holder.0, holder.1);
        commits.push(classify("holder_commit", chan, &h, true));
        let c = chan.ref_cp_commitment(&w.secp, cp.0, &chan.cp.point(&w.secp, cp.0), cp.1);
        commits.push(classify("cp_commit", chan, &c, false));
        if let Some((n, cc)) = cp_revoked {
            let c = chan.ref_cp_commitment(&w.secp, n, &chan.cp.point(&w.secp, n), cc);
            commits.push(classify("cp_revoked", chan, &c, false));
        }
        ChanTxs {
            dbid: chan.spec.dbid,
            funding_tx: f.funding_tx.clone(),
            funding_outpoint: chan.setup.funding_outpoint,
            wallet_inputs: f.wallet_inputs.clone(),
            value_sat: chan.setup.channel_value_sat,
            commits,
        }
    }
    pub fn commit(&self, kind: &str) -> Option<&CommitRef> {
        self.commits.iter().find(|c| c.kind == kind)
    }
}

// ---------------------------------------------------------------------------------------------
// selectors and the simulated chain

#[derive(Clone, Debug, Serialize, Deserialize, PartialEq, Eq, Hash)]
pub enum FeePos {
    None,
    First,
    Last,
}

/// One pool transaction; `c` is the channel index.  A selector that is not applicable on the
/// current chain (parent missing, input already spent) resolves to nothing.
#[derive(Clone, Debug, Serialize, Deserialize, PartialEq, Eq, Hash)]
pub enum TxSel {
    Funding { c: u8 },
    /// spend wallet input `input` of the funding transaction elsewhere
    DoubleSpend { c: u8, input: u8, salt: u8 },
    Mutual { c: u8, salt: u8 },
    HolderCommit { c: u8 },
    CpCommit { c: u8 },
    /// the counterparty's previous, revoked commitment
    CpRevoked { c: u8 },
    /// spend our main output of the confirmed commitment
    SweepOurs { c: u8, salt: u8 },
    /// spend the counterparty's main output
    SweepTheirs { c: u8 },
    /// spend an anchor output
    SpendAnchor { c: u8, which: u16 },
    /// first-level HTLC spend of 1..n unspent HTLC outputs (selected by `which`), one output per
    /// input at the same index (second-stage shape) or a single output (`merge`)
    HtlcSpend { c: u8, which: Vec<u16>, fee: FeePos, merge: bool, salt: u8 },
    /// spend the k-th unspent second-level output
    SecondLevel { c: u8, k: u16, salt: u8 },
    Noise { n: u8 },
}

#[derive(Clone, Debug)]
pub struct PoolTx {
    pub kind: &'static str,
    pub chan: Option<u8>,
    pub tx: Transaction,
    /// input positions that spend HTLC outputs (for first-level spends)
    pub htlc_inputs: Vec<u32>,
}

/// Monitor-relevance category of a kind: what the channel monitor is expected to react to.
pub fn category(kind: &str) -> Option<&'static str> {
    match kind {
        "funding" => Some("funding"),
        "dspend" => Some("dspend"),
        "mutual" => Some("mutual"),
        "holder_commit" | "cp_commit" | "cp_revoked" => Some("close"),
        "sweep_ours" => Some("sweep"),
        "htlc_spend" => Some("htlc"),
        "second_level" => Some("second"),
        _ => None,
    }
}

#[derive(Clone, Debug)]
pub struct SimBlock {
    pub block: Block,
    pub txs: Vec<PoolTx>,
    /// filter header of this block (chain of TXOO filter headers)
    pub filter_header: FilterHeader,
    /// filter header of the block below (what a chain follower takes from its own chain source
    /// when it builds the proof for this block)
    pub prev_filter_header: FilterHeader,
}

#[derive(Clone, Debug)]
pub struct ChainSim {
    pub genesis: BlockHeader,
    pub blocks: Vec<SimBlock>,
}

fn pick(sel: u16, len: usize) -> usize {
    crate::engine::pick_idx(sel, len)
}

impl ChainSim {
    pub fn new(network: Network) -> ChainSim {
        ChainSim { genesis: bitcoin::blockdata::constants::genesis_block(network).header, blocks: vec![] }
    }
    pub fn tip_header(&self) -> BlockHeader {
        self.blocks.last().map(|b| b.block.header).unwrap_or(self.genesis)
    }
    pub fn tip_filter_header(&self) -> FilterHeader {
        self.blocks.last().map(|b| b.filter_header).unwrap_or(FilterHeader::all_zeros())
    }
    pub fn height(&self) -> u32 {
        self.blocks.len() as u32
    }
    fn all<'a>(&'a self, pending: &'a [PoolTx]) -> impl Iterator<Item = &'a PoolTx> {
        self.blocks.iter().flat_map(|b| b.txs.iter()).chain(pending.iter())
    }
    pub fn spent(&self, op: &OutPoint, pending: &[PoolTx]) -> bool {
        self.all(pending).any(|t| t.tx.input.iter().any(|i| i.previous_output == *op))
    }
    pub fn find(&self, txid: &Txid, pending: &[PoolTx]) -> Option<PoolTx> {
        self.all(pending).find(|t| t.tx.compute_txid() == *txid).cloned()
    }
    /// the confirmed transaction that spends the funding outpoint of `ch`
    fn closing(&self, ch: &ChanTxs, pending: &[PoolTx]) -> Option<PoolTx> {
        self.all(pending).find(|t| t.tx.input.iter().any(|i| i.previous_output == ch.funding_outpoint)).cloned()
    }
    fn funded_open(&self, ch: &ChanTxs, pending: &[PoolTx]) -> bool {
        self.find(&ch.funding_tx.compute_txid(), pending).is_some() && !self.spent(&ch.funding_outpoint, pending)
    }

    /// Resolve a selector against the chain + the transactions already placed in the pending block.
    pub fn resolve(&self, sel: &TxSel, chans: &[ChanTxs], pending: &[PoolTx]) -> Option<PoolTx> {
        let chan_of = |c: u8| chans.get(c as usize % chans.len().max(1));
        match sel {
            TxSel::Funding { c } => {
                let ch = chan_of(*c)?;
                if self.find(&ch.funding_tx.compute_txid(), pending).is_some() || ch.wallet_inputs.iter().any(|i| self.spent(i, pending)) {
                    return None;
                }
                Some(PoolTx { kind: "funding", chan: Some(*c), tx: ch.funding_tx.clone(), htlc_inputs: vec![] })
            }
            TxSel::DoubleSpend { c, input, salt } => {
                let ch = chan_of(*c)?;
                let op = ch.wallet_inputs[*input as usize % ch.wallet_inputs.len()];
                if self.spent(&op, pending) {
                    return None;
                }
                let tx = Transaction {
                    version: Version::TWO,
                    lock_time: LockTime::ZERO,
                    input: vec![txin(op, Sequence::MAX)],
                    output: vec![TxOut { value: Amount::from_sat(40_000), script_pubkey: script_tag("dspend", ch.dbid, *salt as u64) }],
                };
                Some(PoolTx { kind: "dspend", chan: Some(*c), tx, htlc_inputs: vec![] })
            }
            TxSel::Mutual { c, salt } => {
                let ch = chan_of(*c)?;
                if !self.funded_open(ch, pending) {
                    return None;
                }
                let tx = Transaction {
                    version: Version::TWO,
                    lock_time: LockTime::ZERO,
                    input: vec![txin(ch.funding_outpoint, Sequence::MAX)],
                    output: vec![
                        TxOut { value: Amount::from_sat(ch.value_sat / 2), script_pubkey: script_tag("mutual-a", ch.dbid, *salt as u64) },
                        TxOut { value: Amount::from_sat(ch.value_sat / 2 - 1000), script_pubkey: script_tag("mutual-b", ch.dbid, *salt as u64) },
                    ],
                };
                Some(PoolTx { kind: "mutual", chan: Some(*c), tx, htlc_inputs: vec![] })
            }
            TxSel::HolderCommit { c } | TxSel::CpCommit { c } | TxSel::CpRevoked { c } => {
                let ch = chan_of(*c)?;
                if !self.funded_open(ch, pending) {
                    return None;
                }
                let kind = match sel {
                    TxSel::HolderCommit { .. } => "holder_commit",
                    TxSel::CpCommit { .. } => "cp_commit",
                    _ => "cp_revoked",
                };
                let cr = ch.commit(kind)?;
                Some(PoolTx { kind: cr.kind, chan: Some(*c), tx: cr.tx.clone(), htlc_inputs: vec![] })
            }
            TxSel::SweepOurs { c, salt } => {
                let ch = chan_of(*c)?;
                let (cr, _) = self.confirmed_commit(ch, pending)?;
                let op = OutPoint { txid: cr.txid, vout: cr.ours? };
                if self.spent(&op, pending) {
                    return None;
                }
                let tx = Transaction {
                    version: Version::TWO,
                    lock_time: LockTime::ZERO,
                    input: vec![txin(op, Sequence(6))],
                    output: vec![TxOut { value: Amount::from_sat(cr.tx.output[op.vout as usize].value.to_sat().saturating_sub(500)), script_pubkey: script_tag("sweep", ch.dbid, *salt as u64) }],
                };
                Some(PoolTx { kind: "sweep_ours", chan: Some(*c), tx, htlc_inputs: vec![] })
            }
            TxSel::SweepTheirs { c } => {
                let ch = chan_of(*c)?;
                let (cr, _) = self.confirmed_commit(ch, pending)?;
                let op = OutPoint { txid: cr.txid, vout: cr.theirs? };
                if self.spent(&op, pending) {
                    return None;
                }
                let tx = Transaction {
                    version: Version::TWO,
                    lock_time: LockTime::ZERO,
                    input: vec![txin(op, Sequence::MAX)],
                    output: vec![TxOut { value: Amount::from_sat(cr.tx.output[op.vout as usize].value.to_sat().saturating_sub(500)), script_pubkey: script_tag("sweep-theirs", ch.dbid, 0) }],
                };
                Some(PoolTx { kind: "sweep_theirs", chan: Some(*c), tx, htlc_inputs: vec![] })
            }
            TxSel::SpendAnchor { c, which } => {
                let ch = chan_of(*c)?;
                let (cr, _) = self.confirmed_commit(ch, pending)?;
                let free: Vec<u32> = cr.anchors.iter().cloned().filter(|v| !self.spent(&OutPoint { txid: cr.txid, vout: *v }, pending)).collect();
                if free.is_empty() {
                    return None;
                }
                let v = free[pick(*which, free.len())];
                let fee_in = ext_outpoint("anchor-fee", ch.dbid, v as u64);
                if self.spent(&fee_in, pending) {
                    return None;
                }
                let tx = Transaction {
                    version: Version::TWO,
                    lock_time: LockTime::ZERO,
                    input: vec![txin(OutPoint { txid: cr.txid, vout: v }, Sequence::MAX), txin(fee_in, Sequence::MAX)],
                    output: vec![TxOut { value: Amount::from_sat(9_000), script_pubkey: script_tag("anchor", ch.dbid, v as u64) }],
                };
                Some(PoolTx { kind: "anchor_spend", chan: Some(*c), tx, htlc_inputs: vec![] })
            }
            TxSel::HtlcSpend { c, which, fee, merge, salt } => {
                let ch = chan_of(*c)?;
                let (cr, _) = self.confirmed_commit(ch, pending)?;
                let mut free: Vec<u32> = cr.htlcs.iter().cloned().filter(|v| !self.spent(&OutPoint { txid: cr.txid, vout: *v }, pending)).collect();
                let mut chosen = vec![];
                for s in which.iter() {
                    if free.is_empty() {
                        break;
                    }
                    chosen.push(free.remove(pick(*s, free.len())));
                }
                if chosen.is_empty() {
                    return None;
                }
                let mut inputs = vec![];
                let mut outputs = vec![];
                let mut htlc_inputs = vec![];
                let fee_in = ext_outpoint("htlc-fee", ch.dbid, ((chosen[0] as u64) << 8) | *salt as u64);
                let fee_ok = *fee != FeePos::None && !self.spent(&fee_in, pending);
                if fee_ok && *fee == FeePos::First {
                    inputs.push(txin(fee_in, Sequence::MAX));
                    outputs.push(TxOut { value: Amount::from_sat(5_000), script_pubkey: script_tag("htlc-change", ch.dbid, *salt as u64) });
                }
                for v in chosen.iter() {
                    htlc_inputs.push(inputs.len() as u32);
                    inputs.push(txin(OutPoint { txid: cr.txid, vout: *v }, Sequence(if cr.kind == "holder_commit" { 0 } else { 1 })));
                    let val = cr.tx.output[*v as usize].value.to_sat().saturating_sub(700);
                    outputs.push(TxOut { value: Amount::from_sat(val), script_pubkey: script_tag("htlc-2nd", ch.dbid, ((*v as u64) << 8) | *salt as u64) });
                }
                if fee_ok && *fee == FeePos::Last {
                    inputs.push(txin(fee_in, Sequence::MAX));
                    outputs.push(TxOut { value: Amount::from_sat(5_000), script_pubkey: script_tag("htlc-change", ch.dbid, *salt as u64) });
                }
                if *merge {
                    let total: u64 = outputs.iter().map(|o| o.value.to_sat()).sum();
                    outputs = vec![TxOut { value: Amount::from_sat(total), script_pubkey: script_tag("htlc-merged", ch.dbid, *salt as u64) }];
                }
                let tx = Transaction { version: Version::TWO, lock_time: LockTime::ZERO, input: inputs, output: outputs };
                Some(PoolTx { kind: "htlc_spend", chan: Some(*c), tx, htlc_inputs })
            }
            TxSel::SecondLevel { c, k, salt } => {
                let ch = chan_of(*c)?;
                let mut cands: Vec<(OutPoint, u64)> = vec![];
                for t in self.all(pending) {
                    if t.kind == "htlc_spend" && t.chan.map(|x| x as usize % chans.len()) == Some(*c as usize % chans.len()) {
                        let txid = t.tx.compute_txid();
                        for i in t.htlc_inputs.iter() {
                            if (*i as usize) < t.tx.output.len() {
                                let op = OutPoint { txid, vout: *i };
                                if !self.spent(&op, pending) {
                                    cands.push((op, t.tx.output[*i as usize].value.to_sat()));
                                }
                            }
                        }
                    }
                }
                if cands.is_empty() {
                    return None;
                }
                let (op, val) = cands[pick(*k, cands.len())];
                let tx = Transaction {
                    version: Version::TWO,
                    lock_time: LockTime::ZERO,
                    input: vec![txin(op, Sequence(6))],
                    output: vec![TxOut { value: Amount::from_sat(val.saturating_sub(300)), script_pubkey: script_tag("second", ch.dbid, *salt as u64) }],
                };
                Some(PoolTx { kind: "second_level", chan: Some(*c), tx, htlc_inputs: vec![] })
            }
            TxSel::Noise { n } => {
                let op = ext_outpoint("noise", *n as u64, 0);
                if self.spent(&op, pending) {
                    return None;
                }
                let tx = Transaction {
                    version: Version::TWO,
                    lock_time: LockTime::ZERO,
                    input: vec![txin(op, Sequence::MAX)],
                    output: vec![
                        TxOut { value: Amount::from_sat(10_000), script_pubkey: script_tag("noise", *n as u64, 0) },
                        TxOut { value: Amount::from_sat(330), script_pubkey: script_tag("noise", *n as u64, 1) },
                    ],
                };
                Some(PoolTx { kind: "noise", chan: None, tx, htlc_inputs: vec![] })
            }
        }
    }

    /// the commitment transaction of `ch` confirmed on the chain (or placed in the pending block)
    fn confirmed_commit<'a>(&self, ch: &'a ChanTxs, pending: &[PoolTx]) -> Option<(&'a CommitRef, PoolTx)> {
        let t = self.closing(ch, pending)?;
        let txid = t.tx.compute_txid();
        let cr = ch.commits.iter().find(|c| c.txid == txid)?;
        Some((cr, t))
    }

    /// Build the next block from selectors (inapplicable ones are dropped) without connecting it.
    pub fn build_block(&self, sels: &[TxSel], chans: &[ChanTxs], salt: u64) -> (Block, Vec<PoolTx>) {
        let mut pending: Vec<PoolTx> = vec![];
        for s in sels {
            if let Some(t) = self.resolve(s, chans, &pending) {
                pending.push(t);
            }
        }
        let block = make_block(&self.tip_header(), self.height() + 1, salt, pending.iter().map(|t| t.tx.clone()).collect());
        (block, pending)
    }
    pub fn push(&mut self, block: Block, txs: Vec<PoolTx>) {
        let prev_fh = self.tip_filter_header();
        let fh = BlockSpendFilter::from_block(&block).filter_header(&prev_fh);
        self.blocks.push(SimBlock { block, txs, filter_header: fh, prev_filter_header: prev_fh });
    }
    pub fn pop(&mut self) -> Option<SimBlock> {
        self.blocks.pop()
    }
    /// (header, filter header) below the tip
    pub fn prev_headers(&self) -> Headers {
        let n = self.blocks.len();
        if n >= 2 {
            Headers(self.blocks[n - 2].block.header, self.blocks[n - 2].filter_header)
        } else {
            Headers(self.genesis, FilterHeader::all_zeros())
        }
    }
}

/// Sorted, de-duplicated monitor-relevant categories of a block, joined with '+'.
pub fn block_categories(txs: &[PoolTx]) -> String {
    let s: BTreeSet<&'static str> = txs.iter().filter_map(|t| category(t.kind)).collect();
    if s.is_empty() {
        "none".to_string()
    } else {
        s.into_iter().collect::<Vec<_>>().join("+")
    }
}

/// `txs[idx]` together with its ancestors inside the same block, in block order.
pub fn closure(txs: &[PoolTx], idx: usize) -> Vec<PoolTx> {
    let mut keep = vec![false; txs.len()];
    keep[idx] = true;
    for j in (0..=idx).rev() {
        if !keep[j] {
            continue;
        }
        for (k, parent) in txs[..j].iter().enumerate() {
            let ptxid = parent.tx.compute_txid();
            if txs[j].tx.input.iter().any(|i| i.previous_output.txid == ptxid) {
                keep[k] = true;
            }
        }
    }
    txs.iter().zip(keep.iter()).filter(|(_, k)| **k).map(|(t, _)| t.clone()).collect()
}

/// Candidate causes of an abort on a block, most specific first, each with the smallest valid
/// sub-block that contains it: for a removal the (parent category + child category) pairs of
/// monitor-relevant transactions where the child spends the parent inside the block, then (both
/// directions) every monitor-relevant transaction alone, named by its kind.
pub fn abort_candidates(txs: &[PoolTx], removal: bool) -> Vec<(String, Vec<PoolTx>)> {
    let mut out: Vec<(String, Vec<PoolTx>)> = vec![];
    if removal {
        for (j, child) in txs.iter().enumerate() {
            let Some(cc) = category(child.kind) else { continue };
            for parent in txs[..j].iter() {
                let Some(pc) = category(parent.kind) else { continue };
                let ptxid = parent.tx.compute_txid();
                if child.tx.input.iter().any(|i| i.previous_output.txid == ptxid) {
                    // not de-duplicated by name: the same pair on another channel may behave differently
                    out.push((format!("{}+{}", pc, cc), closure(txs, j)));
                }
            }
        }
    }
    for (j, t) in txs.iter().enumerate() {
        if category(t.kind).is_some() {
            out.push((t.kind.to_string(), closure(txs, j)));
        }
    }
    out
}

// ---------------------------------------------------------------------------------------------
// blocks and proofs

pub fn mine(prev: BlockHash, merkle_root: TxMerkleNode, bits: CompactTarget, time: u32) -> BlockHeader {
    let mut nonce = 0u32;
    loop {
        let header = BlockHeader { version: BlockVersion::from_consensus(4), prev_blockhash: prev, merkle_root, time, bits, nonce };
        if header.validate_pow(header.target()).is_ok() {
            return header;
        }
        nonce += 1;
    }
}

/// A block on top of `prev` with a coinbase made unique by (height, salt).
pub fn make_block(prev: &BlockHeader, height: u32, salt: u64, txs: Vec<Transaction>) -> Block {
    make_block_bits(prev, height, salt, txs, prev.bits)
}

/// As `make_block`, mined for the given difficulty.
pub fn make_block_bits(prev: &BlockHeader, height: u32, salt: u64, txs: Vec<Transaction>, bits: CompactTarget) -> Block {
    let mut sig = vec![4u8];
    sig.extend_from_slice(&height.to_le_bytes());
    sig.push(8);
    sig.extend_from_slice(&salt.to_le_bytes());
    let coinbase = Transaction {
        version: Version::TWO,
        lock_time: LockTime::ZERO,
        input: vec![TxIn { previous_output: OutPoint::null(), script_sig: ScriptBuf::from_bytes(sig), sequence: Sequence::MAX, witness: Witness::new() }],
        output: vec![TxOut { value: Amount::from_sat(5_000_000_000), script_pubkey: script_tag("coinbase", height as u64, salt) }],
    };
    let mut all = vec![coinbase];
    all.extend(txs);
    let root = merkle_tree::calculate_root(all.iter().map(|t| t.compute_txid().to_raw_hash())).unwrap();
    let header = mine(prev.block_hash(), TxMerkleNode::from_raw_hash(root), bits, prev.time + 600);
    Block { header, txdata: all }
}

/// TXOO proof for a block and a watch set, signed by the dummy oracle.  `ExternalBlock` (the block
/// must then be streamed with `block_chunk`) if `stream` or on a filter false positive.
pub fn make_proof(block: &Block, prev_filter_header: &FilterHeader, height: u32, txids: &[Txid], outpoints: &[OutPoint], stream: bool) -> TxoProof {
    let secp = Secp256k1::new();
    let key = SecretKey::from_slice(&[2u8; 32]).unwrap();
    let keypair = Keypair::from_secret_key(&secp, &key);
    let pubkey = PublicKey::from_secret_key(&secp, &key);
    let filter = BlockSpendFilter::from_block(block);
    let filter_header = filter.filter_header(prev_filter_header);
    let block_hash = block.block_hash();
    let att = Attestation { block_hash, block_height: height, filter_header, time: 0 };
    let signed = sign_attestation(att, &keypair, &secp);
    let (spv, _spent, unspent) = SpvProof::build(block, txids, outpoints);
    let false_positive = !unspent.is_empty() && filter.match_any(&block_hash, &mut unspent.iter());
    let proof = if stream || false_positive { ProofType::ExternalBlock() } else { ProofType::Filter(filter.content, spv) };
    TxoProof { attestations: vec![(pubkey, signed)], proof }
}

#[derive(Debug)]
pub enum Deliver {
    Ok,
    /// the tracker refused the block (never expected for the proofs built here); the text starts
    /// with "[external] " if a removal was delivered as a streamed (ExternalBlock) proof, whether
    /// requested or forced by a filter false positive
    Refused(String),
    Panic(String),
}

fn catch<T>(f: impl FnOnce() -> T) -> Result<T, String> {
    match catch_unwind(AssertUnwindSafe(f)) {
        Ok(t) => Ok(t),
        Err(e) => Err(if let Some(s) = e.downcast_ref::<&str>() {
            s.to_string()
        } else if let Some(s) = e.downcast_ref::<String>() {
            s.clone()
        } else {
            "panic".to_string()
        }),
    }
}

fn chunks(bytes: &[u8], chunk: usize) -> Vec<&[u8]> {
    if chunk == 0 || chunk >= bytes.len() {
        vec![bytes]
    } else {
        bytes.chunks(chunk).collect()
    }
}

/// Connect `block` (which must build on the tracker's tip) through the node's `ChainTracker`.
pub fn tracker_add(node: &Arc<Node>, block: &Block, stream: bool, chunk: usize) -> Deliver {
    let r = catch(|| -> Result<(), TrackerError> {
        let mut tracker = node.get_tracker();
        let (txids, outpoints) = tracker.get_all_forward_watches();
        let prev_fh = tracker.tip().1;
        let height = tracker.height() + 1;
        let proof = make_proof(block, &prev_fh, height, &txids, &outpoints, stream);
        if proof.proof.is_external() {
            let bytes = serialize(block);
            let mut off = 0u32;
            for c in chunks(&bytes, chunk) {
                tracker.block_chunk(block.block_hash(), off, c)?;
                off += c.len() as u32;
            }
        }
        tracker.add_block(block.header, proof)
    });
    match r {
        Ok(Ok(())) => Deliver::Ok,
        Ok(Err(e)) => Deliver::Refused(format!("{:?}", e)),
        Err(p) => Deliver::Panic(p),
    }
}

/// Disconnect the tracker's tip, which must be `block`; `prev` are the headers below it.
pub fn tracker_remove(node: &Arc<Node>, block: &Block, prev: Headers, stream: bool, chunk: usize) -> Deliver {
    let mut external = false;
    let r = catch(|| -> Result<(), TrackerError> {
        let mut tracker = node.get_tracker();
        let (txids, outpoints) = tracker.get_all_reverse_watches();
        let height = tracker.height();
        let proof = make_proof(block, &prev.1, height, &txids, &outpoints, stream);
        external = proof.proof.is_external();
        if external {
            let bytes = serialize(block);
            let mut off = 0u32;
            for c in chunks(&bytes, chunk) {
                tracker.block_chunk(block.block_hash(), off, c)?;
                off += c.len() as u32;
            }
        }
        tracker.remove_block(proof, prev).map(|_| ())
    });
    match r {
        Ok(Ok(())) => Deliver::Ok,
        Ok(Err(e)) => Deliver::Refused(format!("{}{:?}", if external { "[external] " } else { "" }, e)),
        Err(p) => Deliver::Panic(p),
    }
}

// ---------------------------------------------------------------------------------------------
// wire delivery: what the chain follower of a deployment sends to the root handler

/// (message name, result) of every protocol message of the deliveries made so far; results are
/// "ok", "orphan" (AddBlock answered with SignerError CODE_ORPHAN_BLOCK), "not-parent" / "not-tip"
/// (TipInfo named another block than the one the delivery builds on / removes), "refused" (error
/// reply), "panic".
#[derive(Default, Debug)]
pub struct WireLog {
    pub msgs: Vec<(&'static str, &'static str)>,
    /// number of BlockChunk messages sent
    pub chunks: u64,
    /// watches carried by the last ForwardWatches / ReverseWatches reply
    pub last_watches: (usize, usize),
}

impl WireLog {
    /// the message whose handler panicked, if any
    pub fn panic_site(&self) -> Option<&'static str> {
        self.msgs.iter().find(|(_, r)| *r == "panic").map(|(m, _)| *m)
    }
}

impl WireLog {
    /// distinct (message, result) pairs, sorted, as "wire:<message>:<result>"
    pub fn classes(&self) -> Vec<String> {
        let s: BTreeSet<String> = self.msgs.iter().map(|(m, r)| format!("wire:{}:{}", m, r)).collect();
        s.into_iter().collect()
    }
}

enum WireFail {
    Refused(String),
    Panic(String),
}

/// One request to the root handler: serialised, parsed back, handled; the reply is serialised and
/// parsed back as well (it is what the follower reads).
fn wire_request(root: &RootHandler, name: &'static str, msg: Message, log: &mut WireLog) -> Result<Message, WireFail> {
    let bytes = msg.inner().as_vec();
    let msg = msgs::from_vec(bytes).expect("well-formed request survives the wire");
    let r = catch(|| root.handle(msg).map(|reply| reply.as_vec()));
    match r {
        Ok(Ok(bytes)) => match msgs::from_vec(bytes) {
            Ok(m) => Ok(m),
            Err(e) => {
                log.msgs.push((name, "reply-undecodable"));
                Err(WireFail::Refused(format!("{}: reply does not parse: {:?}", name, e)))
            }
        },
        Ok(Err(e)) => {
            log.msgs.push((name, "refused"));
            Err(WireFail::Refused(format!("{}: {:?}", name, e)))
        }
        Err(p) => {
            log.msgs.push((name, "panic"));
            Err(WireFail::Panic(p))
        }
    }
}

fn wire_tip_info(root: &RootHandler, log: &mut WireLog) -> Result<(u32, BlockHash), WireFail> {
    match wire_request(root, "TipInfo", Message::TipInfo(msgs::TipInfo {}), log)? {
        Message::TipInfoReply(m) => Ok((m.height, m.block_hash)),
        m => Err(WireFail::Refused(format!("TipInfo: unexpected reply {:?}", m))),
    }
}

/// `TipInfo` alone: the (height, block hash) the signer reports as its tip (what the follower
/// starts every update with, e.g. to resynchronise after the signer was restarted).
pub fn wire_tip(root: &RootHandler, log: &mut WireLog) -> Result<(u32, BlockHash), String> {
    match wire_tip_info(root, log) {
        Ok(t) => {
            log.msgs.push(("TipInfo", "ok"));
            Ok(t)
        }
        Err(WireFail::Refused(e)) => Err(e),
        Err(WireFail::Panic(p)) => Err(format!("PANIC {}", p)),
    }
}

/// The follower's `maybe_stream_block`: the block in `BlockChunk` messages of `chunk` bytes
/// (0 = as few as the 16-bit length of the content field allows).
fn wire_stream(root: &RootHandler, block: &Block, chunk: usize, log: &mut WireLog) -> Result<(), WireFail> {
    let bytes = serialize(block);
    let chunk = if chunk == 0 || chunk > 0xffff { 0xffff } else { chunk };
    let hash = block.block_hash();
    let mut off = 0u32;
    for c in bytes.chunks(chunk) {
        let req = Message::BlockChunk(msgs::BlockChunk { hash, offset: off, content: Octets(c.to_vec()) });
        log.chunks += 1;
        match wire_request(root, "BlockChunk", req, log)? {
            Message::BlockChunkReply(_) => {}
            m => return Err(WireFail::Refused(format!("BlockChunk: unexpected reply {:?}", m))),
        }
        off += c.len() as u32;
    }
    log.msgs.push(("BlockChunk", "ok"));
    Ok(())
}

fn wire_outcome(r: Result<(), WireFail>) -> Deliver {
    match r {
        Ok(()) => Deliver::Ok,
        Err(WireFail::Refused(e)) => Deliver::Refused(e),
        Err(WireFail::Panic(p)) => Deliver::Panic(p),
    }
}

/// Connect `block` as the chain follower does, through protocol messages to the root handler
/// only: `TipInfo` (the height of the attestation is the reported height + 1), `ForwardWatches`,
/// a proof for exactly the txids / outpoints of the reply, the block in `BlockChunk`s if the proof
/// is `ExternalBlock` (`stream`, or a filter false positive), `AddBlock`.
/// `prev_filter_header` is the filter header of the block below, which the follower has from its
/// own chain source (no protocol message reports it).
/// `Deliver::Refused` = an error reply (an orphan: "OrphanBlock: ..."); `Deliver::Panic` = the
/// handler panicked (it does so on every refusal of a block other than an orphan).
pub fn wire_add(root: &RootHandler, block: &Block, prev_filter_header: &FilterHeader, stream: bool, chunk: usize, log: &mut WireLog) -> Deliver {
    wire_add_with(root, block, prev_filter_header, stream, chunk, log, |p| p)
}

/// As [`wire_add`]; `tweak` may replace the proof the follower built (e.g. its attestations)
/// before it is streamed / sent.
pub fn wire_add_with(root: &RootHandler, block: &Block, prev_filter_header: &FilterHeader, stream: bool, chunk: usize, log: &mut WireLog, tweak: impl FnOnce(TxoProof) -> TxoProof) -> Deliver {
    let r = (|| -> Result<(), WireFail> {
        let (height, tip) = wire_tip_info(root, log)?;
        log.msgs.push(("TipInfo", if tip == block.header.prev_blockhash { "ok" } else { "not-parent" }));
        let (txids, outpoints) = match wire_request(root, "ForwardWatches", Message::ForwardWatches(msgs::ForwardWatches {}), log)? {
            Message::ForwardWatchesReply(m) => (m.txids.0, m.outpoints.0),
            m => return Err(WireFail::Refused(format!("ForwardWatches: unexpected reply {:?}", m))),
        };
        log.msgs.push(("ForwardWatches", "ok"));
        log.last_watches = (txids.len(), outpoints.len());
        let proof = tweak(make_proof(block, prev_filter_header, height + 1, &txids, &outpoints, stream));
        if proof.proof.is_external() {
            wire_stream(root, block, chunk, log)?;
        }
        let req = Message::AddBlock(msgs::AddBlock { header: Octets(serialize(&block.header)), unspent_proof: Some(msgs::DebugTxoProof(proof)) });
        match wire_request(root, "AddBlock", req, log)? {
            Message::AddBlockReply(_) => {
                log.msgs.push(("AddBlock", "ok"));
                Ok(())
            }
            Message::SignerError(e) if e.code == msgs::CODE_ORPHAN_BLOCK => {
                log.msgs.push(("AddBlock", "orphan"));
                Err(WireFail::Refused(format!("OrphanBlock: {}", String::from_utf8_lossy(&e.message.0))))
            }
            m => {
                log.msgs.push(("AddBlock", "refused"));
                Err(WireFail::Refused(format!("AddBlock: unexpected reply {:?}", m)))
            }
        }
    })();
    wire_outcome(r)
}

/// Disconnect `block` (the signer's tip; `prev` are the headers below it) as the chain follower
/// does: `TipInfo` (the height of the attestation is the reported height), `ReverseWatches`, a
/// proof for exactly the watches of the reply, `BlockChunk`s if the proof is `ExternalBlock`,
/// `RemoveBlock`.  A follower removes a block only when `TipInfo` names it: otherwise nothing is
/// sent and the result is `Refused("TipInfo: ...")`.
pub fn wire_remove(root: &RootHandler, block: &Block, prev: Headers, stream: bool, chunk: usize, log: &mut WireLog) -> Deliver {
    let r = (|| -> Result<(), WireFail> {
        let (height, tip) = wire_tip_info(root, log)?;
        if tip != block.block_hash() {
            log.msgs.push(("TipInfo", "not-tip"));
            return Err(WireFail::Refused(format!("TipInfo: the signer's tip is {} at height {}, not the block to remove {}", tip, height, block.block_hash())));
        }
        log.msgs.push(("TipInfo", "ok"));
        let (txids, outpoints) = match wire_request(root, "ReverseWatches", Message::ReverseWatches(msgs::ReverseWatches {}), log)? {
            Message::ReverseWatchesReply(m) => (m.txids.0, m.outpoints.0),
            m => return Err(WireFail::Refused(format!("ReverseWatches: unexpected reply {:?}", m))),
        };
        log.msgs.push(("ReverseWatches", "ok"));
        log.last_watches = (txids.len(), outpoints.len());
        let proof = make_proof(block, &prev.1, height, &txids, &outpoints, stream);
        if proof.proof.is_external() {
            wire_stream(root, block, chunk, log)?;
        }
        let req = Message::RemoveBlock(msgs::RemoveBlock {
            unspent_proof: Some(LargeOctets(serialize(&proof))),
            prev_block_header: prev.0,
            prev_filter_header: prev.1,
        });
        match wire_request(root, "RemoveBlock", req, log)? {
            Message::RemoveBlockReply(_) => {
                log.msgs.push(("RemoveBlock", "ok"));
                Ok(())
            }
            m => {
                log.msgs.push(("RemoveBlock", "refused"));
                Err(WireFail::Refused(format!("RemoveBlock: unexpected reply {:?}", m)))
            }
        }
    })();
    wire_outcome(r)
}

// ---------------------------------------------------------------------------------------------
// level A: the listeners driven directly, as ChainTracker::notify_listeners_* does

pub struct DirectListeners {
    /// in the tracker's listener order (ordered by funding outpoint)
    pub listeners: Vec<(OutPoint, ChainMonitor, ListenSlot)>,
}

struct Fanout<'a>(&'a [(OutPoint, ChainMonitor, ListenSlot)]);

impl<'a> push_decoder::Listener for Fanout<'a> {
    fn on_block_start(&mut self, header: &BlockHeader) {
        for (_, m, _) in self.0.iter() {
            m.on_push(|pl| pl.on_block_start(header));
        }
    }
    fn on_transaction_start(&mut self, version: i32) {
        for (_, m, _) in self.0.iter() {
            m.on_push(|pl| pl.on_transaction_start(version));
        }
    }
    fn on_transaction_input(&mut self, txin: &TxIn) {
        for (_, m, _) in self.0.iter() {
            m.on_push(|pl| pl.on_transaction_input(txin));
        }
    }
    fn on_transaction_output(&mut self, txout: &TxOut) {
        for (_, m, _) in self.0.iter() {
            m.on_push(|pl| pl.on_transaction_output(txout));
        }
    }
    fn on_transaction_end(&mut self, locktime: LockTime, txid: Txid) {
        for (_, m, _) in self.0.iter() {
            m.on_push(|pl| pl.on_transaction_end(locktime, txid));
        }
    }
    fn on_block_end(&mut self) {
        for (_, m, _) in self.0.iter() {
            m.on_push(|pl| pl.on_block_end());
        }
    }
}

impl DirectListeners {
    /// Clone the production monitors and their listen slots out of the node's tracker.
    pub fn from_node(node: &Arc<Node>) -> DirectListeners {
        let tracker = node.get_tracker();
        let listeners = tracker.listeners.iter().map(|(k, (m, s))| (*k, m.clone(), s.clone())).collect();
        DirectListeners { listeners }
    }

    fn stream(&self, block: &Block, chunk: usize) {
        let bytes = serialize(block);
        let mut dec = push_decoder::BlockDecoder::new();
        let mut fan = Fanout(&self.listeners);
        for c in chunks(&bytes, chunk) {
            dec.decode_next(c, &mut fan).expect("decode");
        }
        dec.finish().expect("decode finish");
    }

    /// as `ChainTracker::add_block` → `notify_listeners_add`
    pub fn add(&mut self, block: &Block, stream: bool, chunk: usize) -> Deliver {
        let hash = block.block_hash();
        let txs: Vec<Transaction> = block.txdata[1..].to_vec();
        let r = catch(|| {
            if stream {
                self.stream(block, chunk);
            }
            for (_, listener, slot) in self.listeners.iter_mut() {
                let (adds, removes) = if stream { listener.on_add_streamed_block_end(&hash) } else { listener.on_add_block(&txs, &hash) };
                slot.watches.extend(adds);
                for outpoint in removes.iter() {
                    slot.watches.remove(outpoint);
                }
                slot.seen.extend(removes);
            }
        });
        match r {
            Ok(()) => Deliver::Ok,
            Err(p) => Deliver::Panic(p),
        }
    }

    /// as `ChainTracker::remove_block` → `notify_listeners_remove`
    pub fn remove(&mut self, block: &Block, stream: bool, chunk: usize) -> Deliver {
        let hash = block.block_hash();
        let txs: Vec<Transaction> = block.txdata[1..].to_vec();
        let r = catch(|| {
            if stream {
                self.stream(block, chunk);
            }
            for (_, listener, slot) in self.listeners.iter_mut() {
                let (adds, removes) = if stream { listener.on_remove_streamed_block_end(&hash) } else { listener.on_remove_block(&txs, &hash) };
                for outpoint in removes.iter() {
                    slot.seen.remove(outpoint);
                }
                slot.watches.extend(removes);
                for outpoint in adds.iter() {
                    slot.watches.remove(outpoint);
                }
            }
        });
        match r {
            Ok(()) => Deliver::Ok,
            Err(p) => Deliver::Panic(p),
        }
    }
}

// ---------------------------------------------------------------------------------------------
// views

/// The comparable view of one channel monitor and its listen slot, as ordered (field, value)
/// pairs: public getters first, then the serde dump of the monitor `State` (with `saw_block`
/// dropped and the second-level outputs sorted), then the slot's watch sets.
pub fn monitor_view(m: &ChainMonitor, slot: &ListenSlot) -> Result<Vec<(String, Value)>, String> {
    catch(|| {
        let mut v: Vec<(String, Value)> = vec![];
        v.push(("funding_depth".into(), json!(m.funding_depth())));
        v.push(("funding_double_spent_depth".into(), json!(m.funding_double_spent_depth())));
        v.push(("closing_depth".into(), json!(m.closing_depth())));
        v.push(("is_done".into(), json!(m.is_done())));
        v.push(("diagnostic".into(), json!(m.as_base().diagnostic(false))));
        v.push(("funding_outpoint_onchain".into(), json!(m.as_base().funding_outpoint().map(|o| o.to_string()))));
        let mut st = serde_json::to_value(&*m.get_state()).expect("state serialises");
        if let Some(o) = st.as_object_mut() {
            o.remove("saw_block");
            if let Some(co) = o.get_mut("closing_outpoints").and_then(|c| c.as_object_mut()) {
                if let Some(sl) = co.get_mut("second_level_htlc_outputs").and_then(|s| s.as_array_mut()) {
                    sl.sort_by_key(|e| e.to_string());
                }
            }
            let keys = [
                "height", "funding_height", "funding_outpoint", "funding_double_spent_height", "mutual_closing_height",
                "unilateral_closing_height", "closing_outpoints", "closing_swept_height", "our_output_swept_height",
                "funding_txids", "funding_vouts", "funding_inputs", "saw_forget_channel",
            ];
            for k in keys {
                v.push((k.to_string(), o.remove(k).unwrap_or(Value::Null)));
            }
            for (k, val) in o.iter() {
                v.push((format!("state.{}", k), val.clone()));
            }
        }
        let watches: Vec<String> = slot.watches.iter().map(|o| o.to_string()).collect();
        let seen: Vec<String> = slot.seen.iter().map(|o| o.to_string()).collect();
        let txw: Vec<String> = slot.txid_watches.iter().map(|o| o.to_string()).collect();
        v.push(("watches".into(), json!(watches)));
        v.push(("seen".into(), json!(seen)));
        v.push(("txid_watches".into(), json!(txw)));
        v
    })
}

/// first differing field of two views
pub fn view_diff(a: &[(String, Value)], b: &[(String, Value)]) -> Option<(String, Value, Value)> {
    for ((ka, va), (kb, vb)) in a.iter().zip(b.iter()) {
        if ka != kb {
            return Some((format!("{}|{}", ka, kb), va.clone(), vb.clone()));
        }
        if va != vb {
            return Some((ka.clone(), va.clone(), vb.clone()));
        }
    }
    if a.len() != b.len() {
        return Some(("field-count".into(), json!(a.len()), json!(b.len())));
    }
    None
}
