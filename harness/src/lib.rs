pub mod engine;
pub mod world;
pub mod props {
    pub mod c03;
    pub mod c04;
    pub mod c05;
    pub mod c06;
    pub mod c12;
    pub mod c16;
    pub mod c17;
    pub mod holder;
}
