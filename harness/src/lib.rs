pub mod chainpool;
#[cfg(not(vls_verif))]
pub mod chainutil;
pub mod engine;
pub mod world;
// Under --cfg vls_verif (C20 only) vls-core's sync primitives are shuttle's: only the C20 module
// is compiled then, every other check is built without the hook.
#[cfg(vls_verif)]
pub mod props {
    pub mod c20;
}
#[cfg(not(vls_verif))]
pub mod props {
    pub mod c03;
    pub mod c04;
    pub mod c05;
    pub mod c05chain;
    pub mod c06;
    pub mod c07;
    pub mod c08;
    pub mod c09;
    pub mod c10;
    pub mod c11;
    pub mod unionm;
    pub mod c12;
    pub mod c13;
    pub mod c14;
    pub mod c15;
    pub mod c16;
    pub mod c17;
    pub mod c18;
    pub mod c19;
    pub mod holder;
    pub mod proto;
}
