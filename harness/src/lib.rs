pub mod engine;
pub mod props {
    pub mod c16;
}
