pub mod chainpool;
#[cfg(not(vls_verif))]
pub mod chainutil;
pub mod engine;
pub mod world;
// Under --cfg vls_verif (C20 only) vls-core's sync primitives are shuttle's: only the C20 module
// is compiled then, every other check is built without the hook.
#[cfg(vls_verif)]
pub mod props {
    pub mod c20;
}
#[cfg(not(vls_verif))]
pub mod props {
    pub mod c03;
    pub mod c04;
    pub mod c05;
    pub mod c05chain;
    pub mod c06;
    pub mod c07;
    pub mod c08;
    pub mod c09;
    pub mod c10;
    pub mod c11;
    pub mod unionm;
    pub mod c12;
    pub mod c13;
    pub mod c14;
    pub mod c15;
    pub mod c16;
    pub mod c17;
    pub mod c17drv;
    pub mod c18;
    pub mod c19;
    pub mod holder;
    pub mod proto;
}

/// Coverage-guided entry (used by /verif/harness/fuzz): the property's fuzzer by id.
#[cfg(not(vls_verif))]
pub fn fuzzer_for(id: &str) -> Option<Box<dyn engine::FuzzDyn>> {
    use engine::Fuzzer;
    use props::*;
    Some(match id {
        "C01" => Box::new(Fuzzer::new(holder::C01)),
        "C02" => Box::new(Fuzzer::new(holder::C02)),
        "C03" => Box::new(Fuzzer::new(c03::C03)),
        "C04" => Box::new(Fuzzer::new(c04::C04)),
        "C05" => Box::new(Fuzzer::new(c05::C05)),
        "C06" => Box::new(Fuzzer::new(c06::C06)),
        "C07" => Box::new(Fuzzer::new(c07::C07)),
        "C08" => Box::new(Fuzzer::new(c08::C08)),
        "C09" => Box::new(Fuzzer::new(c09::C09)),
        "C10" => Box::new(Fuzzer::new(c10::C10)),
        "C11" => Box::new(Fuzzer::new(c11::C11)),
        "C12" => Box::new(Fuzzer::new(c12::C12)),
        "C13" => Box::new(Fuzzer::new(c13::C13)),
        "C14" => Box::new(Fuzzer::new(c14::C14)),
        "C15" => Box::new(Fuzzer::new(c15::C15)),
        "C16" => Box::new(Fuzzer::new(c16::C16)),
        "C17" => Box::new(Fuzzer::new(c17::C17)),
        "C18" => Box::new(Fuzzer::new(c18::C18)),
        "C19" => Box::new(Fuzzer::new(c19::C19)),
        _ => return None,
    })
}
