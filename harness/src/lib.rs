pub mod engine;
pub mod world;
pub mod props {
    pub mod c03;
    pub mod c16;
    pub mod holder;
}
