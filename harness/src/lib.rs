pub mod engine;
pub mod world;
pub mod props {
    pub mod c03;
    pub mod c12;
    pub mod c16;
    pub mod c17;
    pub mod c19;
    pub mod holder;
}
