use std::path::PathBuf;
use vls_verif::engine::{run_prop, Tier};
use vls_verif::props::*;

fn main() {
    let args: Vec<String> = std::env::args().collect();
    if args.len() < 2 {
        eprintln!("usage: vcheck <ID> [--tier quick|thorough] [--seed N] [--replay FILE]");
        std::process::exit(2);
    }
    let id = args[1].to_uppercase();
    let mut tier = match std::env::var("VERIF_TIER").as_deref() {
        Ok("thorough") => Tier::Thorough,
        _ => Tier::Quick,
    };
    let mut seed: u64 = std::env::var("VERIF_SEED").ok().and_then(|s| s.parse().ok()).unwrap_or(1);
    let mut replay: Option<PathBuf> = None;
    let mut i = 2;
    while i < args.len() {
        match args[i].as_str() {
            "--tier" => {
                tier = if args[i + 1] == "thorough" { Tier::Thorough } else { Tier::Quick };
                i += 1;
            }
            "--seed" => {
                seed = args[i + 1].parse().expect("seed");
                i += 1;
            }
            "--replay" => {
                replay = Some(PathBuf::from(&args[i + 1]));
                i += 1;
            }
            _ => {}
        }
        i += 1;
    }
    if std::env::var("VERIF_DEBUG").is_err() {
        std::panic::set_hook(Box::new(|_| {}));
    }
    // watchdog: a hang is inconclusive, never a violation
    let limit = std::env::var("VERIF_WATCHDOG_S").ok().and_then(|s| s.parse().ok()).unwrap_or(match tier {
        Tier::Quick => 1500u64,
        Tier::Thorough => 6 * 3600,
    });
    std::thread::spawn(move || {
        std::thread::sleep(std::time::Duration::from_secs(limit));
        eprintln!("INCONCLUSIVE watchdog fired after {} s", limit);
        std::process::exit(2);
    });
    let code = dispatch(id.as_str(), tier, seed, replay);
    std::process::exit(code);
}

#[cfg(not(vls_verif))]
fn dispatch(id: &str, tier: Tier, seed: u64, replay: Option<PathBuf>) -> i32 {
    match id {
        "C01" => run_prop(holder::C01, tier, seed, replay),
        "C02" => run_prop(holder::C02, tier, seed, replay),
        "C03" => run_prop(c03::C03, tier, seed, replay),
        "C17" => run_prop(c17::C17, tier, seed, replay),
        "C04" => run_prop(c04::C04, tier, seed, replay),
        "C05" => run_prop(c05::C05, tier, seed, replay),
        "C06" => run_prop(c06::C06, tier, seed, replay),
        "C07" => run_prop(c07::C07, tier, seed, replay),
        "C08" => run_prop(c08::C08, tier, seed, replay),
        "C09" => run_prop(c09::C09, tier, seed, replay),
        "C10" => run_prop(c10::C10, tier, seed, replay),
        "C11" => run_prop(c11::C11, tier, seed, replay),
        "C12" => run_prop(c12::C12, tier, seed, replay),
        "C13" => run_prop(c13::C13, tier, seed, replay),
        "C14" => run_prop(c14::C14, tier, seed, replay),
        "C15" => run_prop(c15::C15, tier, seed, replay),
        "C16" => run_prop(c16::C16, tier, seed, replay),
        "C18" => run_prop(c18::C18, tier, seed, replay),
        "C19" => run_prop(c19::C19, tier, seed, replay),
        _ => {
            eprintln!("unknown property {}", id);
            2
        }
    }
}

#[cfg(vls_verif)]
fn dispatch(id: &str, tier: Tier, seed: u64, replay: Option<PathBuf>) -> i32 {
    match id {
        "C20" => run_prop(c20::C20, tier, seed, replay),
        _ => {
            eprintln!("property {} is not built with --cfg vls_verif", id);
            2
        }
    }
}
