//! Chain / mining / oracle helpers shared by the chain-tracker checks (C13, reusable by C14).
//!
//! API overview (everything here is deterministic; no RNG, no clock):
//!
//! * targets and mining
//!   - `shift_target(t, s)` / `shift_bits(bits, s)`: multiply a target by 2^s (saturating),
//!     returned through the compact encoding like a header would carry it.
//!   - `mine(prev_hash, merkle_root, bits, time, want_pow)`: search the nonce space for a header
//!     whose hash is (want_pow = true) or is not (false) under its own target.  Only regtest-like
//!     targets can be mined; `unmined(..)` builds a nonce-0 header for the other networks.
//!   - `REGTEST_BITS`, `regtest_max_target()`.
//! * transactions and blocks
//!   - `coinbase(salt)`: an input-less transaction made unique by `salt` (lock time).
//!   - `spend(outpoint, salt)`: a 1-in/1-out transaction spending `outpoint`.
//!   - `block(prev_hash, bits, time, txs)`: a mined block; `block_with_header` for defective headers.
//!   - `Blk { block, fh, height }`: a block together with the filter header recorded for it.
//!   - `filter_header(block, prev_fh)`: the TXOO spent-outpoint filter header of `block`.
//!   - `synthetic_chain(n, first_height, bits, fh0, salt0)`: `n` linked coinbase-only blocks with
//!     chained filter headers, the first one having an arbitrary parent.
//! * oracles / proofs
//!   - `Attestor::new(n_trusted, n_untrusted)`: deterministic oracle key pairs;
//!     `trusted_pubkeys()`, `sign(key, claimed, block_hash, height, fh)`.
//!   - `compact_proof(atts, block, outpoint_watches, txid_watches)`: what `TxoProof::prove` does
//!     without its sanity panics (so that defective attestations can be attached): `Filter` proof,
//!     or `Block` proof on a filter false positive.
//!   - `filter_proof_without_spv(atts, block)`: a filter proof that omits all spending transactions.
//!   - `external_proof(atts)`, `inline_block_proof(atts, block)`.
//!   - `chunks(block, splits)`: serialized block cut at the given byte offsets, as
//!     `(offset, bytes)` pairs for `ChainTracker::block_chunk`.
//! * listener
//!   - `RecListener`: a `ChainListener` keyed by an outpoint that follows spends of what it
//!     watches (the spender's output 0 becomes the next watch), keeps its own copy of the
//!     watched / seen sets, and exposes *all* of its state (`state()`), including the transient
//!     decode state filled by streamed-block push events (modelled after `ChainMonitor`: created on
//!     the first push event, consumed by `on_*_streamed_block_end`).  It never panics; protocol
//!     anomalies are recorded in `LisState::anomalies`.
//! * tracker observation
//!   - `Snap::take(&tracker)`: full observable tracker state (tip, height, header window, and per
//!     listener the listener state and the `ListenSlot`), `PartialEq`, `diff()` names the changed
//!     components, `restore(..)` rebuilds a tracker through `ChainTracker::restore` +
//!     `restore_listener` (the persistence path).
//!   - `catch(|| tracker.call())`: `Res::{Ok, Err(tracker::Error), Panic(msg)}`.

use push_decoder::Listener as PushListener;
use lightning_signer::bitcoin;
use lightning_signer::bitcoin::absolute::LockTime;
use lightning_signer::bitcoin::block::{Header as BlockHeader, Version as BlockVersion};
use lightning_signer::bitcoin::consensus::{deserialize, serialize};
use lightning_signer::bitcoin::hash_types::{FilterHeader, TxMerkleNode};
use lightning_signer::bitcoin::hashes::Hash;
use lightning_signer::bitcoin::key::Keypair;
use lightning_signer::bitcoin::secp256k1::{All, PublicKey, Secp256k1};
use lightning_signer::bitcoin::transaction::Version;
use lightning_signer::bitcoin::{
    merkle_tree, Amount, Block, BlockHash, CompactTarget, Network, OutPoint, ScriptBuf, Sequence, Target,
    Transaction, TxIn, TxOut, Txid, Witness,
};
use lightning_signer::chain::tracker::{ChainListener, ChainTracker, Error as TrackerError, Headers, ListenSlot};
use lightning_signer::policy::validator::ValidatorFactory;
use lightning_signer::txoo::filter::BlockSpendFilter;
use lightning_signer::txoo::proof::{ProofType, TxoProof};
use lightning_signer::txoo::spv::SpvProof;
use lightning_signer::txoo::util::sign_attestation;
use lightning_signer::txoo::{Attestation, SignedAttestation};
use lightning_signer::SendSync;
use serde_json::{json, Value};
use std::collections::{BTreeSet, VecDeque};
use std::panic::{catch_unwind, AssertUnwindSafe};
use std::sync::{Arc, Mutex};

// ---------------------------------------------------------------------------------------------
// targets and mining

pub const REGTEST_BITS: u32 = 0x207fffff;

pub fn regtest_max_target() -> Target {
    Target::from_compact(CompactTarget::from_consensus(REGTEST_BITS))
}

/// t * 2^s, saturating at the all-ones target, rounded through the compact encoding.
pub fn shift_target(t: Target, s: i8) -> Target {
    let b = t.to_be_bytes();
    let mut hi = u128::from_be_bytes(b[0..16].try_into().unwrap());
    let mut lo = u128::from_be_bytes(b[16..32].try_into().unwrap());
    if s >= 0 {
        for _ in 0..s {
            if hi >> 127 != 0 {
                hi = u128::MAX;
                lo = u128::MAX;
                break;
            }
            hi = (hi << 1) | (lo >> 127);
            lo <<= 1;
        }
    } else {
        for _ in 0..(-s) {
            lo = (lo >> 1) | (hi << 127);
            hi >>= 1;
        }
    }
    let mut o = [0u8; 32];
    o[0..16].copy_from_slice(&hi.to_be_bytes());
    o[16..32].copy_from_slice(&lo.to_be_bytes());
    Target::from_compact(Target::from_be_bytes(o).to_compact_lossy())
}

pub fn shift_bits(bits: CompactTarget, s: i8) -> CompactTarget {
    if s == 0 {
        bits
    } else {
        shift_target(Target::from_compact(bits), s).to_compact_lossy()
    }
}

fn pow_ok(h: &BlockHeader) -> bool {
    h.validate_pow(h.target()).is_ok()
}

/// A header with the given fields and nonce 0 (not mined).
pub fn unmined(prev: BlockHash, merkle_root: TxMerkleNode, bits: CompactTarget, time: u32) -> BlockHeader {
    BlockHeader { version: BlockVersion::from_consensus(0), prev_blockhash: prev, merkle_root, time, bits, nonce: 0 }
}

/// Search nonces for a header that meets (`want_pow`) or misses its own target.  Gives up after
/// 2^22 tries (returns the last header tried): callers only use regtest-like targets.
pub fn mine(prev: BlockHash, merkle_root: TxMerkleNode, bits: CompactTarget, time: u32, want_pow: bool) -> BlockHeader {
    let mut h = unmined(prev, merkle_root, bits, time);
    for nonce in 0..(1u32 << 22) {
        h.nonce = nonce;
        if pow_ok(&h) == want_pow {
            return h;
        }
    }
    h
}

// ---------------------------------------------------------------------------------------------
// transactions and blocks

pub fn coinbase(salt: u32) -> Transaction {
    Transaction {
        version: Version::non_standard(0),
        lock_time: LockTime::from_consensus(salt),
        input: vec![],
        output: vec![TxOut { value: Amount::from_sat(0), script_pubkey: ScriptBuf::new() }],
    }
}

pub fn spend(prev: OutPoint, salt: u32) -> Transaction {
    Transaction {
        version: Version::non_standard(0),
        lock_time: LockTime::from_consensus(salt),
        input: vec![TxIn {
            previous_output: prev,
            script_sig: Default::default(),
            sequence: Sequence::ZERO,
            witness: Witness::default(),
        }],
        output: vec![TxOut { value: Amount::from_sat(0), script_pubkey: ScriptBuf::new() }],
    }
}

pub fn merkle_root(txs: &[Transaction]) -> TxMerkleNode {
    let ids = txs.iter().map(|t| t.compute_txid().to_raw_hash());
    TxMerkleNode::from_raw_hash(merkle_tree::calculate_root(ids).expect("at least one tx"))
}

/// A correctly mined block.
pub fn block(prev: BlockHash, bits: CompactTarget, time: u32, txs: Vec<Transaction>) -> Block {
    let header = mine(prev, merkle_root(&txs), bits, time, true);
    Block { header, txdata: txs }
}

pub fn filter_header(block: &Block, prev_fh: &FilterHeader) -> FilterHeader {
    BlockSpendFilter::from_block(block).filter_header(prev_fh)
}

/// A block with the filter header recorded for it and its height.
#[derive(Clone)]
pub struct Blk {
    pub block: Block,
    pub fh: FilterHeader,
    pub height: u32,
}

impl Blk {
    pub fn headers(&self) -> Headers {
        Headers(self.block.header, self.fh)
    }
    pub fn hash(&self) -> BlockHash {
        self.block.block_hash()
    }
}

/// `n` linked coinbase-only blocks at heights first_height.., filter headers chained from `fh0`
/// (the filter header *before* the first block).  The first block's parent is an arbitrary hash.
pub fn synthetic_chain(n: usize, first_height: u32, bits: CompactTarget, fh0: FilterHeader, salt0: u32) -> Vec<Blk> {
    let mut out: Vec<Blk> = Vec::with_capacity(n);
    let mut prev = BlockHash::from_byte_array([0x42; 32]);
    let mut fh = fh0;
    for i in 0..n {
        let b = block(prev, bits, 0, vec![coinbase(salt0 + i as u32)]);
        fh = filter_header(&b, &fh);
        prev = b.block_hash();
        out.push(Blk { block: b, fh, height: first_height + i as u32 });
    }
    out
}

// ---------------------------------------------------------------------------------------------
// oracles and proofs

pub struct Attestor {
    pub secp: Secp256k1<All>,
    pub trusted: Vec<Keypair>,
    pub untrusted: Vec<Keypair>,
}

impl Attestor {
    pub fn new(n_trusted: usize, n_untrusted: usize) -> Attestor {
        let secp = Secp256k1::new();
        let mk = |b: u8| Keypair::from_seckey_slice(&secp, &[b; 32]).unwrap();
        let trusted = (0..n_trusted).map(|i| mk(0x11 + i as u8)).collect();
        let untrusted = (0..n_untrusted).map(|i| mk(0x31 + i as u8)).collect();
        Attestor { secp, trusted, untrusted }
    }
    pub fn trusted_pubkeys(&self) -> Vec<PublicKey> {
        self.trusted.iter().map(|k| k.public_key()).collect()
    }
    /// An attestation signed by `signer` and presented under the public key of `claimed`
    /// (`claimed` != `signer` gives an attestation whose signature does not verify).
    pub fn sign(
        &self,
        signer: &Keypair,
        claimed: &Keypair,
        block_hash: BlockHash,
        height: u32,
        fh: FilterHeader,
    ) -> (PublicKey, SignedAttestation) {
        let att = Attestation { block_hash, block_height: height, filter_header: fh, time: 0 };
        (claimed.public_key(), sign_attestation(att, signer, &self.secp))
    }
}

/// `TxoProof::prove` without its sanity panics.
pub fn compact_proof(
    atts: Vec<(PublicKey, SignedAttestation)>,
    block: &Block,
    outpoint_watches: &[OutPoint],
    txid_watches: &[Txid],
) -> TxoProof {
    let filter = BlockSpendFilter::from_block(block);
    let (spv, _spent, unspent) = SpvProof::build(block, txid_watches, outpoint_watches);
    let hash = block.block_hash();
    let proof = if !unspent.is_empty() && filter.match_any(&hash, &mut unspent.iter()) {
        ProofType::Block(block.clone())
    } else {
        ProofType::Filter(filter.content, spv)
    };
    TxoProof { attestations: atts, proof }
}

/// A filter proof with an empty SPV part: hides every spending transaction of the block.
pub fn filter_proof_without_spv(atts: Vec<(PublicKey, SignedAttestation)>, block: &Block) -> TxoProof {
    let filter = BlockSpendFilter::from_block(block);
    let (spv, _, _) = SpvProof::build(block, &[], &[]);
    TxoProof { attestations: atts, proof: ProofType::Filter(filter.content, spv) }
}

pub fn external_proof(atts: Vec<(PublicKey, SignedAttestation)>) -> TxoProof {
    TxoProof { attestations: atts, proof: ProofType::ExternalBlock() }
}

pub fn inline_block_proof(atts: Vec<(PublicKey, SignedAttestation)>, block: &Block) -> TxoProof {
    TxoProof { attestations: atts, proof: ProofType::Block(block.clone()) }
}

/// Serialized block cut at the given offsets (sorted, deduplicated, clipped): (offset, bytes).
pub fn chunks(block: &Block, splits: &[usize]) -> Vec<(u32, Vec<u8>)> {
    let bytes = serialize(block);
    let mut cuts: Vec<usize> = splits.iter().cloned().filter(|c| *c > 0 && *c < bytes.len()).collect();
    cuts.sort();
    cuts.dedup();
    cuts.push(bytes.len());
    let mut out = vec![];
    let mut at = 0usize;
    for c in cuts {
        out.push((at as u32, bytes[at..c].to_vec()));
        at = c;
    }
    out
}

// ---------------------------------------------------------------------------------------------
// listener

#[derive(Clone, Debug, Default, PartialEq)]
pub struct Decode {
    pub block_hash: Option<BlockHash>,
    pub cur_inputs: Vec<OutPoint>,
    pub txs: Vec<(Txid, Vec<OutPoint>)>,
    pub ended: bool,
}

#[derive(Clone, Debug, Default, PartialEq)]
pub struct LisState {
    pub watched: BTreeSet<OutPoint>,
    pub seen: BTreeSet<OutPoint>,
    pub blocks_added: u32,
    pub blocks_removed: u32,
    /// transient state of a streamed block in flight
    pub decode: Option<Decode>,
    pub anomalies: Vec<String>,
}

impl LisState {
    fn forward(&mut self, txs: &[(Txid, Vec<OutPoint>)]) -> (Vec<OutPoint>, Vec<OutPoint>) {
        let (mut adds, mut removes) = (vec![], vec![]);
        for (txid, inputs) in txs {
            let mut hit = false;
            for i in inputs {
                if self.watched.remove(i) {
                    self.seen.insert(*i);
                    removes.push(*i);
                    hit = true;
                }
            }
            if hit {
                let add = OutPoint { txid: *txid, vout: 0 };
                self.watched.insert(add);
                adds.push(add);
            }
        }
        self.blocks_added += 1;
        (adds, removes)
    }
    fn backward(&mut self, txs: &[(Txid, Vec<OutPoint>)]) -> (Vec<OutPoint>, Vec<OutPoint>) {
        let (mut adds, mut removes) = (vec![], vec![]);
        for (txid, inputs) in txs.iter().rev() {
            let mut hit = false;
            for i in inputs {
                if self.seen.remove(i) {
                    self.watched.insert(*i);
                    removes.push(*i);
                    hit = true;
                }
            }
            if hit {
                let add = OutPoint { txid: *txid, vout: 0 };
                self.watched.remove(&add);
                adds.push(add);
            }
        }
        self.blocks_removed += 1;
        (adds, removes)
    }
    pub fn to_json(&self) -> Value {
        json!({
            "watched": self.watched.iter().map(|o| o.to_string()).collect::<Vec<_>>(),
            "seen": self.seen.iter().map(|o| o.to_string()).collect::<Vec<_>>(),
            "blocks_added": self.blocks_added,
            "blocks_removed": self.blocks_removed,
            "decode": self.decode.as_ref().map(|d| json!({
                "block_hash": d.block_hash.map(|h| h.to_string()),
                "txs": d.txs.len(), "ended": d.ended })),
            "anomalies": self.anomalies,
        })
    }
}

fn tx_shape(txs: &[Transaction]) -> Vec<(Txid, Vec<OutPoint>)> {
    txs.iter().map(|t| (t.compute_txid(), t.input.iter().map(|i| i.previous_output).collect())).collect()
}

/// See the module documentation.
pub struct RecListener {
    key: OutPoint,
    st: Mutex<LisState>,
}

impl SendSync for RecListener {}

impl RecListener {
    /// A listener that starts out watching its own key.
    pub fn new(key: OutPoint) -> RecListener {
        let mut st = LisState::default();
        st.watched.insert(key);
        RecListener { key, st: Mutex::new(st) }
    }
    pub fn from_state(key: OutPoint, st: LisState) -> RecListener {
        RecListener { key, st: Mutex::new(st) }
    }
    pub fn state(&self) -> LisState {
        self.st.lock().unwrap().clone()
    }
}

struct Push<'a>(&'a mut LisState);

impl<'a> PushListener for Push<'a> {
    fn on_block_start(&mut self, header: &BlockHeader) {
        let stale = self.0.decode.as_ref().map(|d| d.block_hash.is_some()).unwrap_or(false);
        if stale {
            self.0.anomalies.push("block start while a streamed block is still pending".into());
            self.0.decode = Some(Decode::default());
        }
        self.0.decode.as_mut().unwrap().block_hash = Some(header.block_hash());
    }
    fn on_transaction_start(&mut self, _version: i32) {
        self.0.decode.as_mut().unwrap().cur_inputs.clear();
    }
    fn on_transaction_input(&mut self, txin: &TxIn) {
        self.0.decode.as_mut().unwrap().cur_inputs.push(txin.previous_output);
    }
    fn on_transaction_output(&mut self, _txout: &TxOut) {}
    fn on_transaction_end(&mut self, _locktime: LockTime, txid: Txid) {
        let d = self.0.decode.as_mut().unwrap();
        let inputs = std::mem::take(&mut d.cur_inputs);
        d.txs.push((txid, inputs));
    }
    fn on_block_end(&mut self) {
        self.0.decode.as_mut().unwrap().ended = true;
    }
}

impl RecListener {
    fn take_decode(&self, st: &mut LisState, block_hash: &BlockHash, what: &str) -> Vec<(Txid, Vec<OutPoint>)> {
        match st.decode.take() {
            None => {
                st.anomalies.push(format!("{} without any pushed block", what));
                vec![]
            }
            Some(d) => {
                if d.block_hash != Some(*block_hash) {
                    st.anomalies.push(format!("{} for a block other than the one pushed", what));
                }
                d.txs
            }
        }
    }
}

impl ChainListener for RecListener {
    type Key = OutPoint;

    fn key(&self) -> &OutPoint {
        &self.key
    }
    fn on_add_block(&self, txs: &[Transaction], _block_hash: &BlockHash) -> (Vec<OutPoint>, Vec<OutPoint>) {
        self.st.lock().unwrap().forward(&tx_shape(txs))
    }
    fn on_add_streamed_block_end(&self, block_hash: &BlockHash) -> (Vec<OutPoint>, Vec<OutPoint>) {
        let mut st = self.st.lock().unwrap();
        let txs = self.take_decode(&mut st, block_hash, "streamed add");
        st.forward(&txs)
    }
    fn on_remove_block(&self, txs: &[Transaction], _block_hash: &BlockHash) -> (Vec<OutPoint>, Vec<OutPoint>) {
        self.st.lock().unwrap().backward(&tx_shape(txs))
    }
    fn on_remove_streamed_block_end(&self, block_hash: &BlockHash) -> (Vec<OutPoint>, Vec<OutPoint>) {
        let mut st = self.st.lock().unwrap();
        let txs = self.take_decode(&mut st, block_hash, "streamed remove");
        st.backward(&txs)
    }
    fn on_streamed_block_abort(&self) {
        self.st.lock().unwrap().decode = None;
    }
    fn on_push<F>(&self, f: F)
    where
        F: FnOnce(&mut dyn PushListener),
    {
        let mut st = self.st.lock().unwrap();
        if st.decode.is_none() {
            st.decode = Some(Decode::default());
        }
        f(&mut Push(&mut st));
    }
}

// ---------------------------------------------------------------------------------------------
// observation of a tracker

#[derive(Clone, Debug, PartialEq)]
pub struct SlotSnap {
    pub txid_watches: BTreeSet<Txid>,
    pub watches: BTreeSet<OutPoint>,
    pub seen: BTreeSet<OutPoint>,
}

impl SlotSnap {
    fn of(s: &ListenSlot) -> SlotSnap {
        SlotSnap { txid_watches: s.txid_watches.clone(), watches: s.watches.clone(), seen: s.seen.clone() }
    }
    fn slot(&self) -> ListenSlot {
        ListenSlot { txid_watches: self.txid_watches.clone(), watches: self.watches.clone(), seen: self.seen.clone() }
    }
}

/// Everything observable about a `ChainTracker<RecListener>`.
#[derive(Clone, Debug, PartialEq)]
pub struct Snap {
    pub tip: Vec<u8>,
    pub height: u32,
    pub headers: Vec<Vec<u8>>,
    pub network: Network,
    pub listeners: Vec<(OutPoint, LisState, SlotSnap)>,
}

impl Snap {
    pub fn take(t: &ChainTracker<RecListener>) -> Snap {
        Snap {
            tip: serialize(t.tip()),
            height: t.height(),
            headers: t.headers().iter().map(|h| serialize(h)).collect(),
            network: t.network,
            listeners: t.listeners.iter().map(|(k, (l, s))| (*k, l.state(), SlotSnap::of(s))).collect(),
        }
    }
    /// The components that differ, as (stable component names, human-readable detail).
    /// Component names: "tip", "height", "headers" (remembered header window), "network",
    /// "listener-set", "slot" (a ListenSlot), "listener-decode" (a listener's transient
    /// streamed-block state only), "listener" (any other listener state).
    pub fn diff(&self, o: &Snap) -> (Vec<&'static str>, Vec<String>) {
        let mut c: Vec<&'static str> = vec![];
        let mut d = vec![];
        if self.tip != o.tip {
            c.push("tip");
            d.push("tip".to_string());
        }
        if self.height != o.height {
            c.push("height");
            d.push(format!("height {} -> {}", self.height, o.height));
        }
        if self.headers != o.headers {
            c.push("headers");
            d.push(format!("remembered headers ({} -> {} entries)", self.headers.len(), o.headers.len()));
        }
        if self.network != o.network {
            c.push("network");
            d.push("network".to_string());
        }
        if self.listeners.len() != o.listeners.len() || self.listeners.iter().zip(o.listeners.iter()).any(|(a, b)| a.0 != b.0) {
            c.push("listener-set");
            d.push("listener set".to_string());
        } else {
            let (mut slot, mut dec, mut lis) = (false, false, false);
            for (a, b) in self.listeners.iter().zip(o.listeners.iter()) {
                if a.2 != b.2 {
                    slot = true;
                    d.push(format!("watch slot of listener {}", a.0));
                }
                if a.1 != b.1 {
                    let mut a1 = a.1.clone();
                    a1.decode = b.1.decode.clone();
                    if a1 == b.1 {
                        dec = true;
                    } else {
                        lis = true;
                    }
                    d.push(format!("listener {} state {} -> {}", a.0.vout, a.1.to_json(), b.1.to_json()));
                }
            }
            if slot {
                c.push("slot");
            }
            if dec {
                c.push("listener-decode");
            }
            if lis {
                c.push("listener");
            }
        }
        (c, d)
    }
    pub fn tip_headers(&self) -> Headers {
        deserialize(&self.tip).expect("tip")
    }
    /// Rebuild a tracker from this snapshot the way the persistence layer does.
    pub fn restore(
        &self,
        node_id: PublicKey,
        vf: Arc<dyn ValidatorFactory>,
        trusted: Vec<PublicKey>,
    ) -> ChainTracker<RecListener> {
        let headers: VecDeque<Headers> = self.headers.iter().map(|h| deserialize(h).expect("header")).collect();
        let mut t =
            ChainTracker::restore(headers, self.tip_headers(), self.height, self.network, Default::default(), node_id, vf, trusted);
        for (k, l, s) in self.listeners.iter() {
            t.restore_listener(*k, RecListener::from_state(*k, l.clone()), s.slot());
        }
        t
    }
}

pub enum Res<T> {
    Ok(T),
    Err(TrackerError),
    Panic(String),
}

impl<T> Res<T> {
    pub fn tag(&self) -> &'static str {
        match self {
            Res::Ok(_) => "ok",
            Res::Err(_) => "err",
            Res::Panic(_) => "panic",
        }
    }
}

pub fn catch<T>(f: impl FnOnce() -> Result<T, TrackerError>) -> Res<T> {
    match catch_unwind(AssertUnwindSafe(f)) {
        Ok(Ok(t)) => Res::Ok(t),
        Ok(Err(e)) => Res::Err(e),
        Err(e) => Res::Panic(if let Some(s) = e.downcast_ref::<&str>() {
            s.to_string()
        } else if let Some(s) = e.downcast_ref::<String>() {
            s.clone()
        } else {
            "panic".to_string()
        }),
    }
}

/// Short stable name of a tracker error (no payload).
pub fn err_name(e: &TrackerError) -> &'static str {
    match e {
        TrackerError::InvalidChain => "InvalidChain",
        TrackerError::OrphanBlock(_) => "OrphanBlock",
        TrackerError::InvalidBlock => "InvalidBlock",
        TrackerError::BlockDecodeError => "BlockDecodeError",
        TrackerError::ReorgTooDeep => "ReorgTooDeep",
        TrackerError::InvalidProof => "InvalidProof",
    }
}

#[allow(unused)]
fn _unused(_: bitcoin::Network) {}
