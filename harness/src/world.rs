//! World: a real `Node` with a real persister, a counterparty simulator and BOLT-3 reference
//! builders that do not go through the signer's own `make_*` functions.

use lightning_signer::bitcoin;
use lightning_signer::lightning;

use bitcoin::absolute::LockTime;
use bitcoin::hashes::sha256::Hash as Sha256;
use bitcoin::hashes::Hash;
use bitcoin::secp256k1::ecdsa::Signature;
use bitcoin::secp256k1::{All, Message, PublicKey, Secp256k1, SecretKey};
use bitcoin::sighash::{EcdsaSighashType, SighashCache};
use bitcoin::{Amount, Network, OutPoint, ScriptBuf, Transaction, Txid};
use lightning::ln::chan_utils::{
    build_commitment_secret, build_htlc_transaction, derive_private_key, get_htlc_redeemscript,
    make_funding_redeemscript, ChannelPublicKeys, ChannelTransactionParameters,
    CommitmentTransaction, CounterpartyChannelTransactionParameters, HTLCOutputInCommitment,
    TxCreationKeys,
};
use lightning::ln::channel_keys::{
    DelayedPaymentBasepoint, HtlcBasepoint, RevocationBasepoint,
};
use lightning::types::payment::{PaymentHash, PaymentPreimage};
use lightning_signer::channel::{Channel, ChannelId, ChannelSetup, CommitmentType};
use lightning_signer::node::{Node, NodeConfig, NodeServices};
use lightning_signer::persist::Persist;
use lightning_signer::policy::simple_validator::{
    make_default_simple_policy, SimplePolicy, SimpleValidatorFactory,
};
use lightning_signer::policy::validator::ValidatorFactory;
use lightning_signer::signer::derive::KeyDerivationStyle;
use lightning_signer::tx::tx::HTLCInfo2;
use lightning_signer::util::clock::ManualClock;
use lightning_signer::util::status::Status;
use lightning_signer::util::test_utils::FixedStartingTimeFactory;
use serde::{Deserialize, Serialize};
use std::panic::{catch_unwind, AssertUnwindSafe};
use lightning_signer::prelude::Arc;
use std::time::Duration;
use vls_persist::kvv::memory::MemoryKVVStore;
use vls_persist::kvv::{JsonFormat, KVVPersister, KVVStore, KVV};

pub const INITIAL_COMMITMENT_NUMBER: u64 = (1 << 48) - 1;

pub type MemPersister = KVVPersister<MemoryKVVStore, JsonFormat>;
pub type CloudPersister = KVVPersister<vls_persist::kvv::cloud::CloudKVVStore<MemoryKVVStore>, JsonFormat>;
pub type RedbPersister = KVVPersister<vls_persist::kvv::redb::RedbKVVStore, JsonFormat>;

/// redb mode: the node persists through the store vlsd uses by default, a redb database in its
/// own directory (on tmpfs when there is one: fsync behaviour of the OS is not examined).
pub struct RedbHome {
    pub dir: std::sync::Arc<tempfile::TempDir>,
    pub persister: Arc<RedbPersister>,
}

pub fn redb_tmp_dir() -> tempfile::TempDir {
    if std::path::Path::new("/dev/shm").is_dir() {
        tempfile::Builder::new().prefix("vverif-world-").tempdir_in("/dev/shm").unwrap()
    } else {
        tempfile::Builder::new().prefix("vverif-world-").tempdir().unwrap()
    }
}

/// Result of one request to the signer: a panic is neither acceptance nor refusal.
#[derive(Debug)]
pub enum Out<T> {
    Ok(T),
    Err(Status),
    Panic(String),
}

impl<T> Out<T> {
    pub fn is_ok(&self) -> bool {
        matches!(self, Out::Ok(_))
    }
    pub fn is_err(&self) -> bool {
        matches!(self, Out::Err(_))
    }
    pub fn is_panic(&self) -> bool {
        matches!(self, Out::Panic(_))
    }
    pub fn ok(self) -> Option<T> {
        match self {
            Out::Ok(t) => Some(t),
            _ => None,
        }
    }
    pub fn tag(&self) -> &'static str {
        match self {
            Out::Ok(_) => "ok",
            Out::Err(_) => "err",
            Out::Panic(_) => "panic",
        }
    }
    pub fn err_msg(&self) -> String {
        match self {
            Out::Ok(_) => String::new(),
            Out::Err(s) => s.message().to_string(),
            Out::Panic(s) => format!("PANIC {}", s),
        }
    }
}

pub fn call<T>(f: impl FnOnce() -> Result<T, Status>) -> Out<T> {
    match catch_unwind(AssertUnwindSafe(f)) {
        Ok(Ok(t)) => Out::Ok(t),
        Ok(Err(e)) => Out::Err(e),
        Err(e) => {
            let s = if let Some(s) = e.downcast_ref::<&str>() {
                s.to_string()
            } else if let Some(s) = e.downcast_ref::<String>() {
                s.clone()
            } else {
                "panic".to_string()
            };
            Out::Panic(s)
        }
    }
}

/// An HTLC from the holder's point of view.  `h` indexes the payment-hash table.
#[derive(Clone, Debug, Serialize, Deserialize, PartialEq, Eq, Hash, PartialOrd, Ord)]
pub struct Htlc {
    pub h: u8,
    pub sat: u64,
    pub cltv: u32,
}

/// Commitment content from the holder's point of view: `offered` are HTLCs the holder
/// offered (outgoing), `received` are incoming ones, on either side's commitment.
#[derive(Clone, Debug, Serialize, Deserialize, PartialEq, Eq, Hash)]
pub struct Content {
    pub feerate: u32,
    pub to_holder: u64,
    pub to_cp: u64,
    pub offered: Vec<Htlc>,
    pub received: Vec<Htlc>,
}

pub fn preimage(h: u8) -> PaymentPreimage {
    PaymentPreimage([h.wrapping_add(1); 32])
}

pub fn phash(h: u8) -> PaymentHash {
    PaymentHash(Sha256::hash(&preimage(h).0).to_byte_array())
}

pub fn to_info2(v: &[Htlc]) -> Vec<HTLCInfo2> {
    v.iter().map(|h| HTLCInfo2 { value_sat: h.sat, payment_hash: phash(h.h), cltv_expiry: h.cltv }).collect()
}

impl Content {
    pub fn simple(value_sat: u64, to_cp: u64, fee: u64) -> Content {
        Content { feerate: 1000, to_holder: value_sat - to_cp - fee, to_cp, offered: vec![], received: vec![] }
    }
    pub fn htlc_sum(&self) -> u64 {
        self.offered.iter().chain(self.received.iter()).map(|h| h.sat).sum()
    }
    /// HTLCs in LDK's representation, seen from a given broadcaster
    pub fn oic(&self, holder_is_broadcaster: bool) -> Vec<HTLCOutputInCommitment> {
        let mut v = vec![];
        for (list, holder_offered) in [(&self.offered, true), (&self.received, false)] {
            for h in list.iter() {
                v.push(HTLCOutputInCommitment {
                    offered: holder_offered == holder_is_broadcaster,
                    amount_msat: h.sat * 1000,
                    cltv_expiry: h.cltv,
                    payment_hash: phash(h.h),
                    transaction_output_index: None,
                });
            }
        }
        v
    }
}

#[derive(Clone, Debug, Serialize, Deserialize, PartialEq, Eq, Hash)]
pub struct ChanSpec {
    pub dbid: u64,
    pub peer: u8,
    pub anchors: bool,
    pub outbound: bool,
    pub value_sat: u64,
    pub push_msat: u64,
    pub holder_delay: u16,
    pub cp_delay: u16,
    pub funding_vout: u32,
}

impl ChanSpec {
    pub fn basic(dbid: u64) -> ChanSpec {
        ChanSpec {
            dbid,
            peer: 1,
            anchors: false,
            outbound: true,
            value_sat: 3_000_000,
            push_msat: 0,
            holder_delay: 6,
            cp_delay: 7,
            funding_vout: 0,
        }
    }
}

/// The counterparty's secrets for one channel.
#[derive(Clone)]
pub struct CpKeys {
    pub funding: SecretKey,
    pub revocation_base: SecretKey,
    pub payment: SecretKey,
    pub delayed_base: SecretKey,
    pub htlc_base: SecretKey,
    pub seed: [u8; 32],
}

fn sk_from(tag: &str, a: u64, b: u64) -> SecretKey {
    let mut ctr = 0u32;
    loop {
        let h = Sha256::hash(format!("vverif/{}/{}/{}/{}", tag, a, b, ctr).as_bytes());
        if let Ok(k) = SecretKey::from_slice(&h.to_byte_array()) {
            return k;
        }
        ctr += 1;
    }
}

impl CpKeys {
    pub fn derive(peer: u8, dbid: u64) -> CpKeys {
        CpKeys {
            funding: sk_from("funding", peer as u64, dbid),
            revocation_base: sk_from("revocation", peer as u64, dbid),
            payment: sk_from("payment", peer as u64, dbid),
            delayed_base: sk_from("delayed", peer as u64, dbid),
            htlc_base: sk_from("htlc", peer as u64, dbid),
            seed: Sha256::hash(format!("vverif/seed/{}/{}", peer, dbid).as_bytes()).to_byte_array(),
        }
    }
    pub fn pubkeys(&self, secp: &Secp256k1<All>) -> ChannelPublicKeys {
        ChannelPublicKeys {
            funding_pubkey: PublicKey::from_secret_key(secp, &self.funding),
            revocation_basepoint: RevocationBasepoint(PublicKey::from_secret_key(secp, &self.revocation_base)),
            payment_point: PublicKey::from_secret_key(secp, &self.payment),
            delayed_payment_basepoint: DelayedPaymentBasepoint(PublicKey::from_secret_key(secp, &self.delayed_base)),
            htlc_basepoint: HtlcBasepoint(PublicKey::from_secret_key(secp, &self.htlc_base)),
        }
    }
    /// BOLT-3 per-commitment secret of the counterparty for commitment number n
    pub fn secret(&self, n: u64) -> SecretKey {
        SecretKey::from_slice(&build_commitment_secret(&self.seed, INITIAL_COMMITMENT_NUMBER - n)).unwrap()
    }
    pub fn point(&self, secp: &Secp256k1<All>, n: u64) -> PublicKey {
        PublicKey::from_secret_key(secp, &self.secret(n))
    }
}

pub fn peer_id(peer: u8) -> [u8; 33] {
    let secp = Secp256k1::new();
    PublicKey::from_secret_key(&secp, &sk_from("peer", peer as u64, 0)).serialize()
}

#[derive(Clone)]
pub struct Chan {
    pub id0: ChannelId,
    pub spec: ChanSpec,
    pub setup: ChannelSetup,
    pub cp: CpKeys,
    pub holder_pubkeys: ChannelPublicKeys,
    /// the holder's commitment seed: ghost knowledge used only by oracles
    pub holder_seed: [u8; 32],
    pub is_ready: bool,
    /// permanent channel id given at setup (LDK-style flow), if any: once the channel is ready
    /// requests address it by this id
    pub perm_id: Option<ChannelId>,
}

impl Chan {
    pub fn holder_secret(&self, n: u64) -> [u8; 32] {
        build_commitment_secret(&self.holder_seed, INITIAL_COMMITMENT_NUMBER - n)
    }
    pub fn holder_point(&self, secp: &Secp256k1<All>, n: u64) -> PublicKey {
        PublicKey::from_secret_key(secp, &SecretKey::from_slice(&self.holder_secret(n)).unwrap())
    }
    pub fn params(&self) -> ChannelTransactionParameters {
        ChannelTransactionParameters {
            holder_pubkeys: self.holder_pubkeys.clone(),
            holder_selected_contest_delay: self.setup.holder_selected_contest_delay,
            is_outbound_from_holder: self.setup.is_outbound,
            counterparty_parameters: Some(CounterpartyChannelTransactionParameters {
                pubkeys: self.setup.counterparty_points.clone(),
                selected_contest_delay: self.setup.counterparty_selected_contest_delay,
            }),
            funding_outpoint: Some(lightning::chain::transaction::OutPoint {
                txid: self.setup.funding_outpoint.txid,
                index: self.setup.funding_outpoint.vout as u16,
            }),
            channel_type_features: self.setup.features(),
        }
    }
    pub fn funding_redeemscript(&self) -> ScriptBuf {
        make_funding_redeemscript(&self.holder_pubkeys.funding_pubkey, &self.setup.counterparty_points.funding_pubkey)
    }
    pub fn holder_txkeys(&self, secp: &Secp256k1<All>, point: &PublicKey) -> TxCreationKeys {
        let cp = &self.setup.counterparty_points;
        TxCreationKeys::derive_new(
            secp,
            point,
            &self.holder_pubkeys.delayed_payment_basepoint,
            &self.holder_pubkeys.htlc_basepoint,
            &cp.revocation_basepoint,
            &cp.htlc_basepoint,
        )
    }
    pub fn cp_txkeys(&self, secp: &Secp256k1<All>, point: &PublicKey) -> TxCreationKeys {
        let cp = &self.setup.counterparty_points;
        TxCreationKeys::derive_new(
            secp,
            point,
            &cp.delayed_payment_basepoint,
            &cp.htlc_basepoint,
            &self.holder_pubkeys.revocation_basepoint,
            &self.holder_pubkeys.htlc_basepoint,
        )
    }

    /// Reference holder commitment transaction for number n, built from the setup alone.
    pub fn ref_holder_commitment(&self, secp: &Secp256k1<All>, n: u64, c: &Content) -> CommitmentTransaction {
        let point = self.holder_point(secp, n);
        let keys = self.holder_txkeys(secp, &point);
        let params = self.params();
        let directed = params.as_holder_broadcastable();
        let mut htlcs: Vec<(HTLCOutputInCommitment, ())> = c.oic(true).into_iter().map(|h| (h, ())).collect();
        CommitmentTransaction::new_with_auxiliary_htlc_data(
            INITIAL_COMMITMENT_NUMBER - n,
            c.to_holder,
            c.to_cp,
            self.holder_pubkeys.funding_pubkey,
            self.setup.counterparty_points.funding_pubkey,
            keys,
            c.feerate,
            &mut htlcs,
            &directed,
        )
    }

    /// Reference counterparty commitment transaction for number n and the given point.
    pub fn ref_cp_commitment(&self, secp: &Secp256k1<All>, n: u64, point: &PublicKey, c: &Content) -> CommitmentTransaction {
        let keys = self.cp_txkeys(secp, point);
        let params = self.params();
        let directed = params.as_counterparty_broadcastable();
        let mut htlcs: Vec<(HTLCOutputInCommitment, ())> = c.oic(false).into_iter().map(|h| (h, ())).collect();
        CommitmentTransaction::new_with_auxiliary_htlc_data(
            INITIAL_COMMITMENT_NUMBER - n,
            c.to_cp,
            c.to_holder,
            self.setup.counterparty_points.funding_pubkey,
            self.holder_pubkeys.funding_pubkey,
            keys,
            c.feerate,
            &mut htlcs,
            &directed,
        )
    }

    pub fn commitment_sighash(&self, tx: &Transaction) -> Message {
        let sh = SighashCache::new(tx)
            .p2wsh_signature_hash(0, &self.funding_redeemscript(), Amount::from_sat(self.setup.channel_value_sat), EcdsaSighashType::All)
            .unwrap();
        Message::from_digest(sh.to_byte_array())
    }

    pub fn htlc_sighash_type(&self) -> EcdsaSighashType {
        if self.setup.is_anchors() {
            EcdsaSighashType::SinglePlusAnyoneCanPay
        } else {
            EcdsaSighashType::All
        }
    }

    /// (htlc tx, sighash) for every HTLC of a commitment, in output order
    pub fn htlc_sighashes(&self, ctx: &CommitmentTransaction, holder_is_broadcaster: bool, flag: EcdsaSighashType) -> Vec<(Transaction, Message)> {
        let trusted = ctx.trust();
        let keys = trusted.keys();
        let txid = trusted.txid();
        let features = self.setup.features();
        let feerate = if self.setup.is_zero_fee_htlc() { 0 } else { ctx.feerate_per_kw() };
        let delay = if holder_is_broadcaster {
            self.setup.counterparty_selected_contest_delay
        } else {
            self.setup.holder_selected_contest_delay
        };
        let mut out = vec![];
        for htlc in ctx.htlcs() {
            let htx = build_htlc_transaction(&txid, feerate, delay, htlc, &features, &keys.broadcaster_delayed_payment_key, &keys.revocation_key);
            let rs = get_htlc_redeemscript(htlc, &features, keys);
            let sh = SighashCache::new(&htx)
                .p2wsh_signature_hash(0, &rs, Amount::from_sat(htlc.amount_msat / 1000), flag)
                .unwrap();
            out.push((htx, Message::from_digest(sh.to_byte_array())));
        }
        out
    }
}

/// How the counterparty signs a holder commitment.
#[derive(Clone, Copy, Debug, Serialize, Deserialize, PartialEq, Eq, Hash)]
pub enum SigKind {
    Valid,
    /// commitment signature over a different content (to_holder - 1)
    CommitOverOtherContent,
    /// commitment signature made with a key that is not the funding key
    CommitWrongKey,
    /// commitment signature for number n+1
    CommitOtherNumber,
    /// HTLC signatures reversed (only differs with >= 2 HTLCs)
    HtlcReversed,
    /// last HTLC signature made with the wrong key
    HtlcWrongKey,
    /// HTLC signatures with the wrong sighash flag
    HtlcWrongFlag,
    /// last HTLC signature made over a transaction with another contest delay
    HtlcOtherDelay,
    /// the list of HTLC signatures lacks its last entry (only differs with >= 1 HTLC)
    HtlcMissingLast,
    /// the list of HTLC signatures has one entry too many (a copy of the commitment signature)
    HtlcExtra,
}

pub const SIG_KINDS: [SigKind; 8] = [
    SigKind::Valid,
    SigKind::CommitOverOtherContent,
    SigKind::CommitWrongKey,
    SigKind::CommitOtherNumber,
    SigKind::HtlcReversed,
    SigKind::HtlcWrongKey,
    SigKind::HtlcWrongFlag,
    SigKind::HtlcOtherDelay,
];

pub struct CpSigned {
    pub commit_sig: Signature,
    pub htlc_sigs: Vec<Signature>,
    /// the reference transaction for the requested (n, content)
    pub tx: CommitmentTransaction,
    /// true iff every supplied signature verifies against the reference transactions
    pub all_valid: bool,
}

impl Chan {
    /// The counterparty signs the holder's commitment n with the given content.
    pub fn cp_sign_holder(&self, secp: &Secp256k1<All>, n: u64, c: &Content, kind: SigKind) -> CpSigned {
        let tx = self.ref_holder_commitment(secp, n, c);
        let point = self.holder_point(secp, n);
        let built = tx.trust().built_transaction().transaction.clone();
        let wrong_key = sk_from("wrong", 0, 0);
        let commit_sig = match kind {
            SigKind::CommitOverOtherContent => {
                let mut c2 = c.clone();
                if c2.to_holder > 1000 {
                    c2.to_holder -= 1;
                } else {
                    c2.to_cp = c2.to_cp.wrapping_add(1);
                }
                let tx2 = self.ref_holder_commitment(secp, n, &c2);
                secp.sign_ecdsa(&self.commitment_sighash(&tx2.trust().built_transaction().transaction), &self.cp.funding)
            }
            SigKind::CommitWrongKey => secp.sign_ecdsa(&self.commitment_sighash(&built), &wrong_key),
            SigKind::CommitOtherNumber => {
                let tx2 = self.ref_holder_commitment(secp, n + 1, c);
                secp.sign_ecdsa(&self.commitment_sighash(&tx2.trust().built_transaction().transaction), &self.cp.funding)
            }
            _ => secp.sign_ecdsa(&self.commitment_sighash(&built), &self.cp.funding),
        };
        let htlc_key = derive_private_key(secp, &point, &self.cp.htlc_base);
        let flag = match kind {
            SigKind::HtlcWrongFlag =>
                if self.setup.is_anchors() {
                    EcdsaSighashType::All
                } else {
                    EcdsaSighashType::SinglePlusAnyoneCanPay
                },
            _ => self.htlc_sighash_type(),
        };
        let shs = self.htlc_sighashes(&tx, true, flag);
        let mut htlc_sigs: Vec<Signature> = shs.iter().map(|(_, m)| secp.sign_ecdsa(m, &htlc_key)).collect();
        match kind {
            SigKind::HtlcReversed => htlc_sigs.reverse(),
            SigKind::HtlcWrongKey =>
                if let Some(last) = shs.last() {
                    let l = htlc_sigs.len();
                    htlc_sigs[l - 1] = secp.sign_ecdsa(&last.1, &wrong_key);
                },
            SigKind::HtlcOtherDelay =>
                if !shs.is_empty() {
                    // sign the last HTLC tx built with delay+1
                    let trusted = tx.trust();
                    let keys = trusted.keys();
                    let htlc = tx.htlcs().last().unwrap();
                    let features = self.setup.features();
                    let feerate = if self.setup.is_zero_fee_htlc() { 0 } else { tx.feerate_per_kw() };
                    let htx = build_htlc_transaction(
                        &trusted.txid(),
                        feerate,
                        self.setup.counterparty_selected_contest_delay.wrapping_add(1),
                        htlc,
                        &features,
                        &keys.broadcaster_delayed_payment_key,
                        &keys.revocation_key,
                    );
                    let rs = get_htlc_redeemscript(htlc, &features, keys);
                    let sh = SighashCache::new(&htx)
                        .p2wsh_signature_hash(0, &rs, Amount::from_sat(htlc.amount_msat / 1000), self.htlc_sighash_type())
                        .unwrap();
                    let l = htlc_sigs.len();
                    htlc_sigs[l - 1] = secp.sign_ecdsa(&Message::from_digest(sh.to_byte_array()), &htlc_key);
                },
            SigKind::HtlcMissingLast => {
                htlc_sigs.pop();
            }
            SigKind::HtlcExtra => htlc_sigs.push(commit_sig),
            _ => {}
        }
        let all_valid = self.verify_holder_sigs(secp, n, c, &commit_sig, &htlc_sigs);
        CpSigned { commit_sig, htlc_sigs, tx, all_valid }
    }

    /// Independent verification (libsecp256k1) of counterparty signatures on holder commitment
    /// n with content c: commitment and every HTLC.
    pub fn verify_holder_sigs(&self, secp: &Secp256k1<All>, n: u64, c: &Content, commit_sig: &Signature, htlc_sigs: &[Signature]) -> bool {
        let tx = self.ref_holder_commitment(secp, n, c);
        let built = tx.trust().built_transaction().transaction.clone();
        if secp.verify_ecdsa(&self.commitment_sighash(&built), commit_sig, &self.setup.counterparty_points.funding_pubkey).is_err() {
            return false;
        }
        let point = self.holder_point(secp, n);
        let htlc_pub = PublicKey::from_secret_key(secp, &derive_private_key(secp, &point, &self.cp.htlc_base));
        let shs = self.htlc_sighashes(&tx, true, self.htlc_sighash_type());
        // every HTLC needs its signature; surplus entries at the end carry no meaning
        if htlc_sigs.len() < shs.len() {
            return false;
        }
        for ((_, m), s) in shs.iter().zip(htlc_sigs.iter()) {
            if secp.verify_ecdsa(m, s, &htlc_pub).is_err() {
                return false;
            }
        }
        true
    }
}

#[derive(Clone, Debug)]
pub struct WorldCfg {
    pub seed: [u8; 32],
    pub network: Network,
    pub style: KeyDerivationStyle,
    pub policy: SimplePolicy,
    pub now_secs: u64,
    /// trusted TXO oracle keys the node is configured with (plain memory-store worlds)
    pub trusted_oracles: Vec<PublicKey>,
    /// the node is created with `use_checkpoints = false` (chain followed from the genesis block)
    pub no_checkpoints: bool,
}

impl WorldCfg {
    pub fn default_testnet() -> WorldCfg {
        WorldCfg {
            seed: [0x42; 32],
            network: Network::Testnet,
            style: KeyDerivationStyle::Native,
            policy: make_default_simple_policy(Network::Testnet),
            now_secs: 1_700_000_000,
            trusted_oracles: vec![],
            no_checkpoints: false,
        }
    }
}

/// One-shot storage fault: when armed, the next `update_channel` fails (nothing is written) and the
/// switch disarms itself.  Shared by every node of a world (also across restarts).
#[derive(Default)]
pub struct FaultSwitch {
    fail_next_update_channel: std::sync::atomic::AtomicBool,
    pub fired: std::sync::atomic::AtomicU32,
}

impl FaultSwitch {
    pub fn arm(&self) {
        self.fail_next_update_channel.store(true, std::sync::atomic::Ordering::SeqCst);
    }
    pub fn disarm(&self) {
        self.fail_next_update_channel.store(false, std::sync::atomic::Ordering::SeqCst);
    }
}

/// `Persist` wrapper around the in-memory persister that injects the armed fault.
pub struct FaultyPersist {
    pub inner: Arc<MemPersister>,
    pub switch: std::sync::Arc<FaultSwitch>,
}

impl lightning_signer::SendSync for FaultyPersist {}

impl Persist for FaultyPersist {
    fn enter(&self) -> Result<(), lightning_signer::persist::Error> { self.inner.enter() }
    fn prepare(&self) -> lightning_signer::persist::Mutations { Persist::prepare(&*self.inner) }
    fn commit(&self) -> Result<(), lightning_signer::persist::Error> { Persist::commit(&*self.inner) }
    fn put_batch_unlogged(&self, m: lightning_signer::persist::Mutations) -> Result<(), lightning_signer::persist::Error> { Persist::put_batch_unlogged(&*self.inner, m) }
    fn new_node(&self, node_id: &PublicKey, config: &NodeConfig, state: &lightning_signer::node::NodeState) -> Result<(), lightning_signer::persist::Error> { self.inner.new_node(node_id, config, state) }
    fn update_node(&self, node_id: &PublicKey, state: &lightning_signer::node::NodeState) -> Result<(), lightning_signer::persist::Error> { self.inner.update_node(node_id, state) }
    fn delete_node(&self, node_id: &PublicKey) -> Result<(), lightning_signer::persist::Error> { self.inner.delete_node(node_id) }
    fn new_channel(&self, node_id: &PublicKey, stub: &lightning_signer::channel::ChannelStub) -> Result<(), lightning_signer::persist::Error> { self.inner.new_channel(node_id, stub) }
    fn delete_channel(&self, node_id: &PublicKey, channel: &ChannelId) -> Result<(), lightning_signer::persist::Error> { self.inner.delete_channel(node_id, channel) }
    fn new_tracker(&self, node_id: &PublicKey, tracker: &lightning_signer::chain::tracker::ChainTracker<lightning_signer::monitor::ChainMonitor>) -> Result<(), lightning_signer::persist::Error> { self.inner.new_tracker(node_id, tracker) }
    fn update_tracker(&self, node_id: &PublicKey, tracker: &lightning_signer::chain::tracker::ChainTracker<lightning_signer::monitor::ChainMonitor>) -> Result<(), lightning_signer::persist::Error> { self.inner.update_tracker(node_id, tracker) }
    fn get_tracker(&self, node_id: PublicKey, validator_factory: Arc<dyn ValidatorFactory>) -> Result<(lightning_signer::chain::tracker::ChainTracker<lightning_signer::monitor::ChainMonitor>, Vec<lightning_signer::persist::ChainTrackerListenerEntry>), lightning_signer::persist::Error> { self.inner.get_tracker(node_id, validator_factory) }
    fn update_channel(&self, node_id: &PublicKey, channel: &Channel) -> Result<(), lightning_signer::persist::Error> {
        if self.switch.fail_next_update_channel.swap(false, std::sync::atomic::Ordering::SeqCst) {
            self.switch.fired.fetch_add(1, std::sync::atomic::Ordering::SeqCst);
            return Err(lightning_signer::persist::Error::Unavailable("injected storage fault".into()));
        }
        self.inner.update_channel(node_id, channel)
    }
    fn get_channel(&self, node_id: &PublicKey, channel_id: &ChannelId) -> Result<lightning_signer::persist::model::ChannelEntry, lightning_signer::persist::Error> { self.inner.get_channel(node_id, channel_id) }
    fn get_node_channels(&self, node_id: &PublicKey) -> Result<Vec<(ChannelId, lightning_signer::persist::model::ChannelEntry)>, lightning_signer::persist::Error> { self.inner.get_node_channels(node_id) }
    fn update_node_allowlist(&self, node_id: &PublicKey, allowlist: Vec<String>) -> Result<(), lightning_signer::persist::Error> { self.inner.update_node_allowlist(node_id, allowlist) }
    fn get_node_allowlist(&self, node_id: &PublicKey) -> Result<Vec<String>, lightning_signer::persist::Error> { self.inner.get_node_allowlist(node_id) }
    fn get_nodes(&self) -> Result<Vec<(PublicKey, lightning_signer::persist::model::NodeEntry)>, lightning_signer::persist::Error> { self.inner.get_nodes() }
    fn clear_database(&self) -> Result<(), lightning_signer::persist::Error> { Persist::clear_database(&*self.inner) }
    fn on_initial_restore(&self) -> bool { self.inner.on_initial_restore() }
    fn recovery_required(&self) -> bool { self.inner.recovery_required() }
    fn begin_replication(&self) -> Result<lightning_signer::persist::Mutations, lightning_signer::persist::Error> { self.inner.begin_replication() }
    fn signer_id(&self) -> lightning_signer::persist::SignerId { Persist::signer_id(&*self.inner) }
}

pub struct World {
    pub cfg: WorldCfg,
    pub secp: Secp256k1<All>,
    pub node: Arc<Node>,
    pub store: Arc<MemPersister>,
    /// cloud-staged mode: the node's persister is this transactional store (enter / prepare /
    /// commit envelope around every request, as vlsd does); `store` is then unused
    pub cloud: Option<Arc<CloudPersister>>,
    pub clock: Arc<ManualClock>,
    pub vfactory: Arc<dyn ValidatorFactory>,
    pub chans: Vec<Chan>,
    pub restarts: u32,
    /// storage fault injection (plain memory-store worlds only)
    pub fault: std::sync::Arc<FaultSwitch>,
    /// backup mode: the node persists through vls-persist's BackupPersister(main = `store`,
    /// backup = this store)
    pub backup: Option<Arc<MemPersister>>,
    /// redb mode: the node's persister is a redb database on disk; `store` is then unused
    pub redb: Option<RedbHome>,
}

const SIGNER_ID: [u8; 16] = [3u8; 16];

impl World {
    pub fn services(&self, store: Arc<MemPersister>) -> NodeServices {
        NodeServices {
            validator_factory: self.vfactory.clone(),
            starting_time_factory: FixedStartingTimeFactory::new(1, 1),
            persister: store,
            clock: self.clock.clone(),
            trusted_oracle_pubkeys: vec![],
        }
    }

    pub fn new(cfg: WorldCfg) -> World {
        let vfactory: Arc<dyn ValidatorFactory> = Arc::new(SimpleValidatorFactory::new_with_policy(cfg.policy.clone()));
        Self::new_with_factory(cfg, vfactory)
    }

    /// A signer with the validator factory vlsd uses by default: OnchainValidatorFactory wrapping
    /// the simple validator with the configured policy.
    pub fn new_onchain(cfg: WorldCfg) -> World {
        let inner = SimpleValidatorFactory::new_with_policy(cfg.policy.clone());
        let vfactory: Arc<dyn ValidatorFactory> = Arc::new(lightning_signer::policy::onchain_validator::OnchainValidatorFactory::new_with_simple_factory(inner));
        Self::new_with_factory(cfg, vfactory)
    }

    pub fn new_with_factory(cfg: WorldCfg, vfactory: Arc<dyn ValidatorFactory>) -> World {
        let store: Arc<MemPersister> = Arc::new(KVVPersister(MemoryKVVStore::new(SIGNER_ID), JsonFormat));
        let clock = Arc::new(ManualClock::new(Duration::from_secs(cfg.now_secs)));
        let fault = std::sync::Arc::new(FaultSwitch::default());
        let services = NodeServices {
            validator_factory: vfactory.clone(),
            starting_time_factory: FixedStartingTimeFactory::new(1, 1),
            persister: Arc::new(FaultyPersist { inner: store.clone(), switch: fault.clone() }),
            clock: clock.clone(),
            trusted_oracle_pubkeys: cfg.trusted_oracles.clone(),
        };
        let mut config = NodeConfig::new(cfg.network);
        config.key_derivation_style = cfg.style;
        if cfg.no_checkpoints {
            config.use_checkpoints = false;
        }
        let node = Arc::new(Node::new(config, &cfg.seed, vec![], services));
        // as HandlerBuilder::build does for a new node
        node.add_allowlist(&[]).expect("allowlist");
        store.new_node(&node.get_id(), &config, &*node.get_state()).expect("new_node");
        store.new_tracker(&node.get_id(), &node.get_tracker()).expect("new_tracker");
        World { cfg, secp: Secp256k1::new(), node, store, cloud: None, clock, vfactory, chans: vec![], restarts: 0, fault, backup: None, redb: None }
    }

    /// A world whose node persists through KVVPersister<RedbKVVStore> (vlsd's default store).
    pub fn new_redb(cfg: WorldCfg, vfactory: Arc<dyn ValidatorFactory>) -> World {
        let dir = std::sync::Arc::new(redb_tmp_dir());
        let persister: Arc<RedbPersister> = Arc::new(KVVPersister(vls_persist::kvv::redb::RedbKVVStore::new(dir.path().join("db")), JsonFormat));
        let store: Arc<MemPersister> = Arc::new(KVVPersister(MemoryKVVStore::new(SIGNER_ID), JsonFormat));
        let clock = Arc::new(ManualClock::new(Duration::from_secs(cfg.now_secs)));
        let services = NodeServices {
            validator_factory: vfactory.clone(),
            starting_time_factory: FixedStartingTimeFactory::new(1, 1),
            persister: persister.clone(),
            clock: clock.clone(),
            trusted_oracle_pubkeys: cfg.trusted_oracles.clone(),
        };
        let mut config = NodeConfig::new(cfg.network);
        config.key_derivation_style = cfg.style;
        let node = Arc::new(Node::new(config, &cfg.seed, vec![], services));
        node.add_allowlist(&[]).expect("allowlist");
        persister.new_node(&node.get_id(), &config, &*node.get_state()).expect("new_node");
        persister.new_tracker(&node.get_id(), &node.get_tracker()).expect("new_tracker");
        World { cfg, secp: Secp256k1::new(), node, store, cloud: None, clock, vfactory, chans: vec![], restarts: 0, fault: std::sync::Arc::new(FaultSwitch::default()), backup: None, redb: Some(RedbHome { dir, persister }) }
    }

    /// redb mode: a second signer from a byte copy of the database directory, opened afresh (the
    /// reopen path of RedbKVVStore: version cache rebuilt from the file).
    pub fn restore_twin_redb(&self) -> Out<(Arc<Node>, RedbHome)> {
        let home = self.redb.as_ref().expect("redb mode");
        let src = home.dir.path().join("db");
        let vf = self.vfactory.clone();
        let clock = self.clock.clone();
        let seed = self.cfg.seed;
        let oracles = self.cfg.trusted_oracles.clone();
        call(move || {
            let dir = std::sync::Arc::new(redb_tmp_dir());
            let dst = dir.path().join("db");
            std::fs::create_dir(&dst).expect("mkdir");
            for e in std::fs::read_dir(&src).expect("read_dir") {
                let e = e.expect("dir entry");
                std::fs::copy(e.path(), dst.join(e.file_name())).expect("copy database file");
            }
            let persister: Arc<RedbPersister> = Arc::new(KVVPersister(vls_persist::kvv::redb::RedbKVVStore::new(&dst), JsonFormat));
            let services = NodeServices {
                validator_factory: vf,
                starting_time_factory: FixedStartingTimeFactory::new(1, 1),
                persister: persister.clone(),
                clock,
                trusted_oracle_pubkeys: oracles,
            };
            let nodes = persister.get_nodes().map_err(|e| Status::internal(format!("get_nodes: {:?}", e)))?;
            if nodes.len() != 1 {
                return Err(Status::internal(format!("{} nodes in store", nodes.len())));
            }
            let (node_id, entry) = nodes.into_iter().next().unwrap();
            let node = Node::restore_node(&node_id, entry, &seed, services)?;
            Ok((node, RedbHome { dir, persister }))
        })
    }

    /// A world whose node persists through CloudKVVStore<MemoryKVVStore>.
    pub fn new_cloud(cfg: WorldCfg, vfactory: Arc<dyn ValidatorFactory>) -> World {
        let cloud: Arc<CloudPersister> = Arc::new(KVVPersister(vls_persist::kvv::cloud::CloudKVVStore::new(MemoryKVVStore::new(SIGNER_ID)), JsonFormat));
        let store: Arc<MemPersister> = Arc::new(KVVPersister(MemoryKVVStore::new(SIGNER_ID), JsonFormat));
        let clock = Arc::new(ManualClock::new(Duration::from_secs(cfg.now_secs)));
        let services = NodeServices {
            validator_factory: vfactory.clone(),
            starting_time_factory: FixedStartingTimeFactory::new(1, 1),
            persister: cloud.clone(),
            clock: clock.clone(),
            trusted_oracle_pubkeys: vec![],
        };
        let mut config = NodeConfig::new(cfg.network);
        config.key_derivation_style = cfg.style;
        cloud.enter().expect("enter");
        let node = Arc::new(Node::new(config, &cfg.seed, vec![], services));
        node.add_allowlist(&[]).expect("allowlist");
        cloud.new_node(&node.get_id(), &config, &*node.get_state()).expect("new_node");
        cloud.new_tracker(&node.get_id(), &node.get_tracker()).expect("new_tracker");
        let _ = cloud.prepare();
        cloud.commit().expect("commit");
        World { cfg, secp: Secp256k1::new(), node, store, cloud: Some(cloud), clock, vfactory, chans: vec![], restarts: 0, fault: std::sync::Arc::new(FaultSwitch::default()), backup: None, redb: None }
    }

    /// A world whose node persists through BackupPersister(main, backup), both in-memory KVV
    /// persisters; `store` is the main one, `backup` the other.
    pub fn new_backup(cfg: WorldCfg, vfactory: Arc<dyn ValidatorFactory>) -> World {
        let store: Arc<MemPersister> = Arc::new(KVVPersister(MemoryKVVStore::new(SIGNER_ID), JsonFormat));
        let backup: Arc<MemPersister> = Arc::new(KVVPersister(MemoryKVVStore::new(SIGNER_ID), JsonFormat));
        let clock = Arc::new(ManualClock::new(Duration::from_secs(cfg.now_secs)));
        let fault = std::sync::Arc::new(FaultSwitch::default());
        let composite: Arc<dyn Persist> = Arc::new(vls_persist::backup_persister::BackupPersister::new(
            FaultyPersist { inner: store.clone(), switch: fault.clone() },
            FaultyPersist { inner: backup.clone(), switch: std::sync::Arc::new(FaultSwitch::default()) },
        ));
        let services = NodeServices {
            validator_factory: vfactory.clone(),
            starting_time_factory: FixedStartingTimeFactory::new(1, 1),
            persister: composite.clone(),
            clock: clock.clone(),
            trusted_oracle_pubkeys: vec![],
        };
        let mut config = NodeConfig::new(cfg.network);
        config.key_derivation_style = cfg.style;
        let node = Arc::new(Node::new(config, &cfg.seed, vec![], services));
        node.add_allowlist(&[]).expect("allowlist");
        composite.new_node(&node.get_id(), &config, &*node.get_state()).expect("new_node");
        composite.new_tracker(&node.get_id(), &node.get_tracker()).expect("new_tracker");
        World { cfg, secp: Secp256k1::new(), node, store, cloud: None, clock, vfactory, chans: vec![], restarts: 0, fault, backup: Some(backup), redb: None }
    }

    /// Dump of the backup store (backup mode).
    pub fn backup_dump(&self) -> Vec<(String, u64, Vec<u8>)> {
        match &self.backup {
            Some(b) => b.0.get_prefix("").unwrap().map(|k| { let (k, (v, val)) = k.into_inner(); (k, v, val) }).collect(),
            None => vec![],
        }
    }

    /// Backup mode: a second signer restored from a copy of the BACKUP store alone.
    pub fn restore_twin_from_backup(&self) -> Out<Arc<Node>> {
        let dump = self.backup_dump();
        let vf = self.vfactory.clone();
        let clock = self.clock.clone();
        let seed = self.cfg.seed;
        call(move || {
            let ms = MemoryKVVStore::new(SIGNER_ID);
            ms.put_batch(dump.into_iter().map(|(k, v, val)| KVV(k, (v, val))).collect()).expect("copy store");
            let store: Arc<MemPersister> = Arc::new(KVVPersister(ms, JsonFormat));
            let services = NodeServices {
                validator_factory: vf,
                starting_time_factory: FixedStartingTimeFactory::new(1, 1),
                persister: store.clone(),
                clock,
                trusted_oracle_pubkeys: vec![],
            };
            let nodes = store.get_nodes().map_err(|e| Status::internal(format!("get_nodes: {:?}", e)))?;
            if nodes.len() != 1 {
                return Err(Status::internal(format!("{} nodes in the backup store", nodes.len())));
            }
            let (node_id, entry) = nodes.into_iter().next().unwrap();
            Node::restore_node(&node_id, entry, &seed, services)
        })
    }

    /// Run one request inside the persister's transaction envelope (no-op envelope for the
    /// plain store).  Returns the result and, in cloud mode, the mutations reported by prepare().
    pub fn txn<R>(&self, f: impl FnOnce() -> R) -> (R, Option<lightning_signer::persist::Mutations>) {
        match &self.cloud {
            None => (f(), None),
            Some(c) => {
                c.enter().expect("enter");
                let r = f();
                let muts = c.prepare();
                c.commit().expect("commit");
                (r, Some(muts))
            }
        }
    }

    pub fn channel_id(spec: &ChanSpec) -> ChannelId {
        ChannelId::new_from_peer_id_and_oid(&peer_id(spec.peer), spec.dbid)
    }

    pub fn make_setup(&self, spec: &ChanSpec) -> (ChannelSetup, CpKeys) {
        let cp = CpKeys::derive(spec.peer, spec.dbid);
        let mut txid = [0u8; 32];
        txid[0] = spec.peer;
        txid[1..9].copy_from_slice(&spec.dbid.to_le_bytes());
        txid[31] = 0x77;
        let setup = ChannelSetup {
            is_outbound: spec.outbound,
            channel_value_sat: spec.value_sat,
            push_value_msat: spec.push_msat,
            funding_outpoint: OutPoint { txid: Txid::from_slice(&txid).unwrap(), vout: spec.funding_vout },
            holder_selected_contest_delay: spec.holder_delay,
            holder_shutdown_script: None,
            counterparty_points: cp.pubkeys(&self.secp),
            counterparty_selected_contest_delay: spec.cp_delay,
            counterparty_shutdown_script: None,
            commitment_type: if spec.anchors { CommitmentType::AnchorsZeroFeeHtlc } else { CommitmentType::StaticRemoteKey },
        };
        (setup, cp)
    }

    /// new_channel(dbid, peer): creates the stub.  Returns the index in `chans`.
    pub fn new_stub(&mut self, spec: &ChanSpec) -> Out<usize> {
        let node = self.node.clone();
        let pid = peer_id(spec.peer);
        let (r, _) = self.txn(|| call(|| node.new_channel(spec.dbid, &pid, &node).map(|(id, _)| id)));
        match r {
            Out::Ok(id0) => {
                let (setup, cp) = self.make_setup(spec);
                let (holder_pubkeys, holder_seed) = self
                    .node
                    .with_channel_base(&id0, |b| Ok(b.get_channel_basepoints()))
                    .map(|pk| {
                        let slot = self.node.get_channel(&id0).unwrap();
                        let g = slot.lock().unwrap();
                        let seed = match &*g {
                            lightning_signer::channel::ChannelSlot::Stub(s) => s.keys.commitment_seed,
                            lightning_signer::channel::ChannelSlot::Ready(c) => c.keys.commitment_seed,
                        };
                        (pk, seed)
                    })
                    .unwrap();
                if let Some(i) = self.chans.iter().position(|c| c.id0 == id0) {
                    return Out::Ok(i);
                }
                self.chans.push(Chan { id0, spec: spec.clone(), setup, cp, holder_pubkeys, holder_seed, is_ready: false, perm_id: None });
                Out::Ok(self.chans.len() - 1)
            }
            Out::Err(e) => Out::Err(e),
            Out::Panic(p) => Out::Panic(p),
        }
    }

    pub fn setup_chan(&mut self, ci: usize) -> Out<()> {
        let node = self.node.clone();
        let id0 = self.chans[ci].id0.clone();
        let setup = self.chans[ci].setup.clone();
        let perm = self.chans[ci].perm_id.clone();
        let (r, _) = self.txn(|| call(|| node.setup_channel(id0.clone(), perm.clone(), setup.clone(), &bitcoin::bip32::DerivationPath::master()).map(|_| ())));
        if r.is_ok() {
            self.chans[ci].is_ready = true;
            // commitment seed may be re-derived at setup: refresh ghost knowledge
            let seed = self.node.with_channel(&id0, |c| Ok(c.keys.commitment_seed)).unwrap();
            self.chans[ci].holder_seed = seed;
        }
        r
    }

    /// Convenience: stub + setup, panicking on failure (harness precondition).
    pub fn open(&mut self, spec: &ChanSpec) -> usize {
        let ci = match self.new_stub(spec) {
            Out::Ok(i) => i,
            o => panic!("new_stub failed: {}", o.err_msg()),
        };
        match self.setup_chan(ci) {
            Out::Ok(()) => {}
            o => panic!("setup_chan failed: {}", o.err_msg()),
        }
        ci
    }

    pub fn with_chan<T>(&self, ci: usize, f: impl FnOnce(&mut Channel) -> Result<T, Status>) -> Out<T> {
        let node = self.node.clone();
        // a ready channel with a permanent id is addressed by it (as a node does after setup)
        let id0 = match (&self.chans[ci].perm_id, self.chans[ci].is_ready) {
            (Some(p), true) => p.clone(),
            _ => self.chans[ci].id0.clone(),
        };
        self.txn(move || call(move || node.with_channel(&id0, f))).0
    }

    /// Dump of the persistent store (key -> (version, value)), ordered.
    pub fn store_dump(&self) -> Vec<(String, u64, Vec<u8>)> {
        if let Some(h) = &self.redb {
            return h.persister.0.get_prefix("").unwrap().map(|k| { let (k, (v, val)) = k.into_inner(); (k, v, val) }).collect();
        }
        match &self.cloud {
            None => self.store.0.get_prefix("").unwrap().map(|k| { let (k, (v, val)) = k.into_inner(); (k, v, val) }).collect(),
            // CloudKVVStore::get_prefix reads the committed local store
            Some(c) => c.0.get_prefix("").unwrap().map(|k| { let (k, (v, val)) = k.into_inner(); (k, v, val) }).collect(),
        }
    }

    /// Build a second signer from a copy of the store alone.
    pub fn restore_twin(&self) -> Out<(Arc<Node>, Arc<MemPersister>)> {
        let dump = self.store_dump();
        let vf = self.vfactory.clone();
        let clock = self.clock.clone();
        let seed = self.cfg.seed;
        let fault = self.fault.clone();
        let oracles = self.cfg.trusted_oracles.clone();
        call(move || {
            let ms = MemoryKVVStore::new(SIGNER_ID);
            ms.put_batch(dump.into_iter().map(|(k, v, val)| KVV(k, (v, val))).collect()).expect("copy store");
            let store: Arc<MemPersister> = Arc::new(KVVPersister(ms, JsonFormat));
            let services = NodeServices {
                validator_factory: vf,
                starting_time_factory: FixedStartingTimeFactory::new(1, 1),
                persister: Arc::new(FaultyPersist { inner: store.clone(), switch: fault }),
                clock,
                trusted_oracle_pubkeys: oracles,
            };
            let nodes = store.get_nodes().map_err(|e| Status::internal(format!("get_nodes: {:?}", e)))?;
            if nodes.len() != 1 {
                return Err(Status::internal(format!("{} nodes in store", nodes.len())));
            }
            let (node_id, entry) = nodes.into_iter().next().unwrap();
            let node = Node::restore_node(&node_id, entry, &seed, services)?;
            Ok((node, store))
        })
    }

    /// Cloud mode: restore through a fresh CloudKVVStore over a copy of the local store.
    pub fn restore_twin_cloud(&self) -> Out<(Arc<Node>, Arc<CloudPersister>)> {
        let dump = self.store_dump();
        let vf = self.vfactory.clone();
        let clock = self.clock.clone();
        let seed = self.cfg.seed;
        call(move || {
            let ms = MemoryKVVStore::new(SIGNER_ID);
            ms.put_batch(dump.into_iter().map(|(k, v, val)| KVV(k, (v, val))).collect()).expect("copy store");
            let cloud: Arc<CloudPersister> = Arc::new(KVVPersister(vls_persist::kvv::cloud::CloudKVVStore::new(ms), JsonFormat));
            let services = NodeServices {
                validator_factory: vf,
                starting_time_factory: FixedStartingTimeFactory::new(1, 1),
                persister: cloud.clone(),
                clock,
                trusted_oracle_pubkeys: vec![],
            };
            cloud.enter().map_err(|e| Status::internal(format!("enter: {:?}", e)))?;
            let nodes = cloud.get_nodes().map_err(|e| Status::internal(format!("get_nodes: {:?}", e)))?;
            if nodes.len() != 1 {
                return Err(Status::internal(format!("{} nodes in store", nodes.len())));
            }
            let (node_id, entry) = nodes.into_iter().next().unwrap();
            let node = Node::restore_node(&node_id, entry, &seed, services)?;
            let _ = cloud.prepare();
            cloud.commit().map_err(|e| Status::internal(format!("commit: {:?}", e)))?;
            Ok((node, cloud))
        })
    }

    /// Restart the signer: continue on a node restored from a copy of the store.
    pub fn restart(&mut self) -> Out<()> {
        if self.redb.is_some() {
            return match self.restore_twin_redb() {
                Out::Ok((node, home)) => {
                    self.node = node;
                    self.redb = Some(home);
                    self.restarts += 1;
                    Out::Ok(())
                }
                Out::Err(e) => Out::Err(e),
                Out::Panic(p) => Out::Panic(p),
            };
        }
        if self.cloud.is_some() {
            return match self.restore_twin_cloud() {
                Out::Ok((node, cloud)) => {
                    self.node = node;
                    self.cloud = Some(cloud);
                    self.restarts += 1;
                    Out::Ok(())
                }
                Out::Err(e) => Out::Err(e),
                Out::Panic(p) => Out::Panic(p),
            };
        }
        match self.restore_twin() {
            Out::Ok((node, store)) => {
                self.node = node;
                self.store = store;
                self.restarts += 1;
                Out::Ok(())
            }
            Out::Err(e) => Out::Err(e),
            Out::Panic(p) => Out::Panic(p),
        }
    }
}

/// Allowlist edit history before a request under test: `entry` (an allowlist entry string such as
/// "address:...") is on the allowlist when this is called.  kind % 7: 0 nothing; 1 remove([entry]);
/// 2 remove([entry, absent]); 3 remove([absent, entry]); 4, 5, 6 = 2, 3, 1 followed by a restart of
/// the signer from its store (plain memory-store worlds).  `absent` is a well-formed entry that was
/// never added.  Returns whether `entry` must still count as allowlisted afterwards (only for
/// kind 0: a removal request that is answered Ok removes every entry it lists, for good).
pub fn allowlist_edit(w: &mut World, entry: &str, absent: &str, kind: u8) -> bool {
    if (7..13).contains(&kind) {
        // replacement requests (what vlsd issues with its allowlist file): 7 / 10 set([]) - the
        // operator emptied the list; 8 / 11 add([absent]) then set([absent]) - the new list is a
        // strict subset of the current one; 9 / 12 set([absent]) - a disjoint new list; 10-12 are
        // followed by a restart of the signer from its store.  A replacement that is answered Ok
        // leaves exactly the entries it lists.
        let node = w.node.clone();
        let k = (kind - 7) % 3;
        if k == 1 {
            let add = vec![absent.to_string()];
            let r = w.txn(|| call(|| node.add_allowlist(&add))).0;
            if !r.is_ok() {
                return true;
            }
        }
        let list: Vec<String> = if k == 0 { vec![] } else { vec![absent.to_string()] };
        let r = w.txn(|| call(|| node.set_allowlist(&list))).0;
        if !r.is_ok() {
            return true;
        }
        if kind >= 10 && w.cloud.is_none() && w.backup.is_none() {
            let r = w.restart();
            if !r.is_ok() {
                panic!("harness: restart after an allowlist replacement failed: {}", r.err_msg());
            }
        }
        return false;
    }
    let k = kind % 7;
    if k == 0 {
        return true;
    }
    let list: Vec<String> = match k {
        1 | 6 => vec![entry.to_string()],
        2 | 4 => vec![entry.to_string(), absent.to_string()],
        _ => vec![absent.to_string(), entry.to_string()],
    };
    let node = w.node.clone();
    let r = w.txn(|| call(|| node.remove_allowlist(&list))).0;
    if !r.is_ok() {
        // a refused removal removes nothing
        return true;
    }
    if k >= 4 && w.cloud.is_none() && w.backup.is_none() {
        let r = w.restart();
        if !r.is_ok() {
            panic!("harness: restart after an allowlist edit failed: {}", r.err_msg());
        }
    }
    false
}

/// histogram label of an allowlist edit kind
pub fn allowlist_edit_label(kind: u8) -> String {
    if (7..13).contains(&kind) {
        format!("set:{}", kind)
    } else {
        format!("{}", kind % 7)
    }
}

/// witscripts for the phase-1 entry points, in output order
pub fn witscripts(chan: &Chan, secp: &Secp256k1<All>, tx: &CommitmentTransaction, holder_is_broadcaster: bool) -> Vec<Vec<u8>> {
    let params = chan.params();
    let directed = if holder_is_broadcaster { params.as_holder_broadcastable() } else { params.as_counterparty_broadcastable() };
    let trusted = tx.trust();
    let keys = trusted.keys();
    let _ = secp;
    let (bf, cf) = if holder_is_broadcaster {
        (chan.holder_pubkeys.funding_pubkey, chan.setup.counterparty_points.funding_pubkey)
    } else {
        (chan.setup.counterparty_points.funding_pubkey, chan.holder_pubkeys.funding_pubkey)
    };
    let htlcs: Vec<HTLCOutputInCommitment> = tx.htlcs().clone();
    let scripts = lightning_signer::util::test_utils::build_tx_scripts(
        keys,
        tx.to_broadcaster_value_sat(),
        tx.to_countersignatory_value_sat(),
        &htlcs,
        &directed,
        &bf,
        &cf,
    )
    .expect("scripts");
    scripts.iter().map(|s| s.as_bytes().to_vec()).collect()
}

#[allow(dead_code)]
pub fn zero_locktime() -> LockTime {
    LockTime::ZERO
}
