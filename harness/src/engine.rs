//! Sharded proptest runner, evidence / replay / known-findings plumbing.
//!
//! A check is a pure function of (code under /repo, VERIF_SEED, tier).  Work is split into a
//! fixed number of shards (16, independent of the machine); each shard owns a proptest
//! `TestRunner` with a fixed seed derived from (VERIF_SEED, property id, shard).

use proptest::strategy::{BoxedStrategy, Strategy, ValueTree};
use proptest::test_runner::{Config, RngSeed, TestCaseError, TestError, TestRunner};
use serde::de::DeserializeOwned;
use serde::Serialize;
use serde_json::{json, Value};
use std::collections::{BTreeMap, BTreeSet, HashSet};
use std::fmt::Debug;
use std::panic::{catch_unwind, AssertUnwindSafe};
use std::path::{Path, PathBuf};
use std::sync::atomic::{AtomicBool, Ordering};
use std::sync::{Arc, Mutex};
use std::time::Instant;

pub const SHARDS: u64 = 16;
pub const VERIF_DIR: &str = "/verif";

/// where evidence and new replay files are written (overridable for scratch runs)
pub fn out_dir() -> PathBuf {
    std::env::var("VERIF_OUT_DIR").map(PathBuf::from).unwrap_or_else(|_| PathBuf::from(VERIF_DIR))
}

#[derive(Clone, Copy, Debug, PartialEq, Eq)]
pub enum Tier {
    Quick,
    Thorough,
}

impl Tier {
    pub fn name(&self) -> &'static str {
        match self {
            Tier::Quick => "quick",
            Tier::Thorough => "thorough",
        }
    }
    /// pick by tier
    pub fn pick<T>(&self, quick: T, thorough: T) -> T {
        match self {
            Tier::Quick => quick,
            Tier::Thorough => thorough,
        }
    }
}

/// An oracle failure.  `sig` is the signature used to match known findings: it names the call
/// site and the shape of the failing history, narrower than the property.
#[derive(Clone, Debug)]
pub struct Violation {
    pub sig: String,
    pub msg: String,
}

impl Violation {
    pub fn new(sig: impl Into<String>, msg: impl Into<String>) -> Self {
        Violation { sig: sig.into(), msg: msg.into() }
    }
}

/// Per-case statistics, filled in by the property while it runs one case.
#[derive(Default)]
pub struct CaseStats {
    /// hash of the abstract shape when the case is non-trivial by the property's rule
    pub nontrivial: Vec<u64>,
    /// class labels to increment in the histogram
    pub classes: BTreeMap<String, u64>,
    /// known findings that fired in this case (signature)
    pub known: Vec<String>,
    /// a written-out sample of this case (only kept for a few cases)
    pub sample: Option<Value>,
}

impl CaseStats {
    pub fn class(&mut self, name: impl Into<String>) {
        *self.classes.entry(name.into()).or_insert(0) += 1;
    }
    pub fn class_n(&mut self, name: impl Into<String>, n: u64) {
        *self.classes.entry(name.into()).or_insert(0) += n;
    }
    pub fn nontrivial_shape(&mut self, shape: impl std::hash::Hash) {
        self.nontrivial.push(hash_of(&shape));
    }
}

pub fn hash_of(x: &impl std::hash::Hash) -> u64 {
    // FNV-1a through a std Hasher with fixed keys: deterministic across runs
    use std::hash::Hasher;
    struct Fnv(u64);
    impl Hasher for Fnv {
        fn finish(&self) -> u64 {
            self.0
        }
        fn write(&mut self, bytes: &[u8]) {
            for b in bytes {
                self.0 ^= *b as u64;
                self.0 = self.0.wrapping_mul(0x100000001b3);
            }
        }
    }
    let mut h = Fnv(0xcbf29ce484222325);
    x.hash(&mut h);
    h.finish()
}

/// Known findings file (committed; never written at run time).
#[derive(Clone, Debug, Default)]
pub struct Known {
    /// (property, signature, what, replay path)
    pub findings: Vec<(String, String, String, Option<String>)>,
    /// regression replays for repaired defects: (property, replay path)
    pub fixed: Vec<(String, String)>,
}

impl Known {
    pub fn load() -> Known {
        let p = Path::new(VERIF_DIR).join("known_findings.json");
        let mut k = Known::default();
        let Ok(txt) = std::fs::read_to_string(&p) else { return k };
        let v: Value = serde_json::from_str(&txt).expect("known_findings.json parses");
        if let Some(a) = v.get("findings").and_then(|a| a.as_array()) {
            for f in a {
                k.findings.push((
                    f["property"].as_str().unwrap_or("").to_string(),
                    f["signature"].as_str().unwrap_or("").to_string(),
                    f["what"].as_str().unwrap_or("").to_string(),
                    f.get("replay").and_then(|r| r.as_str()).map(|s| s.to_string()),
                ));
            }
        }
        if let Some(a) = v.get("fixed").and_then(|a| a.as_array()) {
            for f in a {
                if let Some(r) = f.get("replay").and_then(|r| r.as_str()) {
                    k.fixed.push((f["property"].as_str().unwrap_or("").to_string(), r.to_string()));
                }
            }
        }
        k
    }
    pub fn is_known(&self, prop: &str, sig: &str) -> bool {
        self.findings.iter().any(|(p, s, _, _)| p == prop && s == sig)
    }
    pub fn what(&self, prop: &str, sig: &str) -> String {
        self.findings
            .iter()
            .find(|(p, s, _, _)| p == prop && s == sig)
            .map(|(_, _, w, _)| w.clone())
            .unwrap_or_default()
    }
}

/// What a property module provides.
pub trait Prop: Sync + Send + 'static {
    type Case: Clone + Debug + Serialize + DeserializeOwned + Send + 'static;
    fn id(&self) -> &'static str;
    /// generation + non-triviality rule (goes into the evidence file)
    fn rule(&self) -> String;
    fn assumptions(&self) -> Vec<String>;
    /// cases per shard
    fn cases(&self, tier: Tier) -> u32;
    fn strategy(&self, tier: Tier) -> BoxedStrategy<Self::Case>;
    /// Run one case against the real code.  `Err` = the oracle fired with a signature that is
    /// not a listed known finding.  Known findings are recorded in `st.known` by the property
    /// (use `ctx.known`), which then truncates or continues as appropriate.
    fn run(&self, case: &Self::Case, st: &mut CaseStats, ctx: &Ctx) -> Result<(), Violation>;
    /// minimum number of distinct non-trivial cases below which the run is declared vacuous
    fn min_nontrivial(&self, tier: Tier) -> usize {
        tier.pick(20, 50)
    }
    /// shrink budget
    fn max_shrink_iters(&self) -> u32 {
        400
    }
    /// Optional extra deterministic work executed once before the random shards (e.g. fixed
    /// vectors).  Returns evaluations performed.
    fn fixed_cases(&self) -> Vec<Self::Case> {
        vec![]
    }
}

pub struct Ctx {
    pub id: &'static str,
    pub tier: Tier,
    pub seed: u64,
    pub known: Known,
    /// strict mode (replay): known findings are reported too
    pub strict: bool,
    /// survey mode (VERIF_LIST_SIGS=1): every signature is recorded, none stops the run
    pub list_all: bool,
}

impl Ctx {
    /// Handle an oracle failure: returns Ok(()) if it is a listed known finding (recorded in
    /// `st`), Err otherwise.
    pub fn report(&self, st: &mut CaseStats, v: Violation) -> Result<(), Violation> {
        if !self.strict && (self.known.is_known(self.id, &v.sig) || self.list_all) {
            st.known.push(v.sig);
            Ok(())
        } else {
            Err(v)
        }
    }
}

#[derive(Default)]
struct Agg {
    evaluations: u64,
    nontrivial: HashSet<u64>,
    classes: BTreeMap<String, u64>,
    known: BTreeMap<String, u64>,
    samples: Vec<Value>,
    samples_nt: Vec<Value>,
}

impl Agg {
    fn merge_case(&mut self, st: CaseStats) {
        self.evaluations += 1;
        let nt = !st.nontrivial.is_empty();
        for h in st.nontrivial {
            self.nontrivial.insert(h);
        }
        for (k, v) in st.classes {
            *self.classes.entry(k).or_insert(0) += v;
        }
        for k in st.known {
            *self.known.entry(k).or_insert(0) += 1;
        }
        if let Some(s) = st.sample {
            if nt && self.samples_nt.len() < 2 {
                self.samples_nt.push(s);
            } else if self.samples.len() < 1 {
                self.samples.push(s);
            }
        }
    }
    fn merge(&mut self, o: Agg) {
        self.evaluations += o.evaluations;
        self.nontrivial.extend(o.nontrivial);
        for (k, v) in o.classes {
            *self.classes.entry(k).or_insert(0) += v;
        }
        for (k, v) in o.known {
            *self.known.entry(k).or_insert(0) += v;
        }
        self.samples.extend(o.samples);
        self.samples_nt.extend(o.samples_nt);
    }
}

enum Fail<C> {
    Violation(C, Violation),
    Harness(String),
}

fn shard_seed(seed: u64, id: &str, shard: u64) -> u64 {
    hash_of(&(seed, id, shard, 0x5eedu64))
}

fn panic_msg(e: Box<dyn std::any::Any + Send>) -> String {
    if let Some(s) = e.downcast_ref::<&str>() {
        s.to_string()
    } else if let Some(s) = e.downcast_ref::<String>() {
        s.clone()
    } else {
        "panic".to_string()
    }
}

/// Run one case, converting a harness panic into Err(String).
fn run_case<P: Prop>(
    p: &P,
    case: &P::Case,
    ctx: &Ctx,
) -> Result<(CaseStats, Result<(), Violation>), String> {
    let mut st = CaseStats::default();
    let r = catch_unwind(AssertUnwindSafe(|| p.run(case, &mut st, ctx)));
    match r {
        Ok(r) => Ok((st, r)),
        Err(e) => Err(format!("harness panic: {}", panic_msg(e))),
    }
}

fn write_json(path: &Path, v: &Value) {
    if let Some(d) = path.parent() {
        let _ = std::fs::create_dir_all(d);
    }
    std::fs::write(path, serde_json::to_vec_pretty(v).unwrap()).expect("write json");
}

/// Replay one saved case.  Returns Some(violation) if the oracle fires.
pub fn replay_file<P: Prop>(p: &P, path: &Path, ctx: &Ctx) -> Result<Option<Violation>, String> {
    let txt = std::fs::read_to_string(path).map_err(|e| format!("read {:?}: {}", path, e))?;
    let v: Value = serde_json::from_str(&txt).map_err(|e| format!("parse {:?}: {}", path, e))?;
    let case: P::Case = serde_json::from_value(v["case"].clone())
        .map_err(|e| format!("decode case in {:?}: {}", path, e))?;
    let (_st, r) = run_case(p, &case, ctx)?;
    Ok(r.err())
}

/// Entry point used by vcheck for every property.
pub fn run_prop<P: Prop>(p: P, tier: Tier, seed: u64, replay: Option<PathBuf>) -> i32 {
    let id = p.id();
    let known = Known::load();
    let t0 = Instant::now();

    if let Some(path) = replay {
        let ctx = Ctx { id, tier, seed, known, strict: true, list_all: false };
        return match replay_file(&p, &path, &ctx) {
            Ok(Some(v)) => {
                println!("replay: oracle fired: [{}] {}", v.sig, v.msg);
                println!("VIOLATION property={} replay={}", id, path.display());
                1
            }
            Ok(None) => {
                println!("replay: property held on {}", path.display());
                0
            }
            Err(e) => {
                eprintln!("replay error: {}", e);
                2
            }
        };
    }

    let p = Arc::new(p);
    let mut total = Agg::default();
    let mut known_lines: BTreeSet<String> = BTreeSet::new();

    // 1. deterministic replays: known findings (must print KNOWN-FINDING while they still
    //    fail) and regression files of repaired defects (must pass).
    {
        let strict = Ctx { id, tier, seed, known: known.clone(), strict: true, list_all: false };
        for (prop, sig, what, rp) in known.findings.iter() {
            if prop != id {
                continue;
            }
            let Some(rp) = rp else { continue };
            let path = Path::new(VERIF_DIR).join(rp);
            match replay_file(&*p, &path, &strict) {
                Ok(Some(v)) if v.sig == *sig => {
                    known_lines.insert(format!("KNOWN-FINDING: property={} {}", id, what));
                    *total.known.entry(sig.clone()).or_insert(0) += 1;
                    total.evaluations += 1;
                }
                Ok(Some(v)) => {
                    println!("unlisted violation from {}: [{}] {}", rp, v.sig, v.msg);
                    println!("VIOLATION property={} replay={}", id, path.display());
                    return 1;
                }
                Ok(None) => {
                    total.evaluations += 1;
                    eprintln!("note: known finding [{}] no longer reproduces from {}", sig, rp);
                }
                Err(e) => {
                    eprintln!("replay error: {}", e);
                    return 2;
                }
            }
        }
        for (prop, rp) in known.fixed.iter() {
            if prop != id {
                continue;
            }
            let path = Path::new(VERIF_DIR).join(rp);
            match replay_file(&*p, &path, &strict) {
                Ok(Some(v)) => {
                    println!("regression: repaired defect is back: [{}] {}", v.sig, v.msg);
                    println!("VIOLATION property={} replay={}", id, path.display());
                    return 1;
                }
                Ok(None) => total.evaluations += 1,
                Err(e) => {
                    eprintln!("replay error: {}", e);
                    return 2;
                }
            }
        }
    }

    // 2. fixed cases, then random shards
    let ctx = Arc::new(Ctx { id, tier, seed, known: known.clone(), strict: false, list_all: std::env::var("VERIF_LIST_SIGS").is_ok() });
    let stop = Arc::new(AtomicBool::new(false));
    let failure: Arc<Mutex<Option<Fail<P::Case>>>> = Arc::new(Mutex::new(None));

    for case in p.fixed_cases() {
        match run_case(&*p, &case, &ctx) {
            Ok((st, Ok(()))) => total.merge_case(st),
            Ok((_st, Err(v))) => {
                *failure.lock().unwrap() = Some(Fail::Violation(case, v));
                break;
            }
            Err(e) => {
                *failure.lock().unwrap() = Some(Fail::Harness(e));
                break;
            }
        }
    }

    if failure.lock().unwrap().is_none() {
        let mut handles = vec![];
        for shard in 0..SHARDS {
            let p = p.clone();
            let ctx = ctx.clone();
            let stop = stop.clone();
            let failure = failure.clone();
            let h = std::thread::Builder::new()
                .stack_size(64 << 20)
                .name(format!("shard{}", shard))
                .spawn(move || {
                    let mut agg = Agg::default();
                    let cfg = Config {
                        cases: p.cases(tier),
                        failure_persistence: None,
                        rng_seed: RngSeed::Fixed(shard_seed(seed, id, shard)),
                        max_shrink_iters: p.max_shrink_iters(),
                        max_shrink_time: 120_000,
                        max_global_rejects: 1_000_000,
                        ..Config::default()
                    };
                    let mut runner = TestRunner::new(cfg);
                    let strat = p.strategy(tier);
                    let my_fail: std::cell::RefCell<Option<Fail<P::Case>>> = std::cell::RefCell::new(None);
                    let agg_c = std::cell::RefCell::new(Agg::default());
                    let res = {
                        let sample_every = std::cmp::max(1, p.cases(tier) / 4);
                        let n = std::cell::Cell::new(0u32);
                        runner.run(&strat, |case| {
                            let failed = my_fail.borrow().is_some();
                            if !failed && stop.load(Ordering::Relaxed) {
                                // another shard failed: finish quickly, count nothing
                                return Ok(());
                            }
                            match run_case(&*p, &case, &ctx) {
                                Ok((mut st, Ok(()))) => {
                                    if !failed {
                                        n.set(n.get() + 1);
                                        if n.get() % sample_every != 1 && !(n.get() <= 2) {
                                            st.sample = None;
                                        }
                                        agg_c.borrow_mut().merge_case(st);
                                    }
                                    Ok(())
                                }
                                Ok((_st, Err(v))) => {
                                    stop.store(true, Ordering::Relaxed);
                                    let msg = v.sig.clone();
                                    *my_fail.borrow_mut() = Some(Fail::Violation(case, v));
                                    Err(TestCaseError::fail(msg))
                                }
                                Err(e) => {
                                    stop.store(true, Ordering::Relaxed);
                                    *my_fail.borrow_mut() = Some(Fail::Harness(e.clone()));
                                    Err(TestCaseError::fail(e))
                                }
                            }
                        })
                    };
                    agg = agg_c.into_inner();
                    let mut my_fail = my_fail.into_inner();
                    match res {
                        Ok(()) => {}
                        Err(TestError::Fail(_, _min)) => {
                            // my_fail holds the last failing (i.e. most shrunk) case
                            let mut g = failure.lock().unwrap();
                            if g.is_none() {
                                *g = my_fail.take();
                            }
                        }
                        Err(TestError::Abort(r)) => {
                            let mut g = failure.lock().unwrap();
                            if g.is_none() {
                                *g = Some(Fail::Harness(format!("proptest abort: {}", r)));
                            }
                        }
                    }
                    agg
                })
                .unwrap();
            handles.push(h);
        }
        for h in handles {
            match h.join() {
                Ok(agg) => total.merge(agg),
                Err(e) => {
                    let mut g = failure.lock().unwrap();
                    if g.is_none() {
                        *g = Some(Fail::Harness(format!("shard thread died: {}", panic_msg(e))));
                    }
                }
            }
        }
    }

    let wall = t0.elapsed().as_secs_f64();
    let fail = failure.lock().unwrap().take();
    let mut violations = 0;
    let mut exit = 0;
    let mut samples: Vec<Value> = total.samples_nt.iter().take(6).cloned().collect();
    samples.extend(total.samples.iter().take(4).cloned());

    match fail {
        Some(Fail::Harness(e)) => {
            eprintln!("INCONCLUSIVE property={} harness error: {}", id, e);
            exit = 2;
        }
        Some(Fail::Violation(case, v)) => {
            let dir = out_dir().join("replays").join(id);
            let name = format!("violation-{}-seed{}-{:016x}.json", tier.name(), seed, hash_of(&v.sig));
            let path = dir.join(name);
            write_json(
                &path,
                &json!({ "property": id, "signature": v.sig, "message": v.msg, "seed": seed,
                         "tier": tier.name(), "case": serde_json::to_value(&case).unwrap() }),
            );
            // re-execute once from the file, without proptest
            let strict = Ctx { id, tier, seed, known: known.clone(), strict: true, list_all: false };
            match replay_file(&*p, &path, &strict) {
                Ok(Some(v2)) => {
                    println!("violation: [{}] {}", v2.sig, v2.msg);
                    println!("VIOLATION property={} replay={}", id, path.display());
                    violations = 1;
                    exit = 1;
                }
                Ok(None) => {
                    eprintln!(
                        "INCONCLUSIVE property={} failure [{}] did not replay from {}",
                        id,
                        v.sig,
                        path.display()
                    );
                    exit = 2;
                }
                Err(e) => {
                    eprintln!("INCONCLUSIVE property={} replay error {}", id, e);
                    exit = 2;
                }
            }
        }
        None => {}
    }

    for (sig, _n) in total.known.iter() {
        known_lines.insert(format!("KNOWN-FINDING: property={} {}", id, known.what(id, sig)));
    }
    for l in known_lines.iter() {
        println!("{}", l);
    }

    let distinct = total.nontrivial.len();
    if exit == 0 && distinct < p.min_nontrivial(tier) {
        eprintln!(
            "INCONCLUSIVE property={} vacuous run: {} distinct non-trivial cases < {}",
            id,
            distinct,
            p.min_nontrivial(tier)
        );
        exit = 2;
    }

    if samples.is_empty() {
        samples.push(json!("no sample recorded"));
    }
    let ev = json!({
        "property_id": id,
        "tier": tier.name(),
        "seed": seed,
        "level": "exploration",
        "coverage": {
            "evaluations": total.evaluations,
            "distinct_nontrivial": distinct,
            "rule": p.rule(),
            "samples": samples,
            "classes": total.classes,
            "known_findings_hit": total.known,
            "shards": SHARDS,
            "cases_per_shard": p.cases(tier),
        },
        "assumptions": p.assumptions(),
        "wall_s": wall,
        "violations": violations,
    });
    write_json(&out_dir().join("evidence").join(format!("{}.json", id)), &ev);
    println!(
        "{} {} seed={} evaluations={} distinct_nontrivial={} known_hits={} wall={:.1}s exit={}",
        id,
        tier.name(),
        seed,
        total.evaluations,
        distinct,
        total.known.values().sum::<u64>(),
        wall,
        exit
    );
    exit
}

// ---------------------------------------------------------------------------------------------
// Coverage-guided bridge (thorough tier).  libFuzzer hands over a byte string; it is used as the
// *entropy stream* of the property's own proptest strategy (proptest's PassThrough RNG: the bytes
// are consumed in order, zeros once they run out), so every generated case lies in the same sound
// domain as in the random tiers and is judged by the same oracle.  libFuzzer's coverage feedback
// (edge coverage of the signer crates) decides which entropy strings are kept and mutated.

const FUZZ_TAIL: usize = 1 << 19;

/// Per-process accumulator of the fuzz phase (written to VERIF_FUZZ_STATS periodically and at exit).
pub struct FuzzAgg {
    agg: Agg,
    rejected: u64,
    harness_errors: u64,
    execs: u64,
}

pub enum FuzzOutcome {
    /// the strategy rejected this entropy string (filters) - nothing was executed
    Rejected,
    Held,
    /// the oracle fired with a signature that is not a listed known finding; the case was written
    /// to this replay file
    Violation(PathBuf, Violation),
    Harness(String),
}

pub struct Fuzzer<P: Prop> {
    p: P,
    ctx: Ctx,
    strat: SingleThread<BoxedStrategy<P::Case>>,
    stats: Mutex<FuzzAgg>,
}

/// libFuzzer calls the target from one thread only; a boxed proptest strategy is not `Sync`.
struct SingleThread<T>(T);
unsafe impl<T> Send for SingleThread<T> {}
unsafe impl<T> Sync for SingleThread<T> {}

impl<P: Prop> Fuzzer<P> {
    pub fn new(p: P) -> Self {
        let id = p.id();
        let seed: u64 = std::env::var("VERIF_SEED").ok().and_then(|s| s.parse().ok()).unwrap_or(1);
        let ctx = Ctx { id, tier: Tier::Thorough, seed, known: Known::load(), strict: false, list_all: false };
        let strat = p.strategy(Tier::Thorough);
        Fuzzer { p, ctx, strat: SingleThread(strat), stats: Mutex::new(FuzzAgg { agg: Agg::default(), rejected: 0, harness_errors: 0, execs: 0 }) }
    }

    pub fn one(&self, data: &[u8]) -> FuzzOutcome {
        use proptest::test_runner::{RngAlgorithm, TestRng};
        // The pass-through stream answers with zeros once it runs out, and rand's uniform integer
        // sampling rejects a zero word for every range that is not a power of two: an all-zero
        // tail would spin forever.  The fuzzer's bytes are therefore followed by a long
        // pseudo-random tail that is a pure function of those bytes.
        let mut buf = Vec::with_capacity(data.len() + FUZZ_TAIL);
        buf.extend_from_slice(data);
        let mut x = hash_of(&data) | 1;
        while buf.len() < data.len() + FUZZ_TAIL {
            x ^= x << 13;
            x ^= x >> 7;
            x ^= x << 17;
            buf.extend_from_slice(&x.to_le_bytes());
        }
        let rng = TestRng::from_seed(RngAlgorithm::PassThrough, &buf);
        let cfg = Config { failure_persistence: None, max_local_rejects: 256, max_global_rejects: 256, ..Config::default() };
        let mut runner = TestRunner::new_with_rng(cfg, rng);
        let tree = match self.strat.0.new_tree(&mut runner) {
            Ok(t) => t,
            Err(_) => {
                let mut g = self.stats.lock().unwrap();
                g.rejected += 1;
                g.execs += 1;
                return FuzzOutcome::Rejected;
            }
        };
        let case = tree.current();
        let out = match run_case(&self.p, &case, &self.ctx) {
            Ok((mut st, Ok(()))) => {
                let mut g = self.stats.lock().unwrap();
                if g.execs % 997 != 0 {
                    st.sample = None;
                }
                g.agg.merge_case(st);
                FuzzOutcome::Held
            }
            Ok((_st, Err(v))) => {
                let dir = out_dir().join("replays").join(self.ctx.id);
                let name = format!("violation-fuzz-seed{}-{:016x}.json", self.ctx.seed, hash_of(&v.sig));
                let path = dir.join(name);
                write_json(
                    &path,
                    &json!({ "property": self.ctx.id, "signature": v.sig, "message": v.msg, "seed": self.ctx.seed,
                             "tier": "thorough-fuzz", "case": serde_json::to_value(&case).unwrap() }),
                );
                FuzzOutcome::Violation(path, v)
            }
            Err(e) => {
                self.stats.lock().unwrap().harness_errors += 1;
                FuzzOutcome::Harness(e)
            }
        };
        let mut g = self.stats.lock().unwrap();
        g.execs += 1;
        if g.execs % 500 == 0 {
            Self::dump(&g);
        }
        out
    }

    fn dump(g: &FuzzAgg) {
        // one file per worker process
        let Ok(path) = std::env::var("VERIF_FUZZ_STATS").map(|p| format!("{}.{}", p, std::process::id())) else { return };
        let mut samples: Vec<Value> = g.agg.samples_nt.iter().take(3).cloned().collect();
        samples.extend(g.agg.samples.iter().take(1).cloned());
        let v = json!({
            "executions": g.execs,
            "cases_run": g.agg.evaluations,
            "rejected_by_strategy": g.rejected,
            "harness_errors": g.harness_errors,
            "distinct_nontrivial": g.agg.nontrivial.len(),
            "nontrivial_hashes": g.agg.nontrivial.iter().map(|h| format!("{:016x}", h)).collect::<Vec<_>>(),
            "classes": g.agg.classes,
            "known_findings_hit": g.agg.known,
            "samples": samples,
        });
        let tmp = format!("{}.tmp", path);
        if std::fs::write(&tmp, serde_json::to_vec(&v).unwrap()).is_ok() {
            let _ = std::fs::rename(&tmp, &path);
        }
    }

    pub fn dump_now(&self) {
        Self::dump(&self.stats.lock().unwrap());
    }
}

/// Type-erased handle used by the fuzz target binary.
pub trait FuzzDyn: Send + Sync {
    fn one(&self, data: &[u8]) -> FuzzOutcome;
    fn dump_now(&self);
    fn id(&self) -> &'static str;
}

impl<P: Prop> FuzzDyn for Fuzzer<P> {
    fn one(&self, data: &[u8]) -> FuzzOutcome {
        Fuzzer::one(self, data)
    }
    fn dump_now(&self) {
        Fuzzer::dump_now(self)
    }
    fn id(&self) -> &'static str {
        self.ctx.id
    }
}

/// Monotone index mapping for shrink-friendly selectors: maps a u16 selector onto 0..len.
pub fn pick_idx(sel: u16, len: usize) -> usize {
    if len == 0 {
        0
    } else {
        ((sel as usize) * len) >> 16
    }
}

#[allow(dead_code)]
pub fn simplest<S: Strategy>(s: &S) -> S::Value
where
    S::Value: Clone,
{
    let mut r = TestRunner::deterministic();
    let mut t = s.new_tree(&mut r).unwrap();
    while t.simplify() {}
    t.current()
}
