//! C15 — channel state is discarded only when safely buried, and ids are never reused.
//!
//! World: a regtest node (real `Node`, in-memory persister, real `ChainTracker`) driven through the
//! entry points a node daemon uses: `new_channel(dbid, peer)`, the channel-open sequence of
//! `chainpool::open_funded` (real funding transaction, `setup_channel`, initial commitments, funding
//! signed through the signer for outbound channels), `forget_channel`, `get_heartbeat`,
//! `ChainTracker::add_block` / `remove_block` with mined regtest headers and TXOO proofs followed by
//! `Persist::update_tracker` (exactly what the AddBlock / RemoveBlock protocol handlers do), and
//! restarts (the signer is rebuilt from a copy of its store).
//!
//! Oracle: a model kept by the harness from what it did, never from the signer's monitors:
//! * its own best chain (`ChainSim`), from which it derives per channel: the earliest double-spend
//!   of a funding input, the mutual close, the unilateral close and the block at which the last of
//!   the node's outputs of that close was spent;
//! * which `forget_channel` requests were acknowledged for a channel that existed.
//! After every request every channel of the model is looked up in the signer (`Node::get_channel`)
//! and in the store (`channel/<node>/<id>`).  A *ready* channel that is missing from either may be
//! missing only if forget was acknowledged and one of the three terminal events is on the model's
//! current best chain with `tip - event_height + 1 >= 100` confirmations.  After an acknowledged
//! forget of id d every `new_channel(d' <= d)` that creates a channel is a violation.

use crate::chainpool::*;
use crate::engine::*;
use crate::props::proto::{Negotiation, ProtoWorld, To};
use crate::world::*;
use lightning_signer::bitcoin::secp256k1::{PublicKey, SecretKey};
use lightning_signer::bitcoin::{Network, OutPoint, Txid};
use lightning_signer::persist::Persist;
use proptest::prelude::*;
use serde::{Deserialize, Serialize};
use serde_json::{json, Value};
use std::collections::BTreeMap;
use vls_persist::kvv::KVVStore;

/// Confirmations (the block holding the event counts as 1) a terminal event needs before the
/// channel may be discarded: "the depth at which we consider a channel to be done" is documented
/// as 100 in vls-core/src/monitor.rs, depth being the number of confirmations as for
/// `funding_depth()`.
pub const REQUIRED_CONFIRMATIONS: u32 = 100;

/// at most this many blocks are connected per history (further mining requests are skipped);
/// independent of the tier so that a saved case replays identically
const BLOCK_CAP: u32 = 500;

/// at most this many ready channels per history (the pool selectors index them)
const MAX_READY: usize = 3;

#[derive(Clone, Debug, Serialize, Deserialize, PartialEq, Eq, Hash)]
pub struct OpenSpec {
    pub dbid: u8,
    pub peer: u8,
    pub anchors: bool,
    pub outbound: bool,
    pub fund: FundSpec,
    /// offered HTLCs of commitment 1 (outbound channels only): index into AMTS
    pub htlcs: Vec<u8>,
    /// the offered HTLCs all carry the same payment hash and expiry (parts of one multi-part
    /// payment over this channel): their output scripts are identical
    #[serde(default)]
    pub twins: bool,
}

#[derive(Clone, Debug, Serialize, Deserialize, PartialEq, Eq, Hash)]
pub enum Op {
    /// `new_channel(dbid, peer)` alone
    NewStub { dbid: u8, peer: u8 },
    /// `new_channel` + funding transaction + `setup_channel` + initial commitments (+ one round)
    Open(OpenSpec),
    /// `forget_channel` of the k-th channel the harness ever created (present or not)
    Forget { k: u16 },
    /// `forget_channel` of an id given directly (possibly never created)
    ForgetId { dbid: u8, peer: u8 },
    Heartbeat,
    /// connect one block holding the applicable ones of these pool transactions
    Block { txs: Vec<TxSel> },
    /// connect n empty blocks
    Empty { n: u8 },
    /// connect many empty blocks (a closed channel whose outputs are only partly swept grows old:
    /// more than 2016 blocks)
    EmptyMany { n: u16 },
    /// connect empty blocks until the reference event of the k-th ready channel (its deepest
    /// terminal event, else its unilateral close, else its funding, else its creation) has
    /// REQUIRED_CONFIRMATIONS + rel confirmations
    Bury { k: u16, rel: i8 },
    /// disconnect up to `depth` blocks
    Disconnect { depth: u8 },
    /// disconnect down to just below the block that completed the deepest terminal event of the
    /// k-th ready channel (`sweep_only`: for a swept unilateral close, below the last sweep only)
    Unbury { k: u16, sweep_only: bool },
    Restart,
}

#[derive(Clone, Debug, Serialize, Deserialize)]
pub struct Case {
    pub ops: Vec<Op>,
    /// wire delivery: the signer is built by `HandlerBuilder` (as vlsd builds it), blocks are
    /// connected / disconnected and heartbeats requested with protocol messages to its root
    /// handler (`chainpool::wire_add` / `wire_remove`, `GetHeartbeat`; the handler persists the
    /// tracker itself), a restart rebuilds the handler from a copy of the store
    #[serde(default)]
    pub wire: bool,
    /// streamed delivery: of every three blocks (by height) this many are delivered as streamed
    /// blocks (BlockChunk + ExternalBlock proof) instead of compact filter proofs, when connected
    /// and when disconnected; 0 = compact only
    #[serde(default)]
    pub stream: u8,
}

const AMTS: [u64; 3] = [10_000, 25_000, 400_000];

// ---------------------------------------------------------------------------------------------
// the model

#[derive(Clone, Debug)]
struct MChan {
    ci: usize,
    dbid: u64,
    peer: u8,
    ready: bool,
    /// index into `Run::ctxs`
    tx_idx: Option<usize>,
    forget_acked: bool,
    /// was a terminal event / close on the chain when forget was acknowledged
    forget_after_close: bool,
    gone: bool,
    created_height: u32,
    /// deepest terminal-event depth the model ever saw for this channel
    best_depth_seen: u32,
}

/// What the model's best chain says about one ready channel.
#[derive(Clone, Debug, Default)]
struct ChainFacts {
    funding: Option<u32>,
    /// earliest transaction other than the funding transaction that spends a funding input
    dspend: Option<u32>,
    mutual: Option<u32>,
    /// unilateral close: (height, kind of commitment)
    close: Option<(u32, &'static str)>,
    /// height of the block after which every output of the unilateral close that the node must
    /// sweep was spent (the close height itself if there is nothing to sweep)
    swept: Option<u32>,
}

impl ChainFacts {
    /// terminal events as (kind, height)
    fn events(&self) -> Vec<(&'static str, u32)> {
        let mut v = vec![];
        if let Some(h) = self.dspend {
            v.push(("dspend", h));
        }
        if let Some(h) = self.mutual {
            v.push(("mutual", h));
        }
        if let Some(h) = self.swept {
            v.push(("swept", h));
        }
        v
    }
    /// the deepest terminal event: (kind, height, confirmations)
    fn deepest(&self, tip: u32) -> Option<(&'static str, u32, u32)> {
        self.events().into_iter().filter(|(_, h)| *h <= tip).map(|(k, h)| (k, h, tip - h + 1)).max_by_key(|(_, h, c)| (*c, u32::MAX - *h))
    }
}

struct Spend {
    height: u32,
    txid: Txid,
    input_pos: usize,
    n_outputs: usize,
}

fn chain_facts(sim: &ChainSim, ch: &ChanTxs) -> ChainFacts {
    let mut spent: BTreeMap<OutPoint, Spend> = BTreeMap::new();
    let mut confirmed: BTreeMap<Txid, u32> = BTreeMap::new();
    for (i, b) in sim.blocks.iter().enumerate() {
        let height = i as u32 + 1;
        for t in b.txs.iter() {
            let txid = t.tx.compute_txid();
            confirmed.insert(txid, height);
            for (p, inp) in t.tx.input.iter().enumerate() {
                spent.entry(inp.previous_output).or_insert(Spend { height, txid, input_pos: p, n_outputs: t.tx.output.len() });
            }
        }
    }
    let mut f = ChainFacts::default();
    let funding_txid = ch.funding_tx.compute_txid();
    f.funding = confirmed.get(&funding_txid).cloned();
    for wi in ch.wallet_inputs.iter() {
        if let Some(s) = spent.get(wi) {
            if s.txid != funding_txid {
                f.dspend = Some(f.dspend.map_or(s.height, |h: u32| h.min(s.height)));
            }
        }
    }
    if let Some(s) = spent.get(&ch.funding_outpoint) {
        match ch.commits.iter().find(|c| c.txid == s.txid) {
            None => f.mutual = Some(s.height),
            Some(cr) => {
                f.close = Some((s.height, cr.kind));
                // the node's outputs of this commitment: its main output and the HTLCs it offered
                // (every HTLC of the generated commitments is offered by the node); for the node's
                // own commitment also the output of each second-stage HTLC transaction
                let mut last = s.height;
                let mut all = true;
                let mut req: Vec<(OutPoint, bool)> = vec![];
                if let Some(v) = cr.ours {
                    req.push((OutPoint { txid: cr.txid, vout: v }, false));
                }
                for v in cr.htlcs.iter() {
                    req.push((OutPoint { txid: cr.txid, vout: *v }, true));
                }
                for (op, is_htlc) in req {
                    match spent.get(&op) {
                        None => all = false,
                        Some(sp) => {
                            last = last.max(sp.height);
                            if is_htlc && cr.kind == "holder_commit" && sp.input_pos < sp.n_outputs {
                                let op2 = OutPoint { txid: sp.txid, vout: sp.input_pos as u32 };
                                match spent.get(&op2) {
                                    None => all = false,
                                    Some(s2) => last = last.max(s2.height),
                                }
                            }
                        }
                    }
                }
                if all {
                    f.swept = Some(last);
                }
            }
        }
    }
    f
}

/// bucket of (confirmations - REQUIRED_CONFIRMATIONS)
fn rel_bucket(conf: u32) -> String {
    let r = conf as i64 - REQUIRED_CONFIRMATIONS as i64;
    if r < -2 {
        "<-2".into()
    } else if r > 2 {
        ">+2".into()
    } else {
        format!("{:+}", r)
    }
}

struct Run<'a> {
    w: World,
    sim: ChainSim,
    /// reference transactions of the ready channels, in creation order
    ctxs: Vec<ChanTxs>,
    chans: Vec<MChan>,
    /// acknowledged forgets of existing channels: (dbid, number of restarts so far)
    forgotten: Vec<(u64, u32)>,
    /// ids whose stub was pruned by the stub rule (not by forget)
    stub_pruned: Vec<u64>,
    restarts: u32,
    blocks_mined: u32,
    block_cap: u32,
    salt: u64,
    shape: Vec<String>,
    nontrivial: bool,
    trace: Vec<Value>,
    stopped: bool,
    st: &'a mut CaseStats,
    ctx: &'a Ctx,
    debug: bool,
    /// wire delivery: the handlers serving `w.node`
    pw: Option<ProtoWorld>,
    wlog: WireLog,
    /// wire delivery: blocks the best chain left, with the headers below them (the follower's
    /// chain source still serves them when the signer comes back from a restart on one of them)
    stale: Vec<(SimBlock, lightning_signer::chain::tracker::Headers)>,
    /// of every three blocks this many are delivered streamed (API-level delivery only)
    stream: u8,
}

fn chan_key(w: &World, ci: usize) -> String {
    format!("channel/{}/{}", hex::encode(w.node.get_id().serialize()), hex::encode(w.chans[ci].id0.as_slice()))
}

impl<'a> Run<'a> {
    fn push_shape(&mut self, s: String) {
        if self.shape.last() != Some(&s) {
            self.shape.push(s);
        }
    }
    fn note(&mut self, i: usize, v: Value) {
        if self.debug {
            eprintln!("DBG op {} h={} {}", i, self.sim.height(), v);
        }
        if self.trace.len() < 60 {
            self.trace.push(json!({"op": i, "height": self.sim.height(), "what": v}));
        }
    }

    fn facts(&self, m: &MChan) -> ChainFacts {
        match m.tx_idx {
            Some(t) => chain_facts(&self.sim, &self.ctxs[t]),
            None => ChainFacts::default(),
        }
    }

    fn mark(&self) -> Option<u64> {
        self.forgotten.iter().map(|(d, _)| *d).max()
    }

    fn present(&self, m: &MChan) -> (bool, bool) {
        let mem = self.w.node.get_channel(&self.w.chans[m.ci].id0).is_ok();
        let store = match self.w.store.0.get(&chan_key(&self.w, m.ci)) {
            Ok(Some((_, v))) => !v.is_empty(),
            _ => false,
        };
        (mem, store)
    }

    /// Why a ready channel may not be discarded now, or None if the model allows it.
    fn too_early(&self, m: &MChan) -> Option<(&'static str, String)> {
        let tip = self.sim.height();
        let f = self.facts(m);
        if !m.forget_acked {
            return Some(("no-forget-request", format!("no forget_channel was acknowledged for it (chain facts {:?})", f)));
        }
        match f.deepest(tip) {
            Some((_, _, conf)) if conf >= REQUIRED_CONFIRMATIONS => None,
            Some((kind, h, conf)) => {
                if m.best_depth_seen >= REQUIRED_CONFIRMATIONS && m.best_depth_seen > conf {
                    Some(("reorged-out", format!("its deepest terminal event ({} at height {}) has {} confirmations on the best chain (tip {}); an event with {} confirmations was disconnected earlier", kind, h, conf, tip, m.best_depth_seen)))
                } else {
                    Some(("not-buried", format!("its deepest terminal event ({} at height {}) has only {} of {} confirmations (tip {})", kind, h, conf, REQUIRED_CONFIRMATIONS, tip)))
                }
            }
            None => {
                if m.best_depth_seen > 0 {
                    Some(("reorged-out", format!("the terminal event it once had ({} confirmations) is not on the best chain any more (chain facts {:?}, tip {})", m.best_depth_seen, f, tip)))
                } else if let Some((h, kind)) = f.close {
                    Some(("outputs-unswept", format!("its unilateral close ({} at height {}, tip {}) still has unspent outputs of the node", kind, h, tip)))
                } else {
                    Some(("not-closed", format!("the best chain holds no double-spend and no close of it (funding at {:?}, tip {})", f.funding, tip)))
                }
            }
        }
    }

    /// Compare the signer with the model after request `i`.
    fn observe(&mut self, i: usize, what: &str) -> Result<(), Violation> {
        let tip = self.sim.height();
        for k in 0..self.chans.len() {
            if self.chans[k].gone {
                continue;
            }
            // keep the deepest depth ever seen up to date (before judging: a reorg lowers it)
            let m = self.chans[k].clone();
            let (mem, store) = self.present(&m);
            if mem && store {
                if let Some((_, _, conf)) = self.facts(&m).deepest(tip) {
                    if conf > self.chans[k].best_depth_seen {
                        self.chans[k].best_depth_seen = conf;
                    }
                }
                continue;
            }
            if mem != store {
                self.st.class("gone_from_one_of_memory_and_store");
            }
            self.chans[k].gone = true;
            if !m.ready {
                if m.forget_acked {
                    self.st.class("stub:forgotten_on_request");
                } else {
                    let age = tip.saturating_sub(m.created_height);
                    self.st.class(if age > 106 { "stub:pruned_by_stub_rule" } else { "stub:pruned_before_stub_rule_age" });
                    self.stub_pruned.push(m.dbid);
                }
                self.note(i, json!({"stub_gone": m.dbid, "after": what}));
                continue;
            }
            let f = self.facts(&m);
            let verdict = self.too_early(&m);
            self.note(i, json!({"ready_gone": m.dbid, "after": what, "facts": format!("{:?}", f), "verdict": verdict.as_ref().map(|v| v.0)}));
            match verdict {
                None => {
                    let (kind, _, conf) = f.deepest(tip).unwrap();
                    self.st.class(format!("ready_discarded:{}:{}", kind, rel_bucket(conf)));
                    self.st.class(format!("ready_discarded_after:{}", what));
                }
                Some((reason, detail)) => {
                    self.st.class(format!("too_early:{}", reason));
                    let v = Violation::new(
                        format!("C15:channel-forgotten-too-early:{}", reason),
                        format!(
                            "request {} ({}): ready channel dbid {} peer {} is gone (in memory: {}, in the store: {}) although {}",
                            i, what, m.dbid, m.peer, mem, store, detail
                        ),
                    );
                    self.ctx.report(self.st, v)?;
                    self.stopped = true;
                }
            }
        }
        Ok(())
    }

    fn flush_wire_classes(&mut self) {
        if self.pw.is_none() {
            return;
        }
        for c in self.wlog.classes() {
            self.st.class(c);
        }
        self.wlog = WireLog::default();
    }

    /// Wire delivery, after a restart: what the chain follower does at its next update.  It asks
    /// `TipInfo`; a tip that its best chain has left is removed (again), a tip below its best chain
    /// is extended, until the signer is at the follower's tip.  On a signer that persisted every
    /// block request before answering it there is nothing to do.
    fn resync_after_restart(&mut self) -> bool {
        let mut redone = false;
        for _ in 0..(2 * BLOCK_CAP) {
            let pw = self.pw.as_ref().expect("wire");
            let (h, hash) = match wire_tip(&pw.root, &mut self.wlog) {
                Ok(t) => t,
                Err(e) => panic!("harness: TipInfo after a restart failed: {}", e),
            };
            if h == self.sim.height() && hash == self.sim.tip_header().block_hash() {
                self.flush_wire_classes();
                self.st.class(if redone { "wire:resync_after_restart:repaired" } else { "wire:resync_after_restart:in_sync" });
                return true;
            }
            redone = true;
            let on_best = h <= self.sim.height() && hash == if h == 0 { self.sim.genesis.block_hash() } else { self.sim.blocks[h as usize - 1].block.block_hash() };
            let d = if on_best {
                self.st.class("wire:resync_after_restart:block_added_again");
                let sb = self.sim.blocks[h as usize].clone();
                wire_add(&pw.root, &sb.block, &sb.prev_filter_header, false, 0, &mut self.wlog)
            } else if let Some(k) = self.stale.iter().rposition(|(sb, _)| sb.block.block_hash() == hash) {
                self.st.class("wire:resync_after_restart:block_removed_again");
                let (sb, prev) = (self.stale[k].0.clone(), self.stale[k].1.clone());
                wire_remove(&pw.root, &sb.block, prev, false, 0, &mut self.wlog)
            } else {
                panic!("harness: after a restart the signer's tip {} at height {} is no block the harness ever delivered", hash, h);
            };
            self.flush_wire_classes();
            match d {
                Deliver::Ok => {}
                Deliver::Refused(e) => panic!("harness: resynchronisation after a restart refused: {}", e),
                Deliver::Panic(_) => {
                    self.st.class("abort:resync");
                    self.stopped = true;
                    return false;
                }
            }
        }
        panic!("harness: resynchronisation after a restart does not converge");
    }

    fn persist_tracker(&self) {
        let node = self.w.node.clone();
        let tracker = node.get_tracker();
        node.get_persister().update_tracker(&node.get_id(), &tracker).expect("update_tracker");
    }

    /// connect one block (as the AddBlock handler does); false if the signer aborted
    fn connect(&mut self, sels: &[TxSel]) -> bool {
        self.salt += 1;
        let (block, ptxs) = self.sim.build_block(sels, &self.ctxs, self.salt);
        for t in ptxs.iter() {
            self.st.class(format!("tx:{}", t.kind));
        }
        self.sim.push(block, ptxs);
        let sb = self.sim.blocks.last().unwrap().clone();
        self.blocks_mined += 1;
        let node = self.w.node.clone();
        let streamed = (self.sim.height() % 3) < self.stream as u32;
        if streamed {
            self.st.class("connect:streamed");
        }
        let d = match self.pw.as_ref() {
            // the AddBlock handler persists the tracker itself
            Some(pw) => wire_add(&pw.root, &sb.block, &sb.prev_filter_header, streamed, 97, &mut self.wlog),
            None => self.w.txn(|| tracker_add(&node, &sb.block, streamed, 97)).0,
        };
        self.flush_wire_classes();
        match d {
            Deliver::Ok => {
                if self.pw.is_none() {
                    self.w.txn(|| self.persist_tracker());
                }
                true
            }
            Deliver::Refused(e) => panic!("tracker refused a valid block at height {}: {}", self.sim.height(), e),
            Deliver::Panic(_) => {
                self.st.class("abort:connect");
                self.stopped = true;
                false
            }
        }
    }

    /// disconnect the tip; false if not possible (reorg limit) or the signer aborted
    fn disconnect(&mut self) -> bool {
        let sb = self.sim.blocks.last().unwrap().clone();
        let node = self.w.node.clone();
        let prev = self.sim.prev_headers();
        let streamed = (self.sim.height() % 3) < self.stream as u32;
        if streamed {
            self.st.class("disconnect:streamed");
        }
        let d = match self.pw.as_ref() {
            Some(pw) => wire_remove(&pw.root, &sb.block, prev.clone(), streamed, 97, &mut self.wlog),
            None => self.w.txn(|| tracker_remove(&node, &sb.block, prev.clone(), streamed, 97)).0,
        };
        self.flush_wire_classes();
        match d {
            Deliver::Ok => {
                if self.pw.is_none() {
                    self.w.txn(|| self.persist_tracker());
                } else {
                    self.stale.push((sb.clone(), prev));
                }
                self.sim.pop();
                true
            }
            // the RemoveBlock handler expect()s the tracker's result: a removal beyond the
            // remembered headers ends the signer (C14 covers reorgs within the window only)
            Deliver::Panic(m) if self.pw.is_some() && m.contains("ReorgTooDeep") => {
                self.st.class("wire:reorg_too_deep_ends_the_signer");
                self.stopped = true;
                false
            }
            Deliver::Refused(e) => {
                if e.contains("ReorgTooDeep") {
                    self.st.class("reorg_refused:too_deep");
                    false
                } else {
                    panic!("tracker refused the removal of its tip at height {}: {}", self.sim.height(), e)
                }
            }
            Deliver::Panic(_) => {
                self.st.class("abort:disconnect");
                self.stopped = true;
                false
            }
        }
    }

    fn mine_empty(&mut self, n: u32) -> u32 {
        let mut done = 0;
        for _ in 0..n {
            if self.blocks_mined >= self.block_cap {
                self.st.class("block_cap_reached");
                break;
            }
            if !self.connect(&[]) {
                break;
            }
            done += 1;
        }
        done
    }

    /// Would a channel with this id be a re-creation the property forbids?  (same|lower, restart)
    fn reuse_verdict(&self, dbid: u64) -> Option<(&'static str, &'static str)> {
        let rel: Vec<&(u64, u32)> = self.forgotten.iter().filter(|(d, _)| *d >= dbid).collect();
        if rel.is_empty() {
            return None;
        }
        let same = rel.iter().any(|(d, _)| *d == dbid);
        // a restart happened after the latest relevant forget
        let latest = rel.iter().map(|(_, r)| *r).max().unwrap();
        Some((if same { "same" } else { "lower" }, if self.restarts > latest { "after-restart" } else { "before-restart" }))
    }

    /// `new_channel(dbid, peer)`; Ok(Some(world index)) if the channel exists afterwards
    fn new_channel(&mut self, i: usize, dbid: u8, peer: u8) -> Result<Option<usize>, Violation> {
        let dbid = dbid as u64;
        let existed = self.chans.iter().any(|m| !m.gone && m.dbid == dbid && m.peer == peer);
        let verdict = self.reuse_verdict(dbid);
        let mut spec = ChanSpec::basic(dbid);
        spec.peer = peer;
        let r = self.w.new_stub(&spec);
        let tag = r.tag();
        self.st.class(format!(
            "new_channel:{}:{}",
            match (&verdict, existed) {
                (Some(_), _) => "id_at_or_below_forgotten",
                (None, true) => "existing",
                (None, false) => "fresh",
            },
            tag
        ));
        if let Some((_, when)) = verdict {
            self.st.class(format!("reuse_attempt:{}", when));
            if when == "after-restart" {
                self.nontrivial = true;
            }
        }
        self.push_shape(format!("N:{}:{}:{}", verdict.map(|v| format!("{}/{}", v.0, v.1)).unwrap_or("free".into()), if existed { "existing" } else { "new" }, tag));
        self.note(i, json!({"new_channel": dbid, "peer": peer, "result": tag, "existed": existed, "mark": self.mark()}));
        match r {
            Out::Ok(ci) => {
                if !existed {
                    if let Some((same, when)) = verdict {
                        let v = Violation::new(
                            format!("C15:channel-id-reused-after-forget:{}:{}", same, when),
                            format!(
                                "request {}: new_channel(dbid {}, peer {}) created a channel although forget_channel was acknowledged for ids {:?} (restarts since then: {})",
                                i,
                                dbid,
                                peer,
                                self.forgotten.iter().map(|(d, _)| *d).collect::<Vec<_>>(),
                                when
                            ),
                        );
                        self.ctx.report(self.st, v)?;
                        self.stopped = true;
                        return Ok(None);
                    }
                    if self.stub_pruned.contains(&dbid) {
                        self.st.class("new_channel:id_of_a_pruned_stub_created_again");
                    }
                    self.chans.push(MChan {
                        ci,
                        dbid,
                        peer,
                        ready: false,
                        tx_idx: None,
                        forget_acked: false,
                        forget_after_close: false,
                        gone: false,
                        created_height: self.sim.height(),
                        best_depth_seen: 0,
                    });
                }
                Ok(Some(ci))
            }
            _ => Ok(None),
        }
    }

    fn open(&mut self, i: usize, o: &OpenSpec) -> Result<(), Violation> {
        let (dbid, peer) = (o.dbid as u64, o.peer);
        if self.chans.iter().any(|m| !m.gone && m.dbid == dbid && m.peer == peer && m.ready) || self.ctxs.len() >= MAX_READY {
            self.st.class("open:skipped");
            return Ok(());
        }
        let Some(ci) = self.new_channel(i, o.dbid, o.peer)? else { return Ok(()) };
        if self.stopped {
            return Ok(());
        }
        let outbound = o.outbound;
        let mut spec = ChanSpec::basic(dbid);
        spec.peer = peer;
        spec.anchors = o.anchors;
        spec.outbound = outbound;
        // the stub was registered with a default spec: the open continues with the real one
        let (setup, cp) = self.w.make_setup(&spec);
        self.w.chans[ci].spec = spec.clone();
        self.w.chans[ci].setup = setup;
        self.w.chans[ci].cp = cp;
        // channels with an even dbid get a permanent id different from their initial one
        let perm = spec.dbid % 2 == 0;
        let f = crate::chainpool::open_funded_perm(&mut self.w, &spec, &o.fund, perm);
        let mut contents = vec![f.content0.clone()];
        let offered: Vec<Htlc> = if outbound { o.htlcs.iter().enumerate().map(|(j, a)| if o.twins { Htlc { h: 0, sat: AMTS[*a as usize % 3], cltv: 1_000 } } else { Htlc { h: (j % 2) as u8, sat: AMTS[*a as usize % 3], cltv: 1_000 + j as u32 } }).collect() } else { vec![] };
        if o.twins && offered.len() >= 2 {
            self.st.class("open:htlcs-with-identical-scripts");
        }
        if !offered.is_empty() || !outbound {
            let other = if outbound { 0 } else { 600_000 };
            let c = mk_content(o.anchors, outbound, spec.value_sat, 1000, other, offered, vec![]);
            if let Err(e) = advance(&mut self.w, f.ci, 1, &c) {
                // the round was refused by policy: this channel state cannot be reached
                self.st.class("setup_refused");
                if std::env::var("VERIF_ERRCLASS").is_ok() {
                    self.st.class(format!("E:setup:{}", crate::props::holder::short_err(&e)));
                }
                self.stopped = true;
                return Ok(());
            }
            contents.push(c);
        }
        let n = contents.len() as u64 - 1;
        let revoked = if n >= 1 { Some((n - 1, &contents[n as usize - 1])) } else { None };
        let ct = ChanTxs::build(&self.w, &f, (n, &contents[n as usize]), (n, &contents[n as usize]), revoked);
        self.ctxs.push(ct);
        let t = self.ctxs.len() - 1;
        let m = self.chans.iter_mut().find(|m| !m.gone && m.dbid == dbid && m.peer == peer).expect("model channel");
        m.ready = true;
        m.tx_idx = Some(t);
        m.ci = f.ci;
        self.st.class(format!("open:{}{}{}", if outbound { "outbound" } else { "inbound" }, if o.anchors { ":anchors" } else { "" }, if n >= 1 && outbound { ":htlcs" } else { "" }));
        self.push_shape("O".into());
        Ok(())
    }

    fn forget(&mut self, i: usize, dbid: u64, peer: u8) -> Result<(), Violation> {
        let mut spec = ChanSpec::basic(dbid);
        spec.peer = peer;
        let id0 = World::channel_id(&spec);
        let node = self.w.node.clone();
        let r = self.w.txn(|| call(|| node.forget_channel(&id0))).0;
        let tip = self.sim.height();
        let k = self.chans.iter().position(|m| !m.gone && m.dbid == dbid && m.peer == peer);
        let target = match k {
            None => "absent".to_string(),
            Some(k) => {
                let m = &self.chans[k];
                if !m.ready {
                    "stub".into()
                } else {
                    let f = self.facts(m);
                    match f.deepest(tip) {
                        Some((kind, _, conf)) => format!("ready:{}:{}", kind, rel_bucket(conf)),
                        None => if f.close.is_some() { "ready:closing".into() } else { "ready:open".into() },
                    }
                }
            }
        };
        self.st.class(format!("forget:{}:{}", target.split(':').take(2).collect::<Vec<_>>().join(":"), r.tag()));
        self.push_shape(format!("F:{}:{}", target, r.tag()));
        self.note(i, json!({"forget": dbid, "peer": peer, "target": target, "result": r.tag()}));
        if let (Out::Ok(()), Some(k)) = (&r, k) {
            let f = self.facts(&self.chans[k]);
            let closed = f.deepest(tip).is_some() || f.close.is_some();
            let m = &mut self.chans[k];
            if !m.forget_acked {
                m.forget_after_close = closed;
            }
            m.forget_acked = true;
            self.forgotten.push((dbid, self.restarts));
        }
        Ok(())
    }

    fn heartbeat(&mut self, i: usize) {
        let tip = self.sim.height();
        let mut desc: Vec<String> = vec![];
        for m in self.chans.iter().filter(|m| !m.gone && m.ready) {
            let f = self.facts(m);
            let d = match f.deepest(tip) {
                Some((kind, _, conf)) => {
                    if conf + 2 >= REQUIRED_CONFIRMATIONS && conf <= REQUIRED_CONFIRMATIONS + 2 {
                        self.nontrivial = true;
                        self.st.class(format!("heartbeat_near_threshold:{}:{}:{}", kind, rel_bucket(conf), if m.forget_acked { "forget" } else { "noforget" }));
                    }
                    format!("{}{}:{}", kind, rel_bucket(conf), if m.forget_acked { if m.forget_after_close { "fa" } else { "fb" } } else { "nf" })
                }
                None => match f.close {
                    Some((h, _)) => {
                        let conf = tip - h + 1;
                        if conf >= REQUIRED_CONFIRMATIONS {
                            self.st.class(format!("heartbeat_on_unswept_close_buried:{}", if m.forget_acked { "forget" } else { "noforget" }));
                        }
                        format!("closing{}:{}", rel_bucket(conf), if m.forget_acked { "f" } else { "nf" })
                    }
                    None => format!("open:{}", if m.forget_acked { "f" } else { "nf" }),
                },
            };
            desc.push(d);
        }
        let node = self.w.node.clone();
        let r = match self.pw.as_mut() {
            Some(pw) => {
                let r = pw.request(To::Root, vls_protocol::msgs::Message::GetHeartbeat(vls_protocol::msgs::GetHeartbeat {}));
                self.st.class(format!("wire:GetHeartbeat:{}", r.tag()));
                match r {
                    Out::Ok(_) => Out::Ok(()),
                    Out::Err(e) => Out::Err(e),
                    Out::Panic(p) => Out::Panic(p),
                }
            }
            None => match self.w.txn(|| call(|| Ok(node.get_heartbeat()))).0 {
                Out::Ok(_) => Out::Ok(()),
                Out::Err(e) => Out::Err(e),
                Out::Panic(p) => Out::Panic(p),
            },
        };
        self.st.class(format!("heartbeat:{}", r.tag()));
        self.push_shape(format!("H:{}:{}", desc.join(","), r.tag()));
        self.note(i, json!({"heartbeat": desc, "result": r.tag()}));
        if r.is_panic() {
            self.stopped = true;
        }
    }

    fn ready_pick(&self, k: u16) -> Option<MChan> {
        let ready: Vec<&MChan> = self.chans.iter().filter(|m| m.ready).collect();
        if ready.is_empty() {
            None
        } else {
            Some(ready[pick_idx(k, ready.len())].clone())
        }
    }

    fn step(&mut self, i: usize, op: &Op) -> Result<(), Violation> {
        match op {
            Op::NewStub { dbid, peer } => {
                self.new_channel(i, *dbid, *peer)?;
                if !self.stopped {
                    self.observe(i, "new_channel")?;
                }
            }
            Op::Open(o) => {
                self.open(i, o)?;
                if !self.stopped {
                    self.observe(i, "open")?;
                }
            }
            Op::Forget { k } => {
                if self.w.chans.is_empty() {
                    return Ok(());
                }
                let c = &self.w.chans[pick_idx(*k, self.w.chans.len())];
                let (dbid, peer) = (c.spec.dbid, c.spec.peer);
                self.forget(i, dbid, peer)?;
                self.observe(i, "forget_channel")?;
            }
            Op::ForgetId { dbid, peer } => {
                self.forget(i, *dbid as u64, *peer)?;
                self.observe(i, "forget_channel")?;
            }
            Op::Heartbeat => {
                self.heartbeat(i);
                if !self.stopped {
                    self.observe(i, "heartbeat")?;
                }
            }
            Op::Block { txs } => {
                if self.blocks_mined >= self.block_cap {
                    return Ok(());
                }
                if self.connect(txs) {
                    let cats = block_categories(&self.sim.blocks.last().unwrap().txs);
                    self.push_shape(format!("B:{}", cats));
                    self.note(i, json!({"block": self.sim.blocks.last().unwrap().txs.iter().map(|t| t.kind).collect::<Vec<_>>()}));
                    self.observe(i, "add_block")?;
                }
            }
            Op::Empty { n } => {
                let done = self.mine_empty(*n as u32);
                self.push_shape("E".into());
                self.note(i, json!({"empty_blocks": done}));
                if !self.stopped {
                    self.observe(i, "add_block")?;
                }
            }
            Op::EmptyMany { n } => {
                let cap = self.block_cap;
                self.block_cap = cap.saturating_add(*n as u32);
                let done = self.mine_empty(*n as u32);
                self.block_cap = cap.saturating_add(done);
                self.push_shape("EM".into());
                self.st.class("aged_beyond_2016_blocks");
                self.note(i, json!({"empty_blocks": done}));
                if !self.stopped {
                    self.observe(i, "add_block")?;
                }
            }
            Op::Bury { k, rel } => {
                let Some(m) = self.ready_pick(*k) else { return Ok(()) };
                let tip = self.sim.height();
                let f = self.facts(&m);
                let ref_h = f.deepest(tip).map(|(_, h, _)| h).or(f.close.map(|c| c.0)).or(f.funding).unwrap_or(m.created_height.max(1));
                let cur = tip + 1 - ref_h.min(tip + 1);
                let target = (REQUIRED_CONFIRMATIONS as i64 + *rel as i64).max(0) as u32;
                let done = self.mine_empty(target.saturating_sub(cur));
                self.push_shape(format!("Y:{}", rel));
                self.note(i, json!({"bury": m.dbid, "rel": rel, "reference_height": ref_h, "blocks": done}));
                if !self.stopped {
                    self.observe(i, "add_block")?;
                }
            }
            Op::Disconnect { depth } => {
                let d = (*depth as u32).min(self.sim.height());
                let mut done = 0;
                for _ in 0..d {
                    if !self.disconnect() {
                        break;
                    }
                    done += 1;
                }
                self.st.class(format!("reorg_depth:{}", if done == 0 { "0".to_string() } else if done <= 6 { "1-6".to_string() } else { ">6".to_string() }));
                self.push_shape("D".into());
                self.note(i, json!({"disconnected": done}));
                if !self.stopped {
                    self.observe(i, "remove_block")?;
                }
            }
            Op::Unbury { k, sweep_only } => {
                let Some(m) = self.ready_pick(*k) else { return Ok(()) };
                let tip = self.sim.height();
                let f = self.facts(&m);
                let Some((kind, h, conf)) = f.deepest(tip) else { return Ok(()) };
                let down_to = if kind == "swept" && !*sweep_only { f.close.map(|c| c.0).unwrap_or(h) } else { h };
                let mut done = 0;
                while self.sim.height() >= down_to && self.sim.height() > 0 {
                    if !self.disconnect() {
                        break;
                    }
                    done += 1;
                }
                self.st.class(format!("unbury:{}:{}{}", kind, rel_bucket(conf), if self.sim.height() < down_to { "" } else { ":incomplete" }));
                self.push_shape(format!("U:{}:{}", kind, rel_bucket(conf)));
                self.note(i, json!({"unbury": m.dbid, "event": kind, "confirmations": conf, "disconnected": done}));
                if !self.stopped {
                    self.observe(i, "remove_block")?;
                }
            }
            Op::Restart => {
                let r = match self.pw.as_mut() {
                    // a second signer built by HandlerBuilder from a copy of the store
                    Some(pw) => {
                        let r = pw.restart();
                        if r.is_ok() {
                            self.w.rebind_proto(pw);
                        }
                        r
                    }
                    None => self.w.restart(),
                };
                self.st.class(format!("restart:{}", r.tag()));
                self.push_shape(format!("R:{}", r.tag()));
                self.note(i, json!({"restart": r.tag(), "msg": r.err_msg()}));
                match r {
                    Out::Ok(()) => {
                        self.restarts += 1;
                        if self.pw.is_some() && !self.resync_after_restart() {
                            return Ok(());
                        }
                        // the tracker must have come back at the model's tip (the harness persisted
                        // it after every block like the protocol handler)
                        let h = self.w.node.get_tracker().height();
                        assert_eq!(h, self.sim.height(), "restored tracker height differs from the model's chain");
                        self.observe(i, "restart")?;
                    }
                    o => {
                        let v = Violation::new(
                            "C15:restart-failed",
                            format!("request {}: the signer could not be rebuilt from its store, so no channel survived the restart: {}", i, o.err_msg()),
                        );
                        self.ctx.report(self.st, v)?;
                        self.stopped = true;
                    }
                }
            }
        }
        Ok(())
    }
}

pub struct C15;

impl Prop for C15 {
    type Case = Case;
    fn id(&self) -> &'static str {
        "C15"
    }
    fn rule(&self) -> String {
        "A regtest node driven through new_channel(dbid 1-5, peer 1-2), channel opens (real funding transaction, setup_channel, initial \
         commitments; outbound with the funding signed by the signer, or inbound; anchors or not; 0-2 offered HTLCs), forget_channel (of \
         created or never created ids), get_heartbeat, ChainTracker add_block / remove_block (+ update_tracker, as the protocol handler) \
         and restarts from a copy of the store.  60 % of the histories are life cycles of one channel (kinds: open, funding double-spend, \
         mutual close, holder / counterparty commitment fully swept incl. HTLC and second-level spends, main output swept only, nothing \
         swept) with the forget request before funding / before the close / after the close / after burial / never, an optional reorg \
         (un-bury the sweep or the whole close, optionally re-mined), burial of the terminal event to 100-2..100+2 confirmations, an optional \
         reorg of the last 1-4 burying blocks (rarely of everything down to below the event), heartbeats \
         and restarts in between, then 0-3 blocks more and new_channel attempts at or below / above the forgotten id before and after a \
         restart, plus 0-4 random extra requests inserted anywhere; 25 % are random request sequences over the same alphabet; 15 % are \
         block-free id histories (new_channel / forget / restart / heartbeat).  Oracle after every request, from the harness's own chain \
         model and its record of acknowledged forgets: a ready channel is missing from Node::get_channel or from the store only if forget \
         was acknowledged and a funding double-spend, a mutual close or a unilateral close whose node outputs (main output, offered \
         HTLCs, second-stage outputs on the node's own commitment) are all spent has tip-height+1 >= 100 confirmations on the model's \
         best chain; new_channel(d' <= acknowledged forgotten d) never creates a channel.  Non-trivial: a heartbeat while a ready \
         channel has a terminal event at 98-102 confirmations, or a new_channel at or below a forgotten id after a restart; distinct by \
         the abstracted request sequence (close kind, depth bucket, forget before/after close, restart positions, results)."
            .into()
    }
    fn assumptions(&self) -> Vec<String> {
        vec![
            "the required burial is 100 confirmations counting the block that holds the event (the documented depth constant of monitor.rs, depth as reported by funding_depth())".into(),
            "the node's outputs of a unilateral close are its main output, the HTLCs it offered and, on its own commitment, the output paired with each HTLC input of a second-stage shaped spend; received HTLCs are not required by the model (the signer may require more: over-retention is not a violation)".into(),
            "a forget request counts as acknowledged for a channel only if it returned Ok while the channel (stub or ready) existed; forget of an unknown id is a no-op and forbids nothing".into(),
            "stubs (never set up) may disappear on forget or by the stub age rule; the re-creation of an id whose stub was pruned by age is recorded, not flagged".into(),
            "new_channel of an id that currently exists returns the existing channel and is not a creation".into(),
            "blocks are delivered one request at a time and the tracker is persisted after each, as the AddBlock / RemoveBlock handlers do; crash points are between requests".into(),
            "an abort of the signer while connecting / disconnecting a block belongs to C14 and ends the history here".into(),
        ]
    }
    fn cases(&self, tier: Tier) -> u32 {
        tier.pick(600, 3000)
    }
    fn min_nontrivial(&self, tier: Tier) -> usize {
        tier.pick(600, 6000)
    }
    fn max_shrink_iters(&self) -> u32 {
        150
    }

    fn strategy(&self, tier: Tier) -> BoxedStrategy<Case> {
        strategy(tier)
    }

    fn fixed_cases(&self) -> Vec<Case> {
        let spec = |dbid: u8, htlcs: Vec<u8>| OpenSpec { dbid, peer: 1, anchors: false, outbound: true, fund: FundSpec { two_inputs: true, funding_first: true }, htlcs, twins: false };
        let blk = |txs: Vec<TxSel>| Op::Block { txs };
        let forget = |dbid: u8| Op::ForgetId { dbid, peer: 1 };
        let hs = TxSel::HtlcSpend { c: 0, which: vec![0], fee: FeePos::None, merge: false, salt: 0 };
        let mut v = vec![];
        // every terminal event, forget before it, pruning asked for one block early, on time, late
        for close in [vec![blk(vec![TxSel::Funding { c: 0 }]), blk(vec![TxSel::Mutual { c: 0, salt: 0 }])], vec![blk(vec![TxSel::DoubleSpend { c: 0, input: 1, salt: 0 }])], vec![blk(vec![TxSel::Funding { c: 0 }]), blk(vec![TxSel::CpCommit { c: 0 }]), blk(vec![TxSel::SweepOurs { c: 0, salt: 0 }])]] {
            let mut ops = vec![Op::Open(spec(3, vec![])), forget(3)];
            ops.extend(close);
            ops.extend([Op::Bury { k: 0, rel: -1 }, Op::Heartbeat, Op::Restart, Op::Heartbeat, Op::Empty { n: 1 }, Op::Heartbeat, Op::NewStub { dbid: 3, peer: 2 }, Op::Restart, Op::NewStub { dbid: 2, peer: 1 }, Op::NewStub { dbid: 4, peer: 1 }]);
            v.push(Case { ops, wire: false, stream: 0 });
        }
        // no forget request: survives any depth
        v.push(Case { ops: vec![Op::Open(spec(2, vec![])), blk(vec![TxSel::Funding { c: 0 }]), blk(vec![TxSel::Mutual { c: 0, salt: 0 }]), Op::Bury { k: 0, rel: 2 }, Op::Heartbeat, Op::Restart, Op::Heartbeat], wire: false, stream: 0 });
        // own commitment with an HTLC: main output, HTLC, second level swept one by one; the last sweep is reorged out
        v.push(Case {
            ops: vec![
                Op::Open(spec(2, vec![1])),
                blk(vec![TxSel::Funding { c: 0 }]),
                blk(vec![TxSel::HolderCommit { c: 0 }]),
                forget(2),
                blk(vec![TxSel::SweepOurs { c: 0, salt: 0 }]),
                Op::Bury { k: 0, rel: 1 },
                Op::Heartbeat,
                blk(vec![hs.clone()]),
                Op::Bury { k: 0, rel: 1 },
                Op::Heartbeat,
                blk(vec![TxSel::SecondLevel { c: 0, k: 0, salt: 0 }]),
                Op::Unbury { k: 0, sweep_only: true },
                Op::Bury { k: 0, rel: 2 },
                Op::Heartbeat,
                Op::Restart,
                Op::Heartbeat,
            ],
            wire: false,
            stream: 0,
        });
        // a stub is forgotten: its id and lower ones stay refused across a restart
        v.push(Case { ops: vec![Op::NewStub { dbid: 3, peer: 1 }, forget(3), Op::NewStub { dbid: 3, peer: 1 }, Op::NewStub { dbid: 2, peer: 2 }, Op::Restart, Op::NewStub { dbid: 3, peer: 2 }, Op::NewStub { dbid: 1, peer: 1 }, Op::NewStub { dbid: 4, peer: 1 }], wire: false, stream: 0 });
        // the same histories with wire delivery
        let wired: Vec<Case> = v.iter().map(|c| Case { ops: c.ops.clone(), wire: true, stream: 0 }).collect();
        v.extend(wired);
        v
    }

    fn run(&self, case: &Case, st: &mut CaseStats, ctx: &Ctx) -> Result<(), Violation> {
        let t0 = std::time::Instant::now();
        let pw = if case.wire { Some(ProtoWorld::new(regtest_cfg(), 6, Negotiation::SignerCap)) } else { None };
        let w = match pw.as_ref() {
            Some(pw) => World::from_proto(pw),
            None => World::new(regtest_cfg()),
        };
        st.class(if case.wire { "wire_delivery" } else { "api_delivery" });
        let payee = PublicKey::from_secret_key(&w.secp, &SecretKey::from_slice(&[5u8; 32]).unwrap());
        for h in 0u8..2 {
            w.node.add_keysend(payee, phash(h), 2_000_000_000).expect("keysend");
        }
        let mut run = Run {
            w,
            sim: ChainSim::new(Network::Regtest),
            ctxs: vec![],
            chans: vec![],
            forgotten: vec![],
            stub_pruned: vec![],
            restarts: 0,
            blocks_mined: 0,
            block_cap: BLOCK_CAP,
            salt: 0,
            shape: vec![],
            nontrivial: false,
            trace: vec![],
            stopped: false,
            st: &mut *st,
            ctx,
            debug: std::env::var("VERIF_C15_DEBUG").is_ok(),
            pw,
            wlog: WireLog::default(),
            stale: vec![],
            stream: if case.wire { 0 } else { case.stream.min(3) },
        };
        let mut res = Ok(());
        for (i, op) in case.ops.iter().enumerate() {
            if run.stopped {
                break;
            }
            if let Err(v) = run.step(i, op) {
                res = Err(v);
                break;
            }
        }
        let (shape, nontrivial, trace, blocks, restarts) = (run.shape.clone(), run.nontrivial, run.trace.clone(), run.blocks_mined, run.restarts);
        drop(run);
        st.class(format!("blocks_per_history:{}", if blocks == 0 { "0" } else if blocks < 100 { "1-99" } else if blocks < 200 { "100-199" } else { "200+" }));
        st.class(format!("restarts_per_history:{}", restarts.min(3)));
        st.sample = Some(json!({"ops": case.ops.len(), "trace": trace}));
        if nontrivial {
            st.class("nontrivial");
            if case.wire {
                st.class("wire:nontrivial");
                st.nontrivial_shape(("wire", shape));
            } else {
                st.nontrivial_shape(shape);
            }
        }
        if std::env::var("VERIF_C15_TIMING").is_ok() {
            eprintln!("TIMING {} ms blocks={} ops={}", t0.elapsed().as_millis(), blocks, case.ops.len());
        }
        res
    }
}

// ---------------------------------------------------------------------------------------------
// generators

#[derive(Clone, Debug)]
enum CloseKind {
    StaysOpen,
    Dspend,
    Mutual,
    HolderSwept,
    CpSwept,
    HolderMainOnly,
    CpMainOnly,
    HolderUnswept,
    CpUnswept,
    /// main output and all HTLC outputs but one (the first or the last in output order) swept
    HolderAllButOne(bool),
    CpAllButOne(bool),
    /// the holder's commitment: main output and every HTLC output spent by first-level HTLC
    /// transactions (with a fee input in front, behind, or none), whose outputs stay unswept
    HolderFirstLevelOnly(u8),
}

#[derive(Clone, Debug)]
enum ForgetAt {
    Never,
    BeforeFunding,
    BeforeClose,
    AfterClose,
    AfterBury,
}

#[derive(Clone, Debug)]
enum Reorg {
    None,
    UnburySweep,
    UnburyClose,
    Small(u8),
}

fn open_spec() -> impl Strategy<Value = OpenSpec> {
    (1u8..=5, 1u8..=2, prop::bool::weighted(0.3), prop::bool::weighted(0.75), any::<bool>(), any::<bool>(), prop_oneof![3 => Just(vec![]), 2 => proptest::collection::vec(0u8..3, 1..3), 1 => proptest::collection::vec(0u8..3, 2..4)], prop::bool::weighted(0.35))
        .prop_map(|(dbid, peer, anchors, outbound, two_inputs, funding_first, htlcs, twins)| OpenSpec { dbid, peer, anchors, outbound, fund: FundSpec { two_inputs, funding_first }, htlcs, twins })
}

fn tx_sel() -> impl Strategy<Value = TxSel> {
    let c = 0u8..3;
    prop_oneof![
        4 => c.clone().prop_map(|c| TxSel::Funding { c }),
        2 => (c.clone(), 0u8..2, 0u8..2).prop_map(|(c, input, salt)| TxSel::DoubleSpend { c, input, salt }),
        3 => (c.clone(), 0u8..2).prop_map(|(c, salt)| TxSel::Mutual { c, salt }),
        3 => c.clone().prop_map(|c| TxSel::HolderCommit { c }),
        3 => c.clone().prop_map(|c| TxSel::CpCommit { c }),
        1 => c.clone().prop_map(|c| TxSel::CpRevoked { c }),
        5 => (c.clone(), 0u8..2).prop_map(|(c, salt)| TxSel::SweepOurs { c, salt }),
        1 => c.clone().prop_map(|c| TxSel::SweepTheirs { c }),
        4 => (c.clone(), proptest::collection::vec(any::<u16>(), 1..3), prop::bool::weighted(0.1), 0u8..2, prop_oneof![3 => Just(FeePos::None), 1 => Just(FeePos::First), 1 => Just(FeePos::Last)]).prop_map(|(c, which, merge, salt, fee)| TxSel::HtlcSpend { c, which, fee, merge, salt }),
        3 => (c.clone(), any::<u16>(), 0u8..2).prop_map(|(c, k, salt)| TxSel::SecondLevel { c, k, salt }),
        1 => (0u8..6).prop_map(|n| TxSel::Noise { n }),
    ]
}

fn rel() -> impl Strategy<Value = i8> {
    prop_oneof![2 => Just(-2i8), 3 => Just(-1i8), 4 => Just(0i8), 3 => Just(1i8), 2 => Just(2i8)]
}

/// a cheap request that can be inserted anywhere
fn extra_op() -> impl Strategy<Value = Op> {
    prop_oneof![
        5 => Just(Op::Heartbeat),
        4 => Just(Op::Restart),
        2 => (1u8..3).prop_map(|n| Op::Empty { n }),
        1 => (0u8..6).prop_map(|n| Op::Block { txs: vec![TxSel::Noise { n }] }),
        2 => (1u8..=5, 1u8..=2).prop_map(|(dbid, peer)| Op::NewStub { dbid, peer }),
        1 => (1u8..=5, 1u8..=2).prop_map(|(dbid, peer)| Op::ForgetId { dbid, peer }),
        1 => any::<u16>().prop_map(|k| Op::Forget { k }),
        1 => (1u8..3).prop_map(|depth| Op::Disconnect { depth }),
    ]
}

fn life_cycle() -> impl Strategy<Value = Vec<Op>> {
    let kind = prop_oneof![
        1 => Just(CloseKind::StaysOpen),
        3 => Just(CloseKind::Dspend),
        4 => Just(CloseKind::Mutual),
        4 => Just(CloseKind::HolderSwept),
        4 => Just(CloseKind::CpSwept),
        2 => Just(CloseKind::HolderMainOnly),
        2 => Just(CloseKind::CpMainOnly),
        1 => Just(CloseKind::HolderUnswept),
        1 => Just(CloseKind::CpUnswept),
        2 => any::<bool>().prop_map(CloseKind::HolderAllButOne),
        2 => any::<bool>().prop_map(CloseKind::CpAllButOne),
        3 => (0u8..3).prop_map(CloseKind::HolderFirstLevelOnly),
    ];
    let forget_at = prop_oneof![
        2 => Just(ForgetAt::Never),
        1 => Just(ForgetAt::BeforeFunding),
        3 => Just(ForgetAt::BeforeClose),
        4 => Just(ForgetAt::AfterClose),
        3 => Just(ForgetAt::AfterBury),
    ];
    let reorg = prop_oneof![
        6 => Just(Reorg::None),
        3 => Just(Reorg::UnburySweep),
        2 => Just(Reorg::UnburyClose),
        1 => (1u8..4).prop_map(Reorg::Small),
    ];
    let reuse = proptest::collection::vec((0u8..4, 1u8..=2, prop::bool::weighted(0.6)), 0..4);
    (
        (open_spec(), kind, forget_at, reorg, any::<bool>(), any::<bool>()),
        (rel(), 0u8..9, 0u8..8, reuse, prop::bool::weighted(0.3), prop_oneof![12 => Just(0u8), 2 => Just(1u8), 2 => Just(2u8), 1 => Just(3u8), 1 => Just(4u8), 1 => Just(u8::MAX)]),
        proptest::collection::vec((any::<u16>(), extra_op()), 0..5),
        prop::bool::weighted(0.2),
    )
        .prop_map(|((mut spec, kind, forget_at, reorg, same_block, remine), (rel, more, restarts, reuse, second, late), extras, aged)| {
            // room below and above the id for reuse attempts
            spec.dbid = spec.dbid.clamp(2, 4);
            let mut ops: Vec<Op> = vec![];
            if second {
                // an unrelated, higher id that stays open
                ops.push(Op::Open(OpenSpec { dbid: 5, peer: 1, anchors: false, outbound: true, fund: FundSpec { two_inputs: false, funding_first: true }, htlcs: vec![], twins: false }));
            }
            ops.push(Op::Open(spec.clone()));
            // the life-cycle channel is ready channel number `c`
            let c = if second { 1u8 } else { 0u8 };
            let k = if second { u16::MAX } else { 0u16 };
            let forget = Op::ForgetId { dbid: spec.dbid, peer: spec.peer };
            if matches!(forget_at, ForgetAt::BeforeFunding) {
                ops.push(forget.clone());
            }
            let n_htlc = if spec.outbound { spec.htlcs.len() } else { 0 };
            let all_htlcs = TxSel::HtlcSpend { c, which: vec![0; n_htlc.max(1)], fee: FeePos::None, merge: false, salt: 0 };
            let seconds: Vec<TxSel> = (0..n_htlc).map(|j| TxSel::SecondLevel { c, k: 0, salt: j as u8 }).collect();
            let mut close_blocks: Vec<Vec<TxSel>> = vec![];
            match kind {
                CloseKind::Dspend => {
                    // the funding of the life-cycle channel never confirms
                    ops.push(Op::Block { txs: if second { vec![TxSel::Funding { c: 0 }] } else { vec![TxSel::Noise { n: 0 }] } });
                    if matches!(forget_at, ForgetAt::BeforeClose) {
                        ops.push(forget.clone());
                    }
                    close_blocks.push(vec![TxSel::DoubleSpend { c, input: 0, salt: 0 }]);
                }
                _ => {
                    ops.push(Op::Block { txs: vec![TxSel::Funding { c: 0 }, TxSel::Funding { c: 1 }] });
                    if matches!(forget_at, ForgetAt::BeforeClose) {
                        ops.push(forget.clone());
                    }
                    let (commit, sweeps): (Option<TxSel>, Vec<Vec<TxSel>>) = match kind {
                        CloseKind::StaysOpen | CloseKind::Dspend => (None, vec![]),
                        CloseKind::Mutual => (Some(TxSel::Mutual { c, salt: 0 }), vec![]),
                        CloseKind::HolderSwept => (Some(TxSel::HolderCommit { c }), vec![vec![TxSel::SweepOurs { c, salt: 0 }, all_htlcs.clone()], seconds.clone()]),
                        CloseKind::CpSwept => (Some(TxSel::CpCommit { c }), vec![vec![TxSel::SweepOurs { c, salt: 0 }, all_htlcs.clone()]]),
                        CloseKind::HolderMainOnly => (Some(TxSel::HolderCommit { c }), vec![vec![TxSel::SweepOurs { c, salt: 0 }]]),
                        CloseKind::CpMainOnly => (Some(TxSel::CpCommit { c }), vec![vec![TxSel::SweepOurs { c, salt: 0 }]]),
                        CloseKind::HolderAllButOne(skip_first) | CloseKind::CpAllButOne(skip_first) => {
                            let holder = matches!(kind, CloseKind::HolderAllButOne(_));
                            let commit = if holder { TxSel::HolderCommit { c } } else { TxSel::CpCommit { c } };
                            let m = n_htlc.saturating_sub(1);
                            let mut first = vec![TxSel::SweepOurs { c, salt: 0 }];
                            if m > 0 {
                                first.push(TxSel::HtlcSpend { c, which: vec![if skip_first { u16::MAX } else { 0 }; m], fee: FeePos::None, merge: false, salt: 0 });
                            }
                            let snd: Vec<TxSel> = if holder { (0..m).map(|j| TxSel::SecondLevel { c, k: 0, salt: j as u8 }).collect() } else { vec![] };
                            (Some(commit), vec![first, snd])
                        }
                        CloseKind::HolderFirstLevelOnly(fp) => {
                            let fee = match fp % 3 { 0 => FeePos::None, 1 => FeePos::First, _ => FeePos::Last };
                            let mut first = vec![TxSel::SweepOurs { c, salt: 0 }];
                            if n_htlc > 0 {
                                first.push(TxSel::HtlcSpend { c, which: vec![0; n_htlc], fee, merge: false, salt: 0 });
                            }
                            (Some(TxSel::HolderCommit { c }), vec![first])
                        }
                        CloseKind::HolderUnswept => (Some(TxSel::HolderCommit { c }), vec![]),
                        CloseKind::CpUnswept => (Some(TxSel::CpCommit { c }), vec![]),
                    };
                    if let Some(commit) = commit {
                        if same_block {
                            let mut b = vec![commit];
                            for s in sweeps.iter() {
                                b.extend(s.iter().cloned());
                            }
                            close_blocks.push(b);
                        } else {
                            close_blocks.push(vec![commit]);
                            for s in sweeps {
                                if !s.is_empty() {
                                    close_blocks.push(s);
                                }
                            }
                        }
                    }
                }
            }
            for b in close_blocks.iter() {
                ops.push(Op::Block { txs: b.clone() });
            }
            if matches!(forget_at, ForgetAt::AfterClose) {
                ops.push(forget.clone());
            }
            match reorg {
                Reorg::None => {}
                Reorg::UnburySweep => ops.push(Op::Unbury { k, sweep_only: true }),
                Reorg::UnburyClose => ops.push(Op::Unbury { k, sweep_only: false }),
                Reorg::Small(d) => ops.push(Op::Disconnect { depth: d }),
            }
            if !matches!(reorg, Reorg::None) && remine {
                for b in close_blocks.iter() {
                    ops.push(Op::Block { txs: b.clone() });
                }
            }
            ops.push(Op::Bury { k, rel });
            // a unilateral close whose outputs are not all swept grows old (beyond 2016 blocks)
            if aged && matches!(kind, CloseKind::HolderMainOnly | CloseKind::CpMainOnly | CloseKind::HolderUnswept | CloseKind::CpUnswept | CloseKind::HolderAllButOne(_) | CloseKind::CpAllButOne(_) | CloseKind::HolderFirstLevelOnly(_)) {
                ops.push(Op::EmptyMany { n: (2016 - 100 + 4 + rel as i32) as u16 });
            }
            // a reorg of the burying blocks before the signer is asked to prune: a few blocks, or
            // (rarely) everything down to below the terminal event
            if late == u8::MAX {
                ops.push(Op::Unbury { k, sweep_only: true });
            } else if late > 0 {
                ops.push(Op::Disconnect { depth: late });
            }
            ops.push(Op::Heartbeat);
            if restarts & 1 != 0 {
                ops.push(Op::Restart);
                ops.push(Op::Heartbeat);
            }
            if matches!(forget_at, ForgetAt::AfterBury) {
                ops.push(forget.clone());
                if restarts & 2 != 0 {
                    ops.push(Op::Restart);
                }
                ops.push(Op::Heartbeat);
            }
            if more > 0 {
                ops.push(Op::Empty { n: more });
                ops.push(Op::Heartbeat);
            }
            if restarts & 4 != 0 {
                ops.push(Op::Restart);
                ops.push(Op::Heartbeat);
            }
            for (below, peer, restart_first) in reuse {
                if restart_first {
                    ops.push(Op::Restart);
                }
                // at, below or (below == 3) above the forgotten id
                let dbid = if below == 3 { spec.dbid + 1 } else { spec.dbid.saturating_sub(below).max(1) };
                ops.push(Op::NewStub { dbid, peer });
            }
            for (pos, op) in extras {
                let at = 1 + pick_idx(pos, ops.len());
                ops.insert(at, op);
            }
            ops
        })
}

fn free_history(max_ops: usize) -> impl Strategy<Value = Vec<Op>> {
    let op = prop_oneof![
        2 => open_spec().prop_map(Op::Open),
        2 => (1u8..=5, 1u8..=2).prop_map(|(dbid, peer)| Op::NewStub { dbid, peer }),
        4 => any::<u16>().prop_map(|k| Op::Forget { k }),
        1 => (1u8..=5, 1u8..=2).prop_map(|(dbid, peer)| Op::ForgetId { dbid, peer }),
        5 => Just(Op::Heartbeat),
        8 => proptest::collection::vec(tx_sel(), 1..4).prop_map(|txs| Op::Block { txs }),
        2 => (1u8..6).prop_map(|n| Op::Empty { n }),
        3 => (any::<u16>(), rel()).prop_map(|(k, rel)| Op::Bury { k, rel }),
        2 => (1u8..5).prop_map(|depth| Op::Disconnect { depth }),
        1 => (any::<u16>(), any::<bool>()).prop_map(|(k, sweep_only)| Op::Unbury { k, sweep_only }),
        3 => Just(Op::Restart),
    ];
    (open_spec(), prop::bool::weighted(0.8), proptest::collection::vec(op, 6..max_ops)).prop_map(|(spec, prefix, mut ops)| {
        if prefix {
            ops.insert(0, Op::Open(spec));
            ops.insert(1, Op::Block { txs: vec![TxSel::Funding { c: 0 }] });
        }
        ops
    })
}

/// block-free histories about ids
fn id_history() -> impl Strategy<Value = Vec<Op>> {
    let op = prop_oneof![
        6 => (1u8..=5, 1u8..=2).prop_map(|(dbid, peer)| Op::NewStub { dbid, peer }),
        1 => open_spec().prop_map(Op::Open),
        3 => any::<u16>().prop_map(|k| Op::Forget { k }),
        2 => (1u8..=5, 1u8..=2).prop_map(|(dbid, peer)| Op::ForgetId { dbid, peer }),
        2 => Just(Op::Heartbeat),
        3 => Just(Op::Restart),
    ];
    proptest::collection::vec(op, 4..14)
}

fn strategy(tier: Tier) -> BoxedStrategy<Case> {
    let max_ops = tier.pick(22usize, 36usize);
    prop_oneof![
        60 => life_cycle(),
        25 => free_history(max_ops),
        15 => id_history(),
    ]
    .prop_flat_map(|ops| (prop::bool::weighted(0.3), prop_oneof![3 => Just(0u8), 1 => Just(1u8), 1 => Just(3u8)]).prop_map(move |(wire, stream)| Case { ops: ops.clone(), wire, stream: if wire { 0 } else { stream } }))
    .boxed()
}
