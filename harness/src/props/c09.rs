//! C09 — sweep and second-level HTLC signatures only move funds back to the node.
//!
//! Sweeps: labelled outputs, version/locktime/sequence drawn around the bounds.
//! HTLC transactions: hand-built BOLT-3 reference transaction +- one mutation.

use crate::engine::*;
use crate::props::holder::short_err;
use crate::world::*;
use lightning_signer::bitcoin;
use lightning_signer::bitcoin::absolute::LockTime;
use lightning_signer::bitcoin::bip32::{ChildNumber, DerivationPath, Xpriv, Xpub};
use lightning_signer::bitcoin::hashes::Hash;
use lightning_signer::bitcoin::key::UntweakedPublicKey;
use lightning_signer::bitcoin::opcodes::all::*;
use lightning_signer::bitcoin::script::Builder;
use lightning_signer::bitcoin::secp256k1::{Message, PublicKey, SecretKey};
use lightning_signer::bitcoin::sighash::{EcdsaSighashType, SighashCache};
use lightning_signer::bitcoin::transaction::Version;
use lightning_signer::bitcoin::{Address, Amount, CompressedPublicKey, Network, OutPoint, ScriptBuf, Sequence, Transaction, TxIn, TxOut, Txid, Witness};
use lightning_signer::lightning::ln::chan_utils::{get_htlc_redeemscript, HTLCOutputInCommitment};
use lightning_signer::lightning::ln::channel_keys::{DelayedPaymentKey, HtlcKey, RevocationKey};
use proptest::prelude::*;
use serde::{Deserialize, Serialize};
use serde_json::json;

#[derive(Clone, Debug, Serialize, Deserialize, PartialEq, Eq, Hash)]
pub enum Dest {
    Wallet(u8),
    WalletOtherIndex,
    Allowlisted,
    XpubDerived,
    Foreign,
}

#[derive(Clone, Debug, Serialize, Deserialize, PartialEq, Eq, Hash)]
pub enum LockSel {
    Zero,
    Height(i8),
    Expiry(i8),
    Time,
    Random(u32),
}

#[derive(Clone, Debug, Serialize, Deserialize, PartialEq, Eq, Hash)]
pub enum SeqSel {
    Delay(i8),
    Zero,
    One,
    Fffffffd,
    Fffffffe,
    Ffffffff,
    Random(u32),
}

#[derive(Clone, Debug, Serialize, Deserialize, PartialEq, Eq, Hash)]
pub enum SweepKind {
    Delayed,
    /// counterparty HTLC output: offered (by the counterparty) or received script
    CpHtlc { offered: bool, wellformed: u8 },
    Justice,
}

#[derive(Clone, Debug, Serialize, Deserialize, PartialEq, Eq, Hash)]
pub enum HtlcMut {
    None,
    Delay(i8),
    RevocationKey,
    DelayedKey,
    OutputValue(i32),
    LockTime(i8),
    Sequence(u32),
    Version(u8),
    ExtraInput,
    ExtraOutput,
    OutputScriptByte(u8),
    PrevoutVout,
    RedeemscriptOther,
    /// the to-local output uses the contest delay the *other* party selected (the two delays are
    /// easily confused: a holder HTLC tx is delayed by the counterparty-selected value and vice versa)
    OtherDelay,
}

#[derive(Clone, Debug, Serialize, Deserialize)]
pub enum Req {
    Sweep { kind: SweepKind, version: u8, lock: LockSel, seqs: Vec<SeqSel>, input: u8, dests: Vec<Dest>, path_idx: u8, path_empty: bool },
    Htlc { counterparty: bool, offered: bool, amount_sel: u8, rate: RateSel, cltv: u32, vout: u8, m: HtlcMut, use_opt_point: bool },
}

#[derive(Clone, Debug, Serialize, Deserialize, PartialEq, Eq, Hash)]
pub enum RateSel {
    Rate(u32),
    Min(i8),
    Max(i8),
    Zero,
    Pow32,
}

#[derive(Clone, Debug, Serialize, Deserialize)]
pub struct Case {
    pub anchors: bool,
    pub outbound: bool,
    pub holder_delay: u16,
    pub cp_delay: u16,
    pub req: Req,
    /// the node runs with the policy filter [policy-sweep-destination-allowlisted: error,
    /// policy-*: warn]: the first matching rule wins, so the destination rule stays mandatory
    /// while everything else is only logged; the oracle then judges the destination rule alone
    #[serde(default)]
    pub carve_out: bool,
    /// allowlist edit history before the request (world::allowlist_edit; 0 = none): afterwards the
    /// plainly allowlisted address is no destination any more
    #[serde(default)]
    pub allow_edit: u8,
    /// the signer runs with the validator factory vlsd uses by default (OnchainValidatorFactory
    /// around the simple validator)
    #[serde(default)]
    pub onchain: bool,
    /// start-up allowlist scenario: the signer is built by HandlerBuilder (as vlsd builds it) with a
    /// start-up allowlist holding one address D ("only used if node is new"); run-time edit (0 none,
    /// 1 remove [D], 2 remove [D, absent], 3 remove [absent, D]); 0-2 restarts with the same
    /// start-up configuration; then a delayed-output sweep (or justice sweep, by `anchors`) paying D
    #[serde(default)]
    pub startup: Option<(u8, u8)>,
}

fn dest_strat() -> impl Strategy<Value = Dest> {
    prop_oneof![8 => (0u8..3).prop_map(Dest::Wallet), 1 => Just(Dest::WalletOtherIndex), 3 => Just(Dest::Allowlisted), 2 => Just(Dest::XpubDerived), 2 => Just(Dest::Foreign)]
}

fn lock_strat() -> impl Strategy<Value = LockSel> {
    prop_oneof![
        3 => Just(LockSel::Zero), 6 => prop_oneof![Just(0i8), Just(1i8), Just(2i8), Just(3i8), Just(-5i8)].prop_map(LockSel::Height),
        5 => prop_oneof![Just(-1i8), Just(0i8), Just(1i8)].prop_map(LockSel::Expiry), 1 => Just(LockSel::Time), 1 => any::<u32>().prop_map(LockSel::Random),
    ]
}

fn seq_strat() -> impl Strategy<Value = SeqSel> {
    prop_oneof![
        6 => prop_oneof![8 => Just(0i8), 1 => Just(1i8), 1 => Just(-1i8)].prop_map(SeqSel::Delay),
        4 => Just(SeqSel::Zero), 3 => Just(SeqSel::One), 3 => Just(SeqSel::Fffffffd), 2 => Just(SeqSel::Fffffffe), 3 => Just(SeqSel::Ffffffff), 1 => any::<u32>().prop_map(SeqSel::Random),
    ]
}

fn sweep_strat() -> impl Strategy<Value = Req> {
    (
        prop_oneof![3 => Just(SweepKind::Delayed), 4 => (any::<bool>(), prop_oneof![8 => Just(0u8), 1 => Just(1u8), 1 => Just(2u8)]).prop_map(|(offered, wellformed)| SweepKind::CpHtlc { offered, wellformed }), 3 => Just(SweepKind::Justice)],
        prop_oneof![10 => Just(2u8), 1 => Just(1u8), 1 => Just(3u8)],
        lock_strat(),
        proptest::collection::vec(seq_strat(), 1..4),
        0u8..3,
        proptest::collection::vec(dest_strat(), 1..4),
        0u8..3,
        prop::bool::weighted(0.1),
    )
        .prop_map(|(kind, version, lock, seqs, input, dests, path_idx, path_empty)| Req::Sweep { kind, version, lock, seqs, input, dests, path_idx, path_empty })
}

fn htlc_strat() -> impl Strategy<Value = Req> {
    (
        any::<bool>(),
        any::<bool>(),
        0u8..3,
        prop_oneof![
            5 => (253u32..30_000).prop_map(RateSel::Rate), 3 => prop_oneof![Just(-3i8), Just(0i8), Just(1i8)].prop_map(RateSel::Min),
            3 => prop_oneof![Just(-1i8), Just(0i8), Just(3i8)].prop_map(RateSel::Max), 1 => Just(RateSel::Zero), 1 => Just(RateSel::Pow32),
        ],
        prop_oneof![Just(1000u32), Just(500_000u32), Just(0u32), 1u32..2_000_000],
        0u8..4,
        prop_oneof![
            6 => Just(HtlcMut::None), 2 => prop_oneof![Just(1i8), Just(-1i8)].prop_map(HtlcMut::Delay), 2 => Just(HtlcMut::RevocationKey), 2 => Just(HtlcMut::DelayedKey),
            2 => prop_oneof![Just(1i32), Just(-1i32), Just(5000i32)].prop_map(HtlcMut::OutputValue), 2 => prop_oneof![Just(1i8), Just(-1i8)].prop_map(HtlcMut::LockTime),
            2 => prop_oneof![Just(0u32), Just(1u32), Just(0xffff_ffffu32), Just(0xffff_fffdu32)].prop_map(HtlcMut::Sequence), 1 => prop_oneof![Just(1u8), Just(3u8)].prop_map(HtlcMut::Version),
            1 => Just(HtlcMut::ExtraInput), 1 => Just(HtlcMut::ExtraOutput), 1 => any::<u8>().prop_map(HtlcMut::OutputScriptByte), 1 => Just(HtlcMut::PrevoutVout), 1 => Just(HtlcMut::RedeemscriptOther), 2 => Just(HtlcMut::OtherDelay),
        ],
        any::<bool>(),
    )
        .prop_map(|(counterparty, offered, amount_sel, rate, cltv, vout, m, use_opt_point)| Req::Htlc { counterparty, offered, amount_sel, rate, cltv, vout, m, use_opt_point })
}

fn path_of(idx: u32) -> DerivationPath {
    vec![ChildNumber::from_normal_idx(idx).unwrap()].into()
}

/// BOLT-3 to_local / HTLC-output script, written by hand
fn revokeable_script(revocation_key: &PublicKey, delay: u16, delayed_key: &PublicKey) -> ScriptBuf {
    Builder::new()
        .push_opcode(OP_IF)
        .push_slice(&revocation_key.serialize())
        .push_opcode(OP_ELSE)
        .push_int(delay as i64)
        .push_opcode(OP_CSV)
        .push_opcode(OP_DROP)
        .push_slice(&delayed_key.serialize())
        .push_opcode(OP_ENDIF)
        .push_opcode(OP_CHECKSIG)
        .into_script()
}

pub struct C09;

impl C09 {
    /// Start-up allowlist scenario (see `Case::startup`).
    fn run_startup(&self, case: &Case, edit: u8, restarts: u8, st: &mut CaseStats, ctx: &Ctx) -> Result<(), Violation> {
        use crate::props::proto::{Negotiation, ProtoWorld};
        let net = Network::Testnet;
        let secp = bitcoin::secp256k1::Secp256k1::new();
        let mk = |b: u8| Address::p2wpkh(&CompressedPublicKey(PublicKey::from_secret_key(&secp, &SecretKey::from_slice(&[b; 32]).unwrap())), net);
        let (d, absent) = (mk(0x71), mk(0x72));
        let (ed, eb) = (format!("address:{}", d), format!("address:{}", absent));
        let mut pw = ProtoWorld::new_configured(WorldCfg::default_testnet(), 6, Negotiation::SignerCap, vec![ed.clone()], false);
        let mut spec = ChanSpec::basic(1);
        spec.anchors = case.anchors;
        spec.outbound = case.outbound;
        spec.holder_delay = case.holder_delay;
        spec.cp_delay = case.cp_delay;
        let ci = match pw.new_stub(&spec) {
            Out::Ok(i) => i,
            _ => return Ok(()),
        };
        if !pw.setup_chan(ci).is_ok() {
            st.class("startup:setup-refused");
            return Ok(());
        }
        let edit = edit % 4;
        let node = pw.node().clone();
        let r = match edit {
            0 => Ok(()),
            1 => node.remove_allowlist(&[ed.clone()]),
            2 => node.remove_allowlist(&[ed.clone(), eb.clone()]),
            _ => node.remove_allowlist(&[eb.clone(), ed.clone()]),
        };
        if r.is_err() {
            st.class("startup:removal-refused");
            return Ok(());
        }
        let restarts = restarts % 3;
        for _ in 0..restarts {
            if !pw.restart().is_ok() {
                st.class("startup:restart-failed");
                return Ok(());
            }
        }
        let chan = &pw.chans[ci];
        let height = pw.node().get_tracker().height();
        let justice = case.anchors;
        let (delay, redeem, secret) = if justice {
            let cpoint = chan.cp.point(&secp, 3);
            let keys = chan.cp_txkeys(&secp, &cpoint);
            (chan.setup.holder_selected_contest_delay, revokeable_script(&keys.revocation_key.to_public_key(), chan.setup.holder_selected_contest_delay, &keys.broadcaster_delayed_payment_key.to_public_key()), Some(chan.cp.secret(3)))
        } else {
            let hpoint = chan.holder_point(&secp, 0);
            let keys = chan.holder_txkeys(&secp, &hpoint);
            (chan.setup.counterparty_selected_contest_delay, revokeable_script(&keys.revocation_key.to_public_key(), chan.setup.counterparty_selected_contest_delay, &keys.broadcaster_delayed_payment_key.to_public_key()), None)
        };
        let tx = Transaction {
            version: Version(2),
            lock_time: LockTime::from_consensus(height),
            input: vec![TxIn { previous_output: OutPoint { txid: Txid::from_byte_array([7u8; 32]), vout: 0 }, script_sig: ScriptBuf::new(), sequence: Sequence(if justice { 0xffff_fffd } else { delay as u32 }), witness: Witness::new() }],
            output: vec![TxOut { value: Amount::from_sat(40_000), script_pubkey: d.script_pubkey() }],
        };
        let id0 = chan.id0.clone();
        let node = pw.node().clone();
        let res = call(move || node.with_channel(&id0, |c| match &secret {
            Some(s) => c.sign_justice_sweep(&tx, 0, s, &redeem, 50_000, &DerivationPath::master()),
            None => c.sign_delayed_sweep(&tx, 0, 0, &redeem, 50_000, &DerivationPath::master()),
        }));
        let kname = if justice { "justice" } else { "delayed" };
        st.class(format!("startup:{}:edit{}:restarts{}:{}", kname, edit, restarts, res.tag()));
        st.sample = Some(json!({"startup": [edit, restarts], "kind": kname, "result": res.tag(), "err": res.err_msg()}));
        if edit != 0 {
            st.nontrivial_shape(("startup", edit, restarts, justice));
            if res.is_ok() {
                return ctx.report(st, Violation::new(
                    format!("C09:sweep:{}:startup-allowlist:removed-destination-paid{}", kname, if restarts > 0 { "-after-restart" } else { "" }),
                    format!("a destination removed from the allowlist at run time (edit {}) is paid by a signed {} sweep after {} restart(s) with the same start-up configuration (allowlist now {:?})", edit, kname, restarts, pw.node().allowlist().unwrap_or_default()),
                ));
            }
        } else if res.is_ok() {
            st.nontrivial_shape(("startup-control", restarts, justice));
        }
        Ok(())
    }
}

impl Prop for C09 {
    type Case = Case;
    fn id(&self) -> &'static str {
        "C09"
    }
    fn rule(&self) -> String {
        "channel (static-remotekey / anchors, both contest delays 4..2016) at the tracker's height; one request. Sweeps (delayed to-local, \
         counterparty HTLC of either kind with a well-formed / other-type / malformed redeemscript, justice): 1-3 inputs with sequences from \
         {delay-1, delay, delay+1, 0, 1, fffffffd, fffffffe, ffffffff, random}, the signed input index 0-2, 1-3 outputs each to a wallet \
         address at the supplied path / another index, an allowlisted script, an allowlisted-xpub address, or a foreign script, version \
         1/2/3, locktime 0, height+{-5,0,1,2,3}, expiry+{-1,0,1}, a time value or random, path hint possibly empty. Second-level HTLC \
         transactions (holder or counterparty, offered or received): hand-built BOLT-3 transaction with the negotiated delay, derived \
         revocation and delayed keys and a fee from a rate around min/max, 0 or 2^32, with at most one mutation (delay, revocation key, \
         delayed key, output value, locktime, sequence, version, extra input/output, script byte, prevout, foreign redeemscript). Oracle: \
         accepted sweep => every output wallet-derivable with the supplied path or allowlisted, version 2, locktime within height+2 (or \
         <= the HTLC expiry for timeout claims), the signed input's sequence in the set implied by channel type and contest delay, \
         signature verifies under the expected derived key; accepted HTLC request => sighash of the supplied transaction equals the \
         sighash of the hand-built reference under the channel type's flag, fee rate within the policy range, signature verifies under \
         the derived HTLC key. Non-trivial: accepted multi-output sweeps and requests one mutation away from an accepted shape."
            .into()
    }
    fn assumptions(&self) -> Vec<String> {
        vec![
            "HTLC redeemscripts are built with LDK get_htlc_redeemscript (generator side); the reference second-level transaction and the to-local script are hand-built with rust-bitcoin".into(),
            "the parameter-only LDK HTLC signing request (sign_holder_htlc_tx_phase2) is out of scope as the property states".into(),
        ]
    }
    fn cases(&self, tier: Tier) -> u32 {
        tier.pick(2400, 15_000)
    }
    fn min_nontrivial(&self, tier: Tier) -> usize {
        tier.pick(200, 1500)
    }
    fn strategy(&self, _tier: Tier) -> BoxedStrategy<Case> {
        let delay = prop_oneof![Just(4u16), Just(6u16), Just(144u16), Just(2016u16), 4u16..2017];
        (any::<bool>(), any::<bool>(), delay.clone(), delay, prop_oneof![1 => sweep_strat(), 1 => htlc_strat()], prop::bool::weighted(0.12), prop_oneof![5 => Just(0u8), 2 => 1u8..13], prop::bool::weighted(0.4), prop_oneof![40 => Just(None), 1 => (0u8..4, 0u8..3).prop_map(Some)])
            .prop_map(|(anchors, outbound, holder_delay, cp_delay, req, carve_out, allow_edit, onchain, startup)| Case { startup, onchain, anchors, outbound, holder_delay, cp_delay, carve_out: carve_out && matches!(req, Req::Sweep { .. }), allow_edit: if matches!(req, Req::Sweep { .. }) { allow_edit } else { 0 }, req })
            .boxed()
    }

    fn run(&self, case: &Case, st: &mut CaseStats, ctx: &Ctx) -> Result<(), Violation> {
        if let Some((edit, restarts)) = case.startup {
            return self.run_startup(case, edit, restarts, st, ctx);
        }
        let net = Network::Testnet;
        let mut cfg = WorldCfg::default_testnet();
        if case.carve_out {
            use lightning_signer::policy::filter::{FilterResult, FilterRule, PolicyFilter};
            // assembled the way vlsd assembles it: the operator's rules merged into the policy's
            // filter (rules listed first take precedence)
            let mut f = PolicyFilter::default();
            f.merge(PolicyFilter {
                rules: vec![
                    FilterRule { tag: "policy-sweep-destination-allowlisted".to_string(), is_prefix: false, action: FilterResult::Error },
                    FilterRule { tag: "policy-".to_string(), is_prefix: true, action: FilterResult::Warn },
                ],
            });
            cfg.policy.filter.merge(f);
            st.class("carve_out_filter");
        }
        let mut w = if case.onchain { World::new_onchain(cfg) } else { World::new(cfg) };
        let lvl = if case.onchain { "onchain-factory" } else { "simple-factory" };
        st.class(lvl);
        let secp = w.secp.clone();
        let mut spec = ChanSpec::basic(1);
        spec.anchors = case.anchors;
        spec.outbound = case.outbound;
        spec.holder_delay = case.holder_delay;
        spec.cp_delay = case.cp_delay;
        let ci = w.open(&spec);
        let height = w.node.get_tracker().height();
        let min_rate = w.cfg.policy.min_feerate_per_kw;
        let max_rate = w.cfg.policy.max_feerate_per_kw;
        let wxpub = w.node.get_account_extended_pubkey();
        let wallet_scripts = |idx: u32| -> [ScriptBuf; 3] {
            let pk = CompressedPublicKey(wxpub.derive_pub(&secp, &path_of(idx)).unwrap().public_key);
            [Address::p2wpkh(&pk, net).script_pubkey(), Address::p2shwpkh(&pk, net).script_pubkey(), Address::p2tr(&secp, UntweakedPublicKey::from(pk.0), None, net).script_pubkey()]
        };
        let allow_pk = CompressedPublicKey(PublicKey::from_secret_key(&secp, &SecretKey::from_slice(&[9u8; 32]).unwrap()));
        let allow_addr = Address::p2wpkh(&allow_pk, net);
        let axpub = Xpub::from_priv(&secp, &Xpriv::new_master(net, &[7u8; 32]).unwrap());
        w.node.add_allowlist(&[format!("address:{}", allow_addr), format!("xpub:{}", axpub)]).expect("allowlist");
        let foreign = Address::p2wpkh(&CompressedPublicKey(PublicKey::from_secret_key(&secp, &SecretKey::from_slice(&[44u8; 32]).unwrap())), net).script_pubkey();
        let mut allowlisted_now = true;
        if case.allow_edit != 0 {
            let absent = Address::p2wpkh(&CompressedPublicKey(PublicKey::from_secret_key(&secp, &SecretKey::from_slice(&[0x3c; 32]).unwrap())), net);
            allowlisted_now = crate::world::allowlist_edit(&mut w, &format!("address:{}", allow_addr), &format!("address:{}", absent), case.allow_edit);
            st.class(format!("allowlist_edit:{}", crate::world::allowlist_edit_label(case.allow_edit)));
        }
        let chan = &w.chans[ci];
        let features = chan.setup.features();
        let flag = chan.htlc_sighash_type();

        match &case.req {
            Req::Sweep { kind, version, lock, seqs, input, dests, path_idx, path_empty } => {
                let pidx = 10 + *path_idx as u32;
                let path = if *path_empty { DerivationPath::master() } else { path_of(pidx) };
                // outputs
                let mut outs = vec![];
                let mut all_ok = true;
                for (k, d) in dests.iter().enumerate() {
                    let (spk, ok) = match d {
                        Dest::Wallet(t) => (wallet_scripts(pidx)[*t as usize % 3].clone(), !*path_empty),
                        Dest::WalletOtherIndex => (wallet_scripts(pidx + 1)[0].clone(), false),
                        Dest::Allowlisted => (allow_addr.script_pubkey(), allowlisted_now),
                        Dest::XpubDerived => {
                            let pk = CompressedPublicKey(axpub.derive_pub(&secp, &path_of(pidx)).unwrap().public_key);
                            (Address::p2wpkh(&pk, net).script_pubkey(), !*path_empty)
                        }
                        Dest::Foreign => (foreign.clone(), false),
                    };
                    all_ok &= ok;
                    outs.push(TxOut { value: Amount::from_sat(10_000 + k as u64), script_pubkey: spk });
                }
                let expiry: u32 = height + 50;
                let lt: u32 = match lock {
                    LockSel::Zero => 0,
                    LockSel::Height(d) => (height as i64 + *d as i64).max(0) as u32,
                    LockSel::Expiry(d) => (expiry as i64 + *d as i64) as u32,
                    LockSel::Time => 1_700_000_000,
                    LockSel::Random(v) => *v,
                };
                let delay_for = |k: &SweepKind| -> u16 {
                    match k {
                        SweepKind::Delayed => chan.setup.counterparty_selected_contest_delay,
                        _ => chan.setup.holder_selected_contest_delay,
                    }
                };
                let seqv = |s: &SeqSel| -> u32 {
                    match s {
                        SeqSel::Delay(d) => (delay_for(kind) as i64 + *d as i64).max(0) as u32,
                        SeqSel::Zero => 0,
                        SeqSel::One => 1,
                        SeqSel::Fffffffd => 0xffff_fffd,
                        SeqSel::Fffffffe => 0xffff_fffe,
                        SeqSel::Ffffffff => 0xffff_ffff,
                        SeqSel::Random(v) => *v,
                    }
                };
                let ins: Vec<TxIn> = seqs
                    .iter()
                    .enumerate()
                    .map(|(k, s)| TxIn { previous_output: OutPoint { txid: Txid::from_byte_array([k as u8 + 1; 32]), vout: k as u32 }, script_sig: ScriptBuf::new(), sequence: Sequence(seqv(s)), witness: Witness::new() })
                    .collect();
                let tx = Transaction { version: Version(*version as i32), lock_time: LockTime::from_consensus(lt), input: ins, output: outs };
                let inp = *input as usize;
                let amount = 50_000u64;
                // scripts / keys for the signed output
                let n = 0u64;
                let hpoint = chan.holder_point(&secp, n);
                let cpoint = chan.cp.point(&secp, 3);
                let (res, expected_key, redeem): (Out<bitcoin::secp256k1::ecdsa::Signature>, PublicKey, ScriptBuf) = match kind {
                    SweepKind::Delayed => {
                        let keys = chan.holder_txkeys(&secp, &hpoint);
                        let rs = revokeable_script(&keys.revocation_key.to_public_key(), chan.setup.counterparty_selected_contest_delay, &keys.broadcaster_delayed_payment_key.to_public_key());
                        let (txc, rsc, p) = (tx.clone(), rs.clone(), path.clone());
                        let r = w.with_chan(ci, |c| c.sign_delayed_sweep(&txc, inp, n, &rsc, amount, &p));
                        (r, keys.broadcaster_delayed_payment_key.to_public_key(), rs)
                    }
                    SweepKind::CpHtlc { offered, wellformed } => {
                        let keys = chan.cp_txkeys(&secp, &cpoint);
                        let htlc = HTLCOutputInCommitment { offered: *offered, amount_msat: amount * 1000, cltv_expiry: expiry, payment_hash: phash(1), transaction_output_index: Some(0) };
                        let rs = match wellformed {
                            0 => get_htlc_redeemscript(&htlc, &features, &keys),
                            1 => {
                                // script of the other channel type
                                let mut f2 = lightning_signer::lightning::types::features::ChannelTypeFeatures::only_static_remote_key();
                                if !chan.setup.is_anchors() {
                                    f2.set_anchors_zero_fee_htlc_tx_optional();
                                }
                                get_htlc_redeemscript(&htlc, &f2, &keys)
                            }
                            _ => ScriptBuf::from_bytes(vec![0x51, 0x52, 0x53]),
                        };
                        let (txc, rsc, p) = (tx.clone(), rs.clone(), path.clone());
                        let r = w.with_chan(ci, |c| c.sign_counterparty_htlc_sweep(&txc, inp, &cpoint, &rsc, amount, &p));
                        let hk = HtlcKey::from_basepoint(&secp, &chan.holder_pubkeys.htlc_basepoint, &cpoint).to_public_key();
                        (r, hk, rs)
                    }
                    SweepKind::Justice => {
                        let keys = chan.cp_txkeys(&secp, &cpoint);
                        let rs = revokeable_script(&keys.revocation_key.to_public_key(), chan.setup.holder_selected_contest_delay, &keys.broadcaster_delayed_payment_key.to_public_key());
                        let secret = chan.cp.secret(3);
                        let (txc, rsc, p) = (tx.clone(), rs.clone(), path.clone());
                        let r = w.with_chan(ci, |c| c.sign_justice_sweep(&txc, inp, &secret, &rsc, amount, &p));
                        (r, keys.revocation_key.to_public_key(), rs)
                    }
                };
                let kname = match kind {
                    SweepKind::Delayed => "delayed",
                    SweepKind::CpHtlc { offered: true, .. } => "cp-htlc-offered",
                    SweepKind::CpHtlc { offered: false, .. } => "cp-htlc-received",
                    SweepKind::Justice => "justice",
                };
                st.class(format!("sweep:{}:{}", kname, res.tag()));
                st.class(format!("{}:sweep:{}", lvl, res.tag()));
                if std::env::var("VERIF_ERRCLASS").is_ok() && !res.is_ok() {
                    st.class(format!("E:sweep:{}:{}", kname, short_err(&res.err_msg())));
                }
                st.sample = Some(json!({"case": case, "height": height, "locktime": lt, "result": res.tag()}));
                let Out::Ok(sig) = res else {
                    st.nontrivial_shape(("sweep-refused", kname, dests.len(), format!("{:?}", lock).len(), *version));
                    return Ok(());
                };
                if inp >= tx.input.len() {
                    return ctx.report(st, Violation::new(format!("C09:sweep:{}:signed-nonexistent-input", kname), format!("{:?}", case)));
                }
                let mut bad: Vec<&'static str> = vec![];
                if !all_ok {
                    bad.push("destination-not-owned-or-allowlisted");
                }
                if case.carve_out {
                    // every other rule is demoted to a warning by the filter
                    if let Some(b) = bad.first() {
                        return ctx.report(st, Violation::new(
                            format!("C09:sweep:{}:accepted-under-carve-out-filter:{}", kname, b),
                            format!("sweep signed although {:?} and the filter keeps policy-sweep-destination-allowlisted an error: case={:?}", bad, case),
                        ));
                    }
                    st.class("sweep:accepted:carve-out");
                    return Ok(());
                }
                if *version != 2 {
                    bad.push("version");
                }
                let lock_ok = match kind {
                    SweepKind::CpHtlc { offered: false, wellformed: 0 } => lt <= expiry,
                    _ => lt < 500_000_000 && lt <= height + 2,
                };
                if !lock_ok {
                    bad.push("locktime");
                }
                let s = tx.input[inp].sequence.0;
                let seq_ok = match kind {
                    SweepKind::Delayed => s == chan.setup.counterparty_selected_contest_delay as u32,
                    SweepKind::CpHtlc { .. } => if chan.setup.is_anchors() { s == 1 } else { [0u32, 0xffff_fffd, 0xffff_ffff].contains(&s) },
                    SweepKind::Justice => [0u32, 0xffff_fffd, 0xffff_ffff].contains(&s),
                };
                if !seq_ok {
                    bad.push("sequence-of-signed-input");
                }
                if let SweepKind::CpHtlc { wellformed, .. } = kind {
                    if *wellformed != 0 {
                        bad.push("redeemscript-not-an-htlc-script-of-this-channel-type");
                    }
                }
                if let Some(b) = bad.first() {
                    return ctx.report(st, Violation::new(
                        format!("C09:sweep:{}:accepted:{}", kname, b),
                        format!("sweep signed although {:?}: height={} locktime={} seq(signed input {})={:#x} case={:?}", bad, height, lt, inp, s, case),
                    ));
                }
                let sh = SighashCache::new(&tx).p2wsh_signature_hash(inp, &redeem, Amount::from_sat(amount), EcdsaSighashType::All).unwrap();
                if secp.verify_ecdsa(&Message::from_digest(sh.to_byte_array()), &sig, &expected_key).is_err() {
                    return ctx.report(st, Violation::new(format!("C09:sweep:{}:signature-does-not-verify", kname), format!("{:?}", case)));
                }
                st.class("sweep:accepted");
                if dests.len() >= 2 {
                    st.nontrivial_shape(("sweep-ok", kname, dests.clone(), seqs.len(), inp));
                }
                Ok(())
            }
            Req::Htlc { counterparty, offered, amount_sel, rate, cltv, vout, m, use_opt_point } => {
                let n = 0u64;
                let point = if *counterparty { chan.cp.point(&secp, 2) } else { chan.holder_point(&secp, n) };
                let keys = if *counterparty { chan.cp_txkeys(&secp, &point) } else { chan.holder_txkeys(&secp, &point) };
                let negotiated_delay = if *counterparty { chan.setup.holder_selected_contest_delay } else { chan.setup.counterparty_selected_contest_delay };
                let amount = [20_000u64, 500_000, 3_000][*amount_sel as usize % 3];
                let zero_fee = chan.setup.is_zero_fee_htlc();
                let weight: u64 = match (*offered, chan.setup.is_anchors()) {
                    (true, false) => 663,
                    (true, true) => 666,
                    (false, false) => 703,
                    (false, true) => 706,
                };
                let r: u128 = match rate {
                    RateSel::Rate(v) => *v as u128,
                    RateSel::Min(d) => (min_rate as i64 + *d as i64).max(0) as u128,
                    RateSel::Max(d) => (max_rate as i64 + *d as i64).max(0) as u128,
                    RateSel::Zero => 0,
                    RateSel::Pow32 => (1u128 << 32) + 1000,
                };
                let fee: u64 = if zero_fee { 0 } else { (r * weight as u128 / 1000).min(u64::MAX as u128) as u64 };
                if fee > amount {
                    st.class("htlc:fee-exceeds-amount");
                    return Ok(());
                }
                let htlc = HTLCOutputInCommitment { offered: *offered, amount_msat: amount * 1000, cltv_expiry: *cltv, payment_hash: phash(2), transaction_output_index: Some(*vout as u32) };
                let redeem = get_htlc_redeemscript(&htlc, &features, &keys);
                let commitment_txid = Txid::from_byte_array([0x5a; 32]);
                let rev = keys.revocation_key.to_public_key();
                let delayed = keys.broadcaster_delayed_payment_key.to_public_key();
                // hand-built BOLT-3 second-level transaction
                let reference = |delay: u16, revk: &PublicKey, delk: &PublicKey, out_value: u64, lock: u32, prev_vout: u32| -> Transaction {
                    Transaction {
                        version: Version::TWO,
                        lock_time: LockTime::from_consensus(lock),
                        input: vec![TxIn { previous_output: OutPoint { txid: commitment_txid, vout: prev_vout }, script_sig: ScriptBuf::new(), sequence: Sequence(if chan.setup.is_anchors() { 1 } else { 0 }), witness: Witness::new() }],
                        output: vec![TxOut { value: Amount::from_sat(out_value), script_pubkey: revokeable_script(revk, delay, delk).to_p2wsh() }],
                    }
                };
                let base_lock = if *offered { *cltv } else { 0 };
                let mut tx = reference(negotiated_delay, &rev, &delayed, amount - fee, base_lock, *vout as u32);
                let mut out_ws = revokeable_script(&rev, negotiated_delay, &delayed);
                let mut redeem_used = redeem.clone();
                let other_key = PublicKey::from_secret_key(&secp, &SecretKey::from_slice(&[0x66; 32]).unwrap());
                match m {
                    HtlcMut::None => {}
                    HtlcMut::Delay(d) => {
                        let dl = (negotiated_delay as i32 + *d as i32).max(0) as u16;
                        tx.output[0].script_pubkey = revokeable_script(&rev, dl, &delayed).to_p2wsh();
                        out_ws = revokeable_script(&rev, dl, &delayed);
                    }
                    HtlcMut::OtherDelay => {
                        let dl = if *counterparty { chan.setup.counterparty_selected_contest_delay } else { chan.setup.holder_selected_contest_delay };
                        tx.output[0].script_pubkey = revokeable_script(&rev, dl, &delayed).to_p2wsh();
                        out_ws = revokeable_script(&rev, dl, &delayed);
                    }
                    HtlcMut::RevocationKey => {
                        tx.output[0].script_pubkey = revokeable_script(&other_key, negotiated_delay, &delayed).to_p2wsh();
                        out_ws = revokeable_script(&other_key, negotiated_delay, &delayed);
                    }
                    HtlcMut::DelayedKey => {
                        tx.output[0].script_pubkey = revokeable_script(&rev, negotiated_delay, &other_key).to_p2wsh();
                        out_ws = revokeable_script(&rev, negotiated_delay, &other_key);
                    }
                    HtlcMut::OutputValue(d) => {
                        let v = (tx.output[0].value.to_sat() as i64 + *d as i64).max(0) as u64;
                        tx.output[0].value = Amount::from_sat(v);
                    }
                    HtlcMut::LockTime(d) => tx.lock_time = LockTime::from_consensus((tx.lock_time.to_consensus_u32() as i64 + *d as i64).max(0) as u32),
                    HtlcMut::Sequence(s) => tx.input[0].sequence = Sequence(*s),
                    HtlcMut::Version(v) => tx.version = Version(*v as i32),
                    HtlcMut::ExtraInput => {
                        let i = TxIn { previous_output: OutPoint { txid: Txid::from_byte_array([0x77; 32]), vout: 9 }, script_sig: ScriptBuf::new(), sequence: Sequence::MAX, witness: Witness::new() };
                        tx.input.push(i);
                    }
                    HtlcMut::ExtraOutput => tx.output.push(TxOut { value: Amount::from_sat(1000), script_pubkey: foreign.clone() }),
                    HtlcMut::OutputScriptByte(b) => {
                        let mut s = tx.output[0].script_pubkey.to_bytes();
                        let l = s.len();
                        s[2 + (*b as usize % (l - 2))] ^= 1;
                        tx.output[0].script_pubkey = ScriptBuf::from_bytes(s);
                    }
                    HtlcMut::PrevoutVout => tx.input[0].previous_output.vout += 1,
                    HtlcMut::RedeemscriptOther => {
                        let h2 = HTLCOutputInCommitment { offered: !*offered, ..htlc.clone() };
                        redeem_used = get_htlc_redeemscript(&h2, &features, &keys);
                    }
                }
                let (txc, rsc, wsc) = (tx.clone(), redeem_used.clone(), out_ws.clone());
                let res = if *counterparty {
                    w.with_chan(ci, |c| c.sign_counterparty_htlc_tx(&txc, &point, &rsc, amount, &wsc))
                } else {
                    let opt = if *use_opt_point { Some(point) } else { None };
                    w.with_chan(ci, |c| c.sign_holder_htlc_tx(&txc, n, opt, &rsc, amount, &wsc))
                };
                let mname = format!("{:?}", m).split(|c| c == '(' || c == ' ').next().unwrap_or("").to_string();
                let side = if *counterparty { "cp" } else { "holder" };
                st.class(format!("htlc:{}:{}:{}", side, mname, res.tag()));
                st.class(format!("{}:htlc:{}", lvl, res.tag()));
                if std::env::var("VERIF_ERRCLASS").is_ok() && !res.is_ok() {
                    st.class(format!("E:htlc:{}", short_err(&res.err_msg())));
                }
                st.sample = Some(json!({"case": case, "fee": fee, "result": res.tag()}));
                let Out::Ok(tsig) = res else {
                    if !matches!(m, HtlcMut::None) {
                        st.nontrivial_shape(("htlc-refused", side, *offered, mname.clone()));
                    }
                    return Ok(());
                };
                // which kind the supplied redeemscript denotes
                let offered_used = if matches!(m, HtlcMut::RedeemscriptOther) { !*offered } else { *offered };
                // the reference for what was presented: the signer knows prevout, output value,
                // locktime (for offered) from the transaction; everything else is fixed by BOLT-3
                let out_value = tx.output.get(0).map(|o| o.value.to_sat()).unwrap_or(0);
                let ref_lock = if offered_used { tx.lock_time.to_consensus_u32() } else { 0 };
                let prev_vout = tx.input[0].previous_output.vout;
                let rtx = reference(negotiated_delay, &rev, &delayed, out_value, ref_lock, prev_vout);
                let mut bad: Vec<&'static str> = vec![];
                let sh_ref = SighashCache::new(&rtx).p2wsh_signature_hash(0, &redeem_used, Amount::from_sat(amount), flag).unwrap();
                let sh_sup = SighashCache::new(&tx).p2wsh_signature_hash(0, &redeem_used, Amount::from_sat(amount), flag);
                match sh_sup {
                    Ok(s) if s == sh_ref => {}
                    _ => bad.push("not-the-bolt3-htlc-transaction"),
                }
                if tsig.typ != flag {
                    bad.push("sighash-flag");
                }
                if out_value > amount {
                    bad.push("fee-negative");
                } else {
                    let f = (amount - out_value) as u128;
                    let w2: u128 = match (offered_used, chan.setup.is_anchors()) {
                        (true, false) => 663,
                        (true, true) => 666,
                        (false, false) => 703,
                        (false, true) => 706,
                    };
                    let rf = f * 1000 / w2;
                    if zero_fee {
                        if f != 0 {
                            bad.push("fee-on-zero-fee-htlc-tx");
                        }
                    } else if rf > max_rate as u128 || rf + 2 < min_rate as u128 {
                        bad.push("fee-rate-out-of-range");
                    }
                }
                if offered_used && ref_lock == 0 {
                    bad.push("offered-htlc-without-locktime");
                }
                if let Some(b) = bad.first() {
                    return ctx.report(st, Violation::new(
                        format!("C09:htlc:{}:accepted:{}", side, b),
                        format!("HTLC transaction signed although {:?}: case={:?} fee={} out_value={}", bad, case, fee, out_value),
                    ));
                }
                let hk = HtlcKey::from_basepoint(&secp, &chan.holder_pubkeys.htlc_basepoint, &point).to_public_key();
                if secp.verify_ecdsa(&Message::from_digest(sh_ref.to_byte_array()), &tsig.sig, &hk).is_err() {
                    return ctx.report(st, Violation::new(format!("C09:htlc:{}:signature-does-not-verify", side), format!("{:?}", case)));
                }
                st.class("htlc:accepted");
                st.nontrivial_shape(("htlc-ok", side, *offered, mname, format!("{:?}", rate).len()));
                let _ = (DelayedPaymentKey::from_basepoint(&secp, &chan.holder_pubkeys.delayed_payment_basepoint, &point), RevocationKey::from_basepoint(&secp, &chan.holder_pubkeys.revocation_basepoint, &point));
                Ok(())
            }
        }
    }
}
