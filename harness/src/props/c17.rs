//! C17 — externally stored state is authenticated against tampering, swapping and replay.
//!
//! Three layers, each with round-trip and tamper (injectivity) oracles:
//!  V  per-value tag of lightning-storage-server (`append_hmac_to_value`/`remove_and_check_hmac`
//!     and the full `prepare_value_for_put`/`process_value_from_get` incl. encryption)
//!  S  shared tag over a mutation list: vls-core `ExternalPersistHelper::{client,server}_hmac`,
//!     `compute_shared_hmac`, and the LSS implementation of the same tag
//!  N  nonce binding of read responses: `new_nonce` / `check_hmac`

use crate::engine::*;
use lightning_signer::lightning::sign::EntropySource;
use lightning_signer::persist::{compute_shared_hmac, ExternalPersistHelper, Mutations};
use lightning_storage_server::util as lss;
use lightning_storage_server::Value;
use proptest::prelude::*;
use serde::{Deserialize, Serialize};
use serde_json::json;

type Rec = (String, u64, Vec<u8>);

/// A storage backend that answers the start-up read with whatever the case prescribes.
struct MockStorage {
    respond: Box<dyn Fn(&[u8]) -> (Mutations, Vec<u8>) + Send + Sync>,
}

#[async_trait::async_trait]
impl vls_frontend::external_persist::ExternalPersist for MockStorage {
    async fn put(&self, _mutations: Mutations, _client_hmac: &[u8]) -> Result<Vec<u8>, vls_frontend::external_persist::Error> {
        Err(vls_frontend::external_persist::Error::NotAvailable)
    }
    async fn get(&self, _key_prefix: String, nonce: &[u8]) -> Result<(Mutations, Vec<u8>), vls_frontend::external_persist::Error> {
        Ok((self.respond)(nonce))
    }
    async fn info(&self) -> Result<vls_frontend::external_persist::Info, vls_frontend::external_persist::Error> {
        Err(vls_frontend::external_persist::Error::NotAvailable)
    }
}

#[derive(Clone, Debug, Serialize, Deserialize, PartialEq, Eq, Hash)]
pub enum VTamper {
    None,
    /// flip bit b of the stored bytes
    FlipBit(u16),
    /// present under a different key
    KeyAppend(u8),
    KeyTruncate,
    /// present under a different version
    VersionDelta(i8),
    /// swap in the stored bytes of another record written with the same secret
    SwapWith { key: String, version: u64, value: Vec<u8> },
    Truncate(u8),
    Extend(u8),
    /// move the key/version/value boundaries so that key|version|value concatenates to the
    /// same bytes: key' = key+ver[0], version' = ver[1..8]+value[0], value' = value[1..]
    BoundaryRight,
    /// the opposite move: key' = key[..-1], version' = key[-1]+ver[0..7], value' = ver[7]+value
    BoundaryLeft,
}

#[derive(Clone, Debug, Serialize, Deserialize, PartialEq, Eq, Hash)]
pub enum STamper {
    None,
    FlipValueBit { rec: u8, bit: u16 },
    SwapKeys { a: u8, b: u8 },
    SwapVersions { a: u8, b: u8 },
    VersionDelta { rec: u8, d: i8 },
    DropLast,
    TruncateValue { rec: u8 },
    ExtendValue { rec: u8, byte: u8 },
    Duplicate { rec: u8 },
    /// move the last byte of value[rec] to the front of key[rec+1] (must be ASCII)
    BoundaryValueToNextKey { rec: u8 },
    /// move the first byte of key[rec+1] to the end of value[rec]
    BoundaryNextKeyToValue { rec: u8 },
    /// merge records rec and rec+1 into one: value = value|key2|ver2|value2
    Merge { rec: u8 },
    /// split record rec at value offset: needs 8 version bytes + >=1 ASCII key byte inside value
    Split { rec: u8, at: u8 },
    /// move key tail into... version: key' = key[..-1], ver' = key[-1]|ver[0..7], value' = ver[7]|value
    BoundaryKeyToVersion { rec: u8 },
}

#[derive(Clone, Debug, Serialize, Deserialize)]
pub enum Case {
    Value { secret: Vec<u8>, key: String, version: u64, value: Vec<u8>, tamper: VTamper, crypt: bool },
    Shared { secret: [u8; 32], recs: Vec<Rec>, tamper: STamper, lss_impl: bool, server_tag: bool },
    Nonce {
        secret: [u8; 32],
        recs: Vec<Rec>,
        n1: [u8; 32],
        n2: [u8; 32],
        tamper: STamper,
        which: u8,
        /// 0 = none; otherwise the genuine tag is damaged (truncated to 0/1/16/31 bytes, extended,
        /// one bit flipped, computed under another secret) and must be refused
        #[serde(default)]
        tag_mut: u8,
    },
    /// the signer's own entropy source (MyKeysManager) as the nonce source: two process lifetimes
    /// (same seed, different starting time) must not produce the same nonce sequence, or a reply
    /// recorded in one lifetime verifies in the next
    Entropy { seed: [u8; 32], t1: (u64, u32), t2: (u64, u32), k: u8, ldk: bool },
    /// vlsd's start-up read of the whole external state (vls-util
    /// `ExternalPersistWithHelper::init_state`) against a storage that holds `recs` (distinct
    /// keys) and answers the read with a response the adversary can assemble without the shared
    /// secret: `tamper` 0 honest; 1 no records, honest tag; 2 no records, garbage tag; 3 last record
    /// dropped; 4 one record with a lower version and another value; 5 a complete older response
    /// (records and tag recorded under an earlier nonce); 6 records in reverse order, honest tag
    Startup { secret: [u8; 32], recs: Vec<Rec>, tamper: u8, pick: u8 },
    /// the privileged LSS client (`PrivClient`) against an in-process storage server that knows the
    /// transport secret and misbehaves in generated ways (see c17drv.rs)
    Driver { ops: Vec<crate::props::c17drv::DOp> },
}

fn key_strat() -> impl Strategy<Value = String> {
    prop_oneof![
        3 => "[a-c/]{1,4}",
        1 => "(node|channel)/(entry|state)/[0-9a-f]{2,6}",
        1 => "[a-c]{0,2}\\x00?[a-c]{0,2}",
    ]
}

fn version_strat() -> impl Strategy<Value = u64> {
    prop_oneof![
        5 => 0u64..6,
        2 => 250u64..260,
        1 => (0u64..128).prop_map(|b| (b << 56) | 7),
        1 => any::<u64>().prop_map(|v| v >> 1),
    ]
}

fn value_strat() -> impl Strategy<Value = Vec<u8>> {
    prop_oneof![
        1 => Just(vec![]),
        3 => proptest::collection::vec(prop_oneof![Just(0u8), Just(b'a'), Just(b'b'), Just(b'/'), any::<u8>()], 1..6),
        2 => proptest::collection::vec(any::<u8>(), 8..40),
        1 => proptest::collection::vec(prop_oneof![Just(0u8), Just(b'a')], 9..14),
    ]
}

fn rec_strat() -> impl Strategy<Value = Rec> {
    (key_strat(), version_strat(), value_strat())
}

fn vtamper_strat() -> impl Strategy<Value = VTamper> {
    prop_oneof![
        2 => Just(VTamper::None),
        3 => any::<u16>().prop_map(VTamper::FlipBit),
        1 => prop_oneof![Just(b'a'), Just(0u8), Just(b'/')].prop_map(VTamper::KeyAppend),
        1 => Just(VTamper::KeyTruncate),
        2 => prop_oneof![Just(1i8), Just(-1i8), Just(2i8)].prop_map(VTamper::VersionDelta),
        2 => rec_strat().prop_map(|(key, version, value)| VTamper::SwapWith { key, version, value }),
        1 => (1u8..40).prop_map(VTamper::Truncate),
        1 => any::<u8>().prop_map(VTamper::Extend),
        3 => Just(VTamper::BoundaryRight),
        3 => Just(VTamper::BoundaryLeft),
    ]
}

/// key | version (8 bytes, big endian) | value of every record, one after the other: what the tags
/// are computed over.  Two different record lists with the same concatenation are the known
/// unframed-input weakness; a collision between lists whose concatenations differ is something else.
fn concat(recs: &[Rec]) -> Vec<u8> {
    let mut out = vec![];
    for (k, v, val) in recs.iter() {
        out.extend_from_slice(k.as_bytes());
        out.extend_from_slice(&(*v as i64).to_be_bytes());
        out.extend_from_slice(val);
    }
    out
}

fn stamper_strat() -> impl Strategy<Value = STamper> {
    let r = || 0u8..5;
    prop_oneof![
        2 => Just(STamper::None),
        2 => (r(), any::<u16>()).prop_map(|(rec, bit)| STamper::FlipValueBit { rec, bit }),
        2 => (r(), r()).prop_map(|(a, b)| STamper::SwapKeys { a, b }),
        2 => (r(), r()).prop_map(|(a, b)| STamper::SwapVersions { a, b }),
        2 => (r(), prop_oneof![Just(1i8), Just(-1i8)]).prop_map(|(rec, d)| STamper::VersionDelta { rec, d }),
        1 => Just(STamper::DropLast),
        1 => r().prop_map(|rec| STamper::TruncateValue { rec }),
        1 => (r(), any::<u8>()).prop_map(|(rec, byte)| STamper::ExtendValue { rec, byte }),
        1 => r().prop_map(|rec| STamper::Duplicate { rec }),
        2 => r().prop_map(|rec| STamper::BoundaryValueToNextKey { rec }),
        2 => r().prop_map(|rec| STamper::BoundaryNextKeyToValue { rec }),
        2 => r().prop_map(|rec| STamper::Merge { rec }),
        2 => (r(), 0u8..12).prop_map(|(rec, at)| STamper::Split { rec, at }),
        1 => r().prop_map(|rec| STamper::BoundaryKeyToVersion { rec }),
    ]
}

struct FixedEntropy(std::cell::Cell<[u8; 32]>);
impl EntropySource for FixedEntropy {
    fn get_secure_random_bytes(&self) -> [u8; 32] {
        self.0.get()
    }
}

fn muts(recs: &[Rec]) -> Mutations {
    Mutations::from_vec(recs.iter().map(|(k, v, val)| (k.clone(), (*v, val.clone()))).collect())
}

fn lss_kvs(recs: &[Rec]) -> Vec<(String, Value)> {
    recs.iter().map(|(k, v, val)| (k.clone(), Value { version: *v as i64, value: val.clone() })).collect()
}

fn sorted(recs: &[Rec]) -> Vec<Rec> {
    let mut r = recs.to_vec();
    r.sort();
    r
}

/// Apply a list tamper; None = operator not applicable to this list.
fn apply_stamper(recs: &[Rec], t: &STamper) -> Option<Vec<Rec>> {
    let mut r = recs.to_vec();
    let n = r.len();
    let ix = |i: u8| -> Option<usize> { if n == 0 { None } else { Some(i as usize % n) } };
    match t {
        STamper::None => {}
        STamper::FlipValueBit { rec, bit } => {
            let i = ix(*rec)?;
            if r[i].2.is_empty() {
                return None;
            }
            let l = r[i].2.len();
            r[i].2[(*bit as usize / 8) % l] ^= 1 << (bit % 8);
        }
        STamper::SwapKeys { a, b } => {
            let (i, j) = (ix(*a)?, ix(*b)?);
            let t = r[i].0.clone();
            r[i].0 = r[j].0.clone();
            r[j].0 = t;
        }
        STamper::SwapVersions { a, b } => {
            let (i, j) = (ix(*a)?, ix(*b)?);
            let t = r[i].1;
            r[i].1 = r[j].1;
            r[j].1 = t;
        }
        STamper::VersionDelta { rec, d } => {
            let i = ix(*rec)?;
            r[i].1 = r[i].1.wrapping_add(*d as i64 as u64) & (u64::MAX >> 1);
        }
        STamper::DropLast => {
            r.pop()?;
        }
        STamper::TruncateValue { rec } => {
            let i = ix(*rec)?;
            r[i].2.pop()?;
        }
        STamper::ExtendValue { rec, byte } => {
            let i = ix(*rec)?;
            r[i].2.push(*byte);
        }
        STamper::Duplicate { rec } => {
            let i = ix(*rec)?;
            let x = r[i].clone();
            r.insert(i, x);
        }
        STamper::BoundaryValueToNextKey { rec } => {
            if n < 2 {
                return None;
            }
            let i = *rec as usize % (n - 1);
            let b = *r[i].2.last()?;
            if b >= 0x80 {
                return None;
            }
            r[i].2.pop();
            r[i + 1].0.insert(0, b as char);
        }
        STamper::BoundaryNextKeyToValue { rec } => {
            if n < 2 {
                return None;
            }
            let i = *rec as usize % (n - 1);
            if r[i + 1].0.is_empty() {
                return None;
            }
            let c = r[i + 1].0.remove(0);
            if !c.is_ascii() {
                return None;
            }
            r[i].2.push(c as u8);
        }
        STamper::Merge { rec } => {
            if n < 2 {
                return None;
            }
            let i = *rec as usize % (n - 1);
            let (k2, v2, val2) = r.remove(i + 1);
            r[i].2.extend_from_slice(k2.as_bytes());
            r[i].2.extend_from_slice(&v2.to_be_bytes());
            r[i].2.extend_from_slice(&val2);
        }
        STamper::Split { rec, at } => {
            let i = ix(*rec)?;
            let val = r[i].2.clone();
            // value = head | key2 (1 ASCII byte) | ver2 (8 bytes) | tail
            let at = *at as usize;
            if val.len() < at + 9 {
                return None;
            }
            let kb = val[at];
            if kb >= 0x80 {
                return None;
            }
            let mut vb = [0u8; 8];
            vb.copy_from_slice(&val[at + 1..at + 9]);
            let v2 = u64::from_be_bytes(vb);
            if v2 > (u64::MAX >> 1) {
                return None;
            }
            let tail = val[at + 9..].to_vec();
            r[i].2.truncate(at);
            r.insert(i + 1, ((kb as char).to_string(), v2, tail));
        }
        STamper::BoundaryKeyToVersion { rec } => {
            let i = ix(*rec)?;
            let c = r[i].0.pop()?;
            if !c.is_ascii() {
                return None;
            }
            let vb = r[i].1.to_be_bytes();
            let mut nv = [0u8; 8];
            nv[0] = c as u8;
            nv[1..8].copy_from_slice(&vb[0..7]);
            let v2 = u64::from_be_bytes(nv);
            if v2 > (u64::MAX >> 1) {
                return None;
            }
            r[i].1 = v2;
            r[i].2.insert(0, vb[7]);
        }
    }
    Some(r)
}

fn stamper_name(t: &STamper) -> &'static str {
    match t {
        STamper::None => "none",
        STamper::FlipValueBit { .. } => "flip-value-bit",
        STamper::SwapKeys { .. } => "swap-keys",
        STamper::SwapVersions { .. } => "swap-versions",
        STamper::VersionDelta { .. } => "version-delta",
        STamper::DropLast => "drop-last",
        STamper::TruncateValue { .. } => "truncate-value",
        STamper::ExtendValue { .. } => "extend-value",
        STamper::Duplicate { .. } => "duplicate",
        STamper::BoundaryValueToNextKey { .. } => "boundary-move",
        STamper::BoundaryNextKeyToValue { .. } => "boundary-move",
        STamper::Merge { .. } => "merge-split",
        STamper::Split { .. } => "merge-split",
        STamper::BoundaryKeyToVersion { .. } => "boundary-move",
    }
}

pub struct C17;

impl C17 {
    fn run_value(&self, secret: &[u8], key: &str, version: u64, value: &[u8], tamper: &VTamper, crypt: bool, st: &mut CaseStats, ctx: &Ctx) -> Result<(), Violation> {
        let version_i = (version & (u64::MAX >> 1)) as i64;
        let put = |k: &str, ver: i64, v: &[u8]| -> Vec<u8> {
            if crypt {
                let mut val = Value { version: ver, value: v.to_vec() };
                lss::prepare_value_for_put(secret, k, &mut val);
                val.value
            } else {
                let mut b = v.to_vec();
                lss::append_hmac_to_value(secret, k, ver, &mut b);
                b
            }
        };
        let get = |k: &str, ver: i64, stored: &[u8]| -> Option<Vec<u8>> {
            if crypt {
                let mut val = Value { version: ver, value: stored.to_vec() };
                lss::process_value_from_get(secret, k, &mut val).ok().map(|_| val.value)
            } else {
                let mut b = stored.to_vec();
                lss::remove_and_check_hmac(secret, k, ver, &mut b).ok().map(|_| b)
            }
        };
        let layer = if crypt { "value-crypt" } else { "value-hmac" };
        let stored = put(key, version_i, value);
        // what the storage presents back
        let (k2, v2, s2): (String, i64, Vec<u8>) = match tamper {
            VTamper::None => (key.to_string(), version_i, stored.clone()),
            VTamper::FlipBit(b) => {
                let mut s = stored.clone();
                let l = s.len();
                s[(*b as usize / 8) % l] ^= 1 << (b % 8);
                (key.to_string(), version_i, s)
            }
            VTamper::KeyAppend(c) => (format!("{}{}", key, *c as char), version_i, stored.clone()),
            VTamper::KeyTruncate => {
                let mut k = key.to_string();
                if k.pop().is_none() {
                    return Ok(());
                }
                (k, version_i, stored.clone())
            }
            VTamper::VersionDelta(d) => (key.to_string(), version_i.wrapping_add(*d as i64) & i64::MAX, stored.clone()),
            VTamper::SwapWith { key: ok, version: ov, value: oval } => {
                let ovi = (*ov & (u64::MAX >> 1)) as i64;
                if ok == key && ovi == version_i {
                    // not a forgery: the "other" record would have been written by the signer
                    // under the very same key and version, which a signer never does (every
                    // write bumps the version), so there is nothing to tell apart
                    st.class("skipped:swap-with-same-key-and-version");
                    return Ok(());
                }
                (key.to_string(), version_i, put(ok, ovi, oval))
            }
            VTamper::Truncate(n) => {
                let mut s = stored.clone();
                let keep = s.len().saturating_sub(*n as usize);
                s.truncate(keep);
                (key.to_string(), version_i, s)
            }
            VTamper::Extend(b) => {
                let mut s = stored.clone();
                s.insert(0, *b);
                (key.to_string(), version_i, s)
            }
            VTamper::BoundaryRight => {
                // operate on the stored bytes: payload = stored[..len-32], tag = last 32
                let vb = version_i.to_be_bytes();
                if vb[0] >= 0x80 || stored.len() < 33 {
                    return Ok(());
                }
                let mut s = stored.clone();
                let first = s.remove(0);
                let mut nv = [0u8; 8];
                nv[0..7].copy_from_slice(&vb[1..8]);
                nv[7] = first;
                let v = i64::from_be_bytes(nv);
                if v < 0 {
                    return Ok(());
                }
                (format!("{}{}", key, vb[0] as char), v, s)
            }
            VTamper::BoundaryLeft => {
                let mut k = key.to_string();
                let Some(c) = k.pop() else { return Ok(()) };
                if !c.is_ascii() {
                    return Ok(());
                }
                let vb = version_i.to_be_bytes();
                let mut nv = [0u8; 8];
                nv[0] = c as u8;
                nv[1..8].copy_from_slice(&vb[0..7]);
                let v = i64::from_be_bytes(nv);
                if v < 0 {
                    return Ok(());
                }
                let mut s = stored.clone();
                s.insert(0, vb[7]);
                (k, v, s)
            }
        };
        let tname = match tamper {
            VTamper::None => "none",
            VTamper::FlipBit(_) => "flip-bit",
            VTamper::KeyAppend(_) | VTamper::KeyTruncate => "other-key",
            VTamper::VersionDelta(_) => "other-version",
            VTamper::SwapWith { .. } => "swap-record",
            VTamper::Truncate(_) | VTamper::Extend(_) => "resize",
            VTamper::BoundaryRight | VTamper::BoundaryLeft => "boundary-move",
        };
        let got = get(&k2, v2, &s2);
        st.class(format!("{}:{}:{}", layer, tname, if got.is_some() { "accepted" } else { "refused" }));
        // what the signer wrote under (k2, v2), if anything
        let same = k2 == key && v2 == version_i;
        match got {
            Some(content) => {
                if same && s2 == stored {
                    if content != value {
                        return ctx.report(st, Violation::new(
                            format!("C17:{}:roundtrip-content-changed", layer),
                            format!("stored ({:?},{}) returned {:?} instead of {:?}", key, version_i, content, value),
                        ));
                    }
                } else if !(same && content == value) {
                    // accepted something that is not exactly what was written under that
                    // key and version
                    let same_bytes = concat(&[(key.to_string(), version_i as u64, value.to_vec())]) == concat(&[(k2.clone(), v2 as u64, content.clone())]);
                    let cause = if same_bytes { "unframed-concatenation" } else { tname };
                    return ctx.report(st, Violation::new(
                        format!("C17:{}:accepted-tampered:{}", layer, cause),
                        format!("wrote ({:?},{},{}) ; storage presented ({:?},{},{} bytes) via {:?} and it was accepted as {:?}",
                            key, version_i, hex::encode(value), k2, v2, s2.len(), tamper, hex::encode(&content)),
                    ));
                }
            }
            None => {
                if same && s2 == stored {
                    return ctx.report(st, Violation::new(
                        format!("C17:{}:roundtrip-refused", layer),
                        format!("untampered ({:?},{}) was refused", key, version_i),
                    ));
                }
            }
        }
        if !matches!(tamper, VTamper::None) {
            st.nontrivial_shape((layer, tname, key.len(), value.len().min(9), version > 255));
        }
        Ok(())
    }

    fn tag(&self, secret: &[u8; 32], nonce: &[u8], recs: &[Rec], lss_impl: bool) -> Vec<u8> {
        if lss_impl {
            lss::compute_shared_hmac(secret, nonce, &lss_kvs(recs))
        } else {
            compute_shared_hmac(secret, nonce, &muts(recs)).to_vec()
        }
    }

    /// vlsd's start-up read through vls-util's driver, against a mock storage.
    fn run_startup(&self, secret: &[u8; 32], recs: &[Rec], tamper: u8, pick: u8, st: &mut CaseStats, ctx: &Ctx) -> Result<(), Violation> {
        use std::collections::BTreeMap;
        use std::sync::{Arc, Mutex};
        // the true state: distinct keys (a store holds one record per key), versions below 2^63
        let mut truth: BTreeMap<String, (u64, Vec<u8>)> = BTreeMap::new();
        for (k, v, val) in recs.iter() {
            truth.insert(k.clone(), (*v & (u64::MAX >> 1), val.clone()));
        }
        let recs: Vec<Rec> = truth.iter().map(|(k, (v, val))| (k.clone(), *v, val.clone())).collect();
        let tamper = tamper % 7;
        let name = ["honest", "emptied-honest-tag", "emptied-garbage-tag", "last-record-dropped", "stale-record", "old-response-replayed", "reversed-order"][tamper as usize];
        // what the adversary serves
        let mut served = recs.clone();
        match tamper {
            1 | 2 => served.clear(),
            3 => { served.pop(); }
            4 => {
                if !served.is_empty() {
                    let i = crate::engine::pick_idx((pick as u16) << 8, served.len());
                    served[i].1 = served[i].1.saturating_sub(1);
                    served[i].2.push(0x5a);
                }
            }
            6 => served.reverse(),
            _ => {}
        }
        let served_map: BTreeMap<String, (u64, Vec<u8>)> = served.iter().map(|(k, v, val)| (k.clone(), (*v, val.clone()))).collect();
        let secret_c = *secret;
        let honest = recs.clone();
        let mock = MockStorage { respond: Box::new(move |nonce: &[u8]| {
            let tag = match tamper {
                2 => vec![0x11u8; 32],
                5 => compute_shared_hmac(&secret_c, &[0x33u8; 32], &muts(&honest)).to_vec(),
                // the tag the genuine server computes for this request over the genuine records
                _ => compute_shared_hmac(&secret_c, nonce, &muts(&honest)).to_vec(),
            };
            (muts(&served), tag)
        }) };
        let state: Arc<Mutex<BTreeMap<String, (u64, Vec<u8>)>>> = Arc::new(Mutex::new(BTreeMap::new()));
        let ep = vls_util::persist::ExternalPersistWithHelper {
            persist_client: Arc::new(tokio::sync::Mutex::new(Box::new(mock) as Box<dyn vls_frontend::external_persist::ExternalPersist>)),
            state: state.clone(),
            helper: ExternalPersistHelper::new(*secret),
        };
        let res = std::panic::catch_unwind(std::panic::AssertUnwindSafe(|| {
            let rt = tokio::runtime::Builder::new_current_thread().build().expect("runtime");
            rt.block_on(ep.init_state());
        }));
        let accepted = res.is_ok();
        st.class(format!("startup:{}:{}", name, if accepted { "accepted" } else { "refused" }));
        if accepted {
            let local = state.lock().unwrap_or_else(|e| e.into_inner()).clone();
            if local != truth {
                return ctx.report(st, Violation::new(
                    format!("C17:startup:tampered-state-accepted:{}", name),
                    format!("init_state accepted a [{}] response: local state has {} records, the stored state {} (served {:?}, true {:?})", name, local.len(), truth.len(), served_map.keys().collect::<Vec<_>>(), truth.keys().collect::<Vec<_>>()),
                ));
            }
        }
        if tamper != 0 && served_map != truth {
            st.nontrivial_shape(("startup", name, recs.len().min(3)));
        } else if tamper == 0 && accepted {
            st.nontrivial_shape(("startup-honest", recs.len().min(3)));
        }
        Ok(())
    }

    fn run_shared(&self, secret: &[u8; 32], recs: &[Rec], tamper: &STamper, lss_impl: bool, server_tag: bool, st: &mut CaseStats, ctx: &Ctx) -> Result<(), Violation> {
        let recs: Vec<Rec> = recs.iter().map(|(k, v, val)| (k.clone(), *v & (u64::MAX >> 1), val.clone())).collect();
        let helper = ExternalPersistHelper::new(*secret);
        let nonce: &[u8] = if server_tag { &[0x02] } else { &[0x01] };
        let layer = if lss_impl { "shared-lss" } else { "shared-core" };
        let t0 = if lss_impl {
            self.tag(secret, nonce, &recs, true)
        } else if server_tag {
            helper.server_hmac(&muts(&recs)).to_vec()
        } else {
            helper.client_hmac(&muts(&recs)).to_vec()
        };
        // the two implementations agree (compatibility is observed, not demanded)
        if self.tag(secret, nonce, &recs, true) != self.tag(secret, nonce, &recs, false) {
            st.class("implementations_disagree(observed)");
        }
        // determinism / round trip
        if t0 != self.tag(secret, nonce, &recs, lss_impl) {
            return ctx.report(st, Violation::new(format!("C17:{}:tag-not-deterministic", layer), "same input, different tag".to_string()));
        }
        let Some(r2) = apply_stamper(&recs, tamper) else {
            st.class(format!("{}:{}:not-applicable", layer, stamper_name(tamper)));
            return Ok(());
        };
        let t1 = self.tag(secret, nonce, &r2, lss_impl);
        let different_set = sorted(&r2) != sorted(&recs);
        let name = stamper_name(tamper);
        st.class(format!("{}:{}:{}", layer, name, if t1 == t0 { "same-tag" } else { "different-tag" }));
        if different_set && t1 == t0 {
            let cause = if concat(&recs) == concat(&r2) { "unframed-concatenation" } else { name };
            return ctx.report(st, Violation::new(
                format!("C17:{}:collision:{}", layer, cause),
                format!("records {:?} and {:?} ({:?}) authenticate under the same tag {}", recs, r2, tamper, hex::encode(&t0)),
            ));
        }
        // client and server tags of the same data must differ (direction separation)
        if self.tag(secret, &[0x01], &recs, lss_impl) == self.tag(secret, &[0x02], &recs, lss_impl) {
            return ctx.report(st, Violation::new(format!("C17:{}:client-server-tag-equal", layer), format!("{:?}", recs)));
        }
        if different_set {
            st.nontrivial_shape((layer, name, recs.len(), server_tag));
        }
        Ok(())
    }

    fn run_entropy(&self, seed: &[u8; 32], t1: (u64, u32), t2: (u64, u32), k: u8, ldk: bool, st: &mut CaseStats, ctx: &Ctx) -> Result<(), Violation> {
        use lightning_signer::bitcoin::Network;
        use lightning_signer::signer::derive::KeyDerivationStyle;
        use lightning_signer::signer::my_keys_manager::MyKeysManager;
        use lightning_signer::signer::StartingTimeFactory;
        use lightning_signer::SendSync;
        struct Fixed(u64, u32);
        impl SendSync for Fixed {}
        impl StartingTimeFactory for Fixed {
            fn starting_time(&self) -> (u64, u32) {
                (self.0, self.1)
            }
        }
        let style = if ldk { KeyDerivationStyle::Ldk } else { KeyDerivationStyle::Native };
        let km1 = MyKeysManager::new(style, seed, Network::Testnet, &Fixed(t1.0, t1.1));
        let km2 = MyKeysManager::new(style, seed, Network::Testnet, &Fixed(t2.0, t2.1));
        let secret = [7u8; 32];
        let mut h1 = ExternalPersistHelper::new(secret);
        let mut h2 = ExternalPersistHelper::new(secret);
        let mut n1 = [0u8; 32];
        let mut n2 = [0u8; 32];
        for _ in 0..=k {
            n1 = h1.new_nonce(&km1);
            n2 = h2.new_nonce(&km2);
        }
        st.class(format!("entropy:{}", if t1 == t2 { "same-start" } else { "different-start" }));
        if t1 != t2 {
            if n1 == n2 {
                return ctx.report(st, Violation::new(
                    "C17:nonce:entropy-repeats-across-restarts",
                    format!("two signer lifetimes with the same seed and starting times {:?} / {:?} produce the same read nonce at index {}: a reply recorded in the first lifetime verifies in the second", t1, t2, k),
                ));
            }
            // and the recorded reply of lifetime 1 is refused in lifetime 2
            let recs: Vec<Rec> = vec![("k".to_string(), 1, vec![1, 2, 3])];
            let resp = self.tag(&secret, &n1, &recs, false);
            if h2.check_hmac(&muts(&recs), resp) {
                return ctx.report(st, Violation::new("C17:nonce:replay-accepted-across-restarts", "a reply recorded before the restart was accepted after it".to_string()));
            }
            st.nontrivial_shape(("entropy", k, ldk, t1.0 == t2.0));
        }
        Ok(())
    }

    #[allow(clippy::too_many_arguments)]
    fn run_nonce(&self, secret: &[u8; 32], recs: &[Rec], n1: &[u8; 32], n2: &[u8; 32], tamper: &STamper, which: u8, tag_mut: u8, st: &mut CaseStats, ctx: &Ctx) -> Result<(), Violation> {
        let recs: Vec<Rec> = recs.iter().map(|(k, v, val)| (k.clone(), *v & (u64::MAX >> 1), val.clone())).collect();
        let mut helper = ExternalPersistHelper::new(*secret);
        let ent = FixedEntropy(std::cell::Cell::new(*n1));
        let got = helper.new_nonce(&ent);
        if got != *n1 {
            return ctx.report(st, Violation::new("C17:nonce:not-from-entropy", "new_nonce did not return the entropy source's value".to_string()));
        }
        // the server answers the read under nonce n1 (either implementation)
        let resp = self.tag(secret, n1, &recs, which % 2 == 0);
        if !helper.check_hmac(&muts(&recs), resp.clone()) {
            return ctx.report(st, Violation::new("C17:nonce:roundtrip-refused", format!("fresh response refused for {:?}", recs)));
        }
        st.class("nonce:roundtrip-accepted");
        if tag_mut != 0 {
            // a damaged tag over the genuine data, under the genuine nonce
            let mut bad = resp.clone();
            let name = match tag_mut % 8 {
                1 => { bad.truncate(0); "empty" }
                2 => { bad.truncate(1); "one-byte" }
                3 => { bad.truncate(16); "half" }
                4 => { bad.truncate(31); "one-byte-short" }
                5 => { bad.push(0); "one-byte-long" }
                6 => { let l = bad.len(); bad[l - 1] ^= 1; "last-bit" }
                7 => { bad[0] ^= 0x80; "first-bit" }
                _ => {
                    let mut other = *secret;
                    other[0] ^= 1;
                    bad = self.tag(&other, n1, &recs, which % 2 == 0);
                    "other-secret"
                }
            };
            let ok = helper.check_hmac(&muts(&recs), bad);
            st.class(format!("nonce:damaged-tag:{}:{}", name, if ok { "accepted" } else { "refused" }));
            if ok {
                return ctx.report(st, Violation::new(format!("C17:nonce:damaged-tag-accepted:{}", name), format!("a tag damaged by [{}] was accepted for {:?}", name, recs)));
            }
            st.nontrivial_shape(("nonce-damaged-tag", name, recs.len()));
        }
        match which % 4 {
            0 | 1 => {
                // replay of the old response against a later request
                ent.0.set(*n2);
                helper.new_nonce(&ent);
                let ok = helper.check_hmac(&muts(&recs), resp.clone());
                st.class(format!("nonce:replay:{}", if ok { "accepted" } else { "refused" }));
                if ok && n1 != n2 {
                    return ctx.report(st, Violation::new("C17:nonce:replay-accepted", format!("response under nonce {} accepted for request with nonce {}", hex::encode(n1), hex::encode(n2))));
                }
                if n1 != n2 {
                    st.nontrivial_shape(("nonce-replay", recs.len()));
                }
            }
            2 => {
                // response computed under another nonce
                let other = self.tag(secret, n2, &recs, true);
                let ok = helper.check_hmac(&muts(&recs), other);
                st.class(format!("nonce:other-nonce:{}", if ok { "accepted" } else { "refused" }));
                if ok && n1 != n2 {
                    return ctx.report(st, Violation::new("C17:nonce:other-nonce-accepted", "response under a different nonce accepted".to_string()));
                }
                if n1 != n2 {
                    st.nontrivial_shape(("nonce-other", recs.len()));
                }
            }
            _ => {
                // tampered data with the genuine tag
                if let Some(r2) = apply_stamper(&recs, tamper) {
                    let ok = helper.check_hmac(&muts(&r2), resp);
                    let name = stamper_name(tamper);
                    st.class(format!("nonce:tampered:{}:{}", name, if ok { "accepted" } else { "refused" }));
                    if ok && sorted(&r2) != sorted(&recs) {
                        let cause = if concat(&recs) == concat(&r2) { "unframed-concatenation" } else { name };
                        return ctx.report(st, Violation::new(
                            format!("C17:nonce:collision:{}", cause),
                            format!("response for {:?} accepted for {:?} ({:?})", recs, r2, tamper),
                        ));
                    }
                    if sorted(&r2) != sorted(&recs) {
                        st.nontrivial_shape(("nonce-tamper", name, recs.len()));
                    }
                }
            }
        }
        Ok(())
    }
}

impl Prop for C17 {
    type Case = Case;
    fn id(&self) -> &'static str {
        "C17"
    }
    fn rule(&self) -> String {
        "generated (secret, key, version, value) and mutation lists of 0-5 records with short prefix-sharing keys (incl. NUL and '/'), versions \
         incl. high-byte extremes; one tamper operator per case: bit flip, other key, other version, swap with another record, \
         truncate/extend, duplicate/drop, boundary moves (bytes shifted between key/version/value of one record or across adjacent \
         records), record merge/split, replay under a later nonce, response under another nonce. Three layers: LSS per-value tag with and \
         without encryption, shared mutation-list tag in vls-core and in the LSS client (client and server direction), nonce binding of \
         check_hmac. Oracles: round-trip (untampered verifies and returns the original) and injectivity (anything that is not exactly what \
         was written must be refused / different record sets must have different tags). Non-trivial: every tampered case whose result \
         differs from the original as a record set; distinct by (layer, operator, sizes). Collisions are generated by construction."
            .into()
    }
    fn assumptions(&self) -> Vec<String> {
        vec![
            "HMAC-SHA256 and ChaCha20 themselves are trusted; only framing/binding is examined".into(),
            "versions are < 2^63 (LSS uses i64)".into(),
            "agreement of the two shared-tag implementations is observed in the class histogram but not demanded by the property".into(),
        ]
    }
    fn cases(&self, tier: Tier) -> u32 {
        tier.pick(60_000, 2_000_000)
    }
    fn strategy(&self, tier: Tier) -> BoxedStrategy<Case> {
        let secret32 = any::<[u8; 32]>();
        // the client-driver cases go over a loopback socket: about 2 % of the quick tier, 0.4 % of the
        // (33 times larger) thorough tier
        let (wk, wd) = tier.pick((1u32, 2u32), (3u32, 1u32));
        prop_oneof![
            20 * wk => (proptest::collection::vec(any::<u8>(), 32..33), key_strat(), version_strat(), value_strat(), vtamper_strat(), any::<bool>())
                .prop_map(|(secret, key, version, value, tamper, crypt)| Case::Value { secret, key, version, value, tamper, crypt }),
            30 * wk => (secret32.clone(), proptest::collection::vec(rec_strat(), 0..6), stamper_strat(), any::<bool>(), any::<bool>())
                .prop_map(|(secret, recs, tamper, lss_impl, server_tag)| Case::Shared { secret, recs, tamper, lss_impl, server_tag }),
            20 * wk => (secret32, proptest::collection::vec(rec_strat(), 0..4), any::<[u8; 32]>(), any::<[u8; 32]>(), stamper_strat(), any::<u8>(), prop_oneof![1 => Just(0u8), 1 => 1u8..9])
                .prop_map(|(secret, recs, n1, n2, tamper, which, tag_mut)| Case::Nonce { secret, recs, n1, n2, tamper, which, tag_mut }),
            10 * wk => (any::<[u8; 32]>(), (0u64..4, 0u32..3), (0u64..4, 0u32..3), 0u8..4, any::<bool>())
                .prop_map(|(seed, t1, t2, k, ldk)| Case::Entropy { seed, t1: (1_700_000_000 + t1.0, t1.1), t2: (1_700_000_000 + t2.0, t2.1), k, ldk }),
            10 * wk => (any::<[u8; 32]>(), proptest::collection::vec(rec_strat(), 0..5), 0u8..7, any::<u8>())
                .prop_map(|(secret, recs, tamper, pick)| Case::Startup { secret, recs, tamper, pick }),
            wd => crate::props::c17drv::ops_strat().prop_map(|ops| Case::Driver { ops }),
        ]
        .boxed()
    }
    fn run(&self, case: &Case, st: &mut CaseStats, ctx: &Ctx) -> Result<(), Violation> {
        st.sample = Some(json!(case));
        match case {
            Case::Value { secret, key, version, value, tamper, crypt } => self.run_value(secret, key, *version, value, tamper, *crypt, st, ctx),
            Case::Shared { secret, recs, tamper, lss_impl, server_tag } => self.run_shared(secret, recs, tamper, *lss_impl, *server_tag, st, ctx),
            Case::Nonce { secret, recs, n1, n2, tamper, which, tag_mut } => self.run_nonce(secret, recs, n1, n2, tamper, *which, *tag_mut, st, ctx),
            Case::Entropy { seed, t1, t2, k, ldk } => self.run_entropy(seed, *t1, *t2, *k, *ldk, st, ctx),
            Case::Startup { secret, recs, tamper, pick } => self.run_startup(secret, recs, *tamper, *pick, st, ctx),
            Case::Driver { ops } => crate::props::c17drv::run_driver(ops, st, ctx),
        }
    }
    fn min_nontrivial(&self, tier: Tier) -> usize {
        tier.pick(100, 300)
    }
}
