//! C17, client-driver group: the privileged LSS client (`lightning_storage_server::client::
//! PrivClient`, what a signer with direct storage access runs) against an in-process storage
//! server (tonic over a loopback TCP socket) that is honest or misbehaves in generated ways.
//!
//! The storage server legitimately knows the transport secret (ECDH with the client), so it can
//! always produce a valid per-response tag over whatever records it likes, under the nonce the
//! request carries.  What it does not know is the per-record secret.  The oracle: every record
//! `PrivClient::get` hands back (and every conflict record `PrivClient::put` reports) is exactly a
//! (key, version, value) triple this client wrote before; a reply recorded earlier (records and
//! tag, verbatim) is never accepted for a later read.
//!
//! One server and one connected client per engine thread (thread-local, created on first use);
//! the server's store and behaviour are reset at the top of every case.

use crate::engine::*;
use lightning_signer::bitcoin::secp256k1::{PublicKey, Secp256k1, SecretKey};
use lightning_storage_server::client::{ClientError, PrivAuth, PrivClient};
use lightning_storage_server::proto::lightning_storage_server::{LightningStorage, LightningStorageServer};
use lightning_storage_server::proto::{GetReply, GetRequest, InfoReply, InfoRequest, KeyValue, PingReply, PingRequest, PutReply, PutRequest};
use lightning_storage_server::util::compute_shared_hmac;
use lightning_storage_server::Value;
use proptest::prelude::*;
use serde::{Deserialize, Serialize};
use serde_json::json;
use std::cell::RefCell;
use std::collections::{BTreeMap, BTreeSet};
use std::sync::{Arc, Mutex};
use tonic::{Request, Response, Status};

const KEYS: [&str; 6] = ["channel/02aa/0001", "channel/02aa/0002", "channel/02ab/0001", "node/entry/02aa", "node/state/02aa", "n"];
const PREFIXES: [&str; 5] = ["", "channel/", "channel/02aa/", "node/", "channel/02aa/0001"];

/// What the server does to the records of a reply (read reply, or conflict list of a refused put).
#[derive(Clone, Debug, Serialize, Deserialize, PartialEq, Eq, Hash)]
pub enum Tamper {
    Honest,
    /// flip one bit of the stored bytes of record `rec`
    FlipBit { rec: u8, pos: u16 },
    /// keep only the first n stored bytes (n mapped monotonically onto 0..len, so 0 = nothing left)
    Keep { rec: u8, n: u16 },
    /// drop the first n stored bytes (1..=len)
    DropFront { rec: u8, n: u16 },
    /// return the bytes stored under another key
    SwapWith { rec: u8, other: u8 },
    /// report another version
    Version { rec: u8, delta: i8 },
    /// report the record under another key
    Rename { rec: u8, other: u8 },
    /// add a record nobody wrote: kind 0 empty value, 1 thirty-two zero bytes, 2 a copy of the stored
    /// bytes of another key, 3 placeholder (version -1, empty value)
    Inject { key: u8, version: u8, kind: u8 },
    /// answer with an earlier read reply, verbatim (records and tag)
    Replay,
    /// answer with the right records and a tag computed over an empty nonce
    EmptyNonceTag,
    /// answer with the right records and a tag computed under another transport secret
    ForeignTag,
}

#[derive(Clone, Debug, Serialize, Deserialize, PartialEq, Eq, Hash)]
pub enum DOp {
    /// write records (key index, value selector); versions are the successors of what the client
    /// wrote last.  `conflict`: the server refuses the write and reports its stored records for
    /// those keys as conflicts, honestly or tampered
    Put { recs: Vec<(u8, u8)>, conflict: Option<Tamper> },
    Get { prefix: u8, tamper: Tamper },
}

fn tamper_strat() -> impl Strategy<Value = Tamper> {
    let rec = || 0u8..6;
    prop_oneof![
        3 => Just(Tamper::Honest),
        2 => (rec(), any::<u16>()).prop_map(|(rec, pos)| Tamper::FlipBit { rec, pos }),
        3 => (rec(), prop_oneof![2 => Just(0u16), 1 => Just(1u16), 3 => any::<u16>(), 1 => Just(u16::MAX)]).prop_map(|(rec, n)| Tamper::Keep { rec, n }),
        2 => (rec(), any::<u16>()).prop_map(|(rec, n)| Tamper::DropFront { rec, n }),
        2 => (rec(), rec()).prop_map(|(rec, other)| Tamper::SwapWith { rec, other }),
        2 => (rec(), prop_oneof![Just(-1i8), Just(1i8), Just(-3i8), Just(100i8)]).prop_map(|(rec, delta)| Tamper::Version { rec, delta }),
        2 => (rec(), rec()).prop_map(|(rec, other)| Tamper::Rename { rec, other }),
        2 => (rec(), 0u8..4, 0u8..4).prop_map(|(key, version, kind)| Tamper::Inject { key, version, kind }),
        2 => Just(Tamper::Replay),
        1 => Just(Tamper::EmptyNonceTag),
        1 => Just(Tamper::ForeignTag),
    ]
}

pub fn dop_strat() -> impl Strategy<Value = DOp> {
    prop_oneof![
        3 => (proptest::collection::vec((0u8..6, 0u8..4), 1..4), prop_oneof![5 => Just(None), 2 => tamper_strat().prop_map(Some)]).prop_map(|(recs, conflict)| DOp::Put { recs, conflict }),
        5 => (0u8..5, tamper_strat()).prop_map(|(prefix, tamper)| DOp::Get { prefix, tamper }),
    ]
}

pub fn ops_strat() -> impl Strategy<Value = Vec<DOp>> {
    proptest::collection::vec(dop_strat(), 1..10)
}

#[derive(Default)]
struct ServerState {
    store: BTreeMap<String, (i64, Vec<u8>)>,
    /// behaviour for the next read / the next write
    get_tamper: Option<Tamper>,
    put_conflict: Option<Tamper>,
    /// read replies given so far (for Replay)
    past_replies: Vec<(Vec<KeyValue>, Vec<u8>)>,
    /// what the last tamper did: Some(true) it changed the reply, Some(false) it had nothing to act on
    last_effect: Option<bool>,
}

struct MockStorage {
    secret_key: SecretKey,
    public_key: PublicKey,
    state: Mutex<ServerState>,
}

fn apply_tamper(t: &Tamper, kvs: &mut Vec<(String, Value)>, store: &BTreeMap<String, (i64, Vec<u8>)>) -> bool {
    let n = kvs.len();
    let idx = |rec: u8| -> Option<usize> { if n == 0 { None } else { Some(rec as usize % n) } };
    match t {
        Tamper::Honest | Tamper::Replay | Tamper::EmptyNonceTag | Tamper::ForeignTag => false,
        Tamper::FlipBit { rec, pos } => match idx(*rec) {
            Some(i) if !kvs[i].1.value.is_empty() => {
                let len = kvs[i].1.value.len();
                let p = pick_idx(*pos, len);
                kvs[i].1.value[p] ^= 1 << (pos % 8);
                true
            }
            _ => false,
        },
        Tamper::Keep { rec, n: k } => match idx(*rec) {
            Some(i) if !kvs[i].1.value.is_empty() => {
                let len = kvs[i].1.value.len();
                let keep = pick_idx(*k, len); // 0..len-1
                kvs[i].1.value.truncate(keep);
                true
            }
            _ => false,
        },
        Tamper::DropFront { rec, n: k } => match idx(*rec) {
            Some(i) if !kvs[i].1.value.is_empty() => {
                let len = kvs[i].1.value.len();
                let d = 1 + pick_idx(*k, len); // 1..=len
                kvs[i].1.value.drain(..d);
                true
            }
            _ => false,
        },
        Tamper::SwapWith { rec, other } => match idx(*rec) {
            Some(i) => {
                let ok = KEYS[*other as usize % KEYS.len()];
                match store.get(ok) {
                    Some((_, bytes)) if ok != kvs[i].0 => {
                        kvs[i].1.value = bytes.clone();
                        true
                    }
                    _ => false,
                }
            }
            None => false,
        },
        Tamper::Version { rec, delta } => match idx(*rec) {
            Some(i) => {
                kvs[i].1.version += *delta as i64;
                true
            }
            None => false,
        },
        Tamper::Rename { rec, other } => match idx(*rec) {
            Some(i) => {
                let ok = KEYS[*other as usize % KEYS.len()];
                if ok != kvs[i].0 {
                    kvs[i].0 = ok.to_string();
                    true
                } else {
                    false
                }
            }
            None => false,
        },
        Tamper::Inject { key, version, kind } => {
            let k = KEYS[*key as usize % KEYS.len()].to_string();
            // only keys the reply does not carry already
            if kvs.iter().any(|(kk, _)| *kk == k) {
                return false;
            }
            let (version, value) = match kind % 4 {
                0 => (*version as i64, vec![]),
                1 => (*version as i64, vec![0u8; 32]),
                2 => match store.iter().find(|(kk, _)| **kk != k) {
                    Some((_, (_, bytes))) => (*version as i64, bytes.clone()),
                    None => (*version as i64, vec![7u8; 40]),
                },
                _ => (-1, vec![]),
            };
            kvs.push((k, Value { version, value }));
            kvs.sort_by(|a, b| a.0.cmp(&b.0));
            true
        }
    }
}

impl MockStorage {
    fn shared_secret(&self, client_id: &[u8]) -> Result<Vec<u8>, Status> {
        let client_id = PublicKey::from_slice(client_id).map_err(|_| Status::invalid_argument("invalid client id"))?;
        Ok(PrivAuth::new_for_server(&self.secret_key, &client_id).shared_secret)
    }
}

#[tonic::async_trait]
impl LightningStorage for MockStorage {
    async fn ping(&self, request: Request<PingRequest>) -> Result<Response<PingReply>, Status> {
        Ok(Response::new(PingReply { message: request.into_inner().message }))
    }

    async fn info(&self, _request: Request<InfoRequest>) -> Result<Response<InfoReply>, Status> {
        Ok(Response::new(InfoReply { version: "mock".to_string(), server_id: self.public_key.serialize().to_vec() }))
    }

    async fn put(&self, request: Request<PutRequest>) -> Result<Response<PutReply>, Status> {
        let request = request.into_inner();
        let auth = request.auth.ok_or_else(|| Status::invalid_argument("missing auth"))?;
        let secret = self.shared_secret(&auth.client_id)?;
        let kvs: Vec<(String, Value)> = request.kvs.into_iter().map(|kv| (kv.key, Value { version: kv.version, value: kv.value })).collect();
        if compute_shared_hmac(&secret, &[0x01], &kvs) != request.hmac {
            return Err(Status::invalid_argument("invalid client HMAC"));
        }
        let mut s = self.state.lock().unwrap();
        if let Some(t) = s.put_conflict.take() {
            // refuse, reporting the stored records of the written keys (a placeholder where there is none)
            let mut conflicts: Vec<(String, Value)> = kvs
                .iter()
                .filter_map(|(k, _)| s.store.get(k).map(|(ver, bytes)| (k.clone(), Value { version: *ver, value: bytes.clone() })))
                .collect();
            let eff = apply_tamper(&t, &mut conflicts, &s.store);
            s.last_effect = Some(eff);
            let conflicts = conflicts.into_iter().map(|(key, v)| KeyValue { key, version: v.version, value: v.value }).collect();
            return Ok(Response::new(PutReply { success: false, hmac: vec![], conflicts }));
        }
        for (key, value) in kvs.iter() {
            s.store.insert(key.clone(), (value.version, value.value.clone()));
        }
        let hmac = compute_shared_hmac(&secret, &[0x02], &kvs);
        Ok(Response::new(PutReply { success: true, hmac, conflicts: vec![] }))
    }

    async fn get(&self, request: Request<GetRequest>) -> Result<Response<GetReply>, Status> {
        let request = request.into_inner();
        let auth = request.auth.ok_or_else(|| Status::invalid_argument("missing auth"))?;
        let secret = self.shared_secret(&auth.client_id)?;
        let mut s = self.state.lock().unwrap();
        let tamper = s.get_tamper.take().unwrap_or(Tamper::Honest);
        if tamper == Tamper::Replay {
            // the last recorded reply, verbatim
            if let Some((kvs, hmac)) = s.past_replies.last().cloned() {
                s.last_effect = Some(true);
                return Ok(Response::new(GetReply { kvs, hmac }));
            }
            s.last_effect = Some(false);
        }
        let mut kvs: Vec<(String, Value)> = s
            .store
            .iter()
            .filter(|(k, _)| k.starts_with(&request.key_prefix))
            .map(|(k, (ver, bytes))| (k.clone(), Value { version: *ver, value: bytes.clone() }))
            .collect();
        if tamper != Tamper::Replay {
            let eff = apply_tamper(&tamper, &mut kvs, &s.store);
            s.last_effect = Some(eff);
        }
        // the tag is right for the transport (the server knows that secret), under the request's nonce
        let hmac = match tamper {
            Tamper::EmptyNonceTag => {
                s.last_effect = Some(true);
                compute_shared_hmac(&secret, &[], &kvs)
            }
            Tamper::ForeignTag => {
                s.last_effect = Some(true);
                let mut other = secret.clone();
                other[0] ^= 0x80;
                compute_shared_hmac(&other, &request.nonce, &kvs)
            }
            _ => compute_shared_hmac(&secret, &request.nonce, &kvs),
        };
        let kvs: Vec<KeyValue> = kvs.into_iter().map(|(key, v)| KeyValue { key, version: v.version, value: v.value }).collect();
        if tamper == Tamper::Honest {
            s.past_replies.push((kvs.clone(), hmac.clone()));
        }
        Ok(Response::new(GetReply { kvs, hmac }))
    }
}

struct Rig {
    rt: tokio::runtime::Runtime,
    storage: Arc<MockStorage>,
    client: PrivClient,
}

fn make_rig() -> Rig {
    let rt = tokio::runtime::Builder::new_current_thread().enable_all().build().expect("tokio runtime");
    let secp = Secp256k1::new();
    let server_key = SecretKey::from_slice(&[0x22u8; 32]).unwrap();
    let client_key = SecretKey::from_slice(&[0x33u8; 32]).unwrap();
    let storage = Arc::new(MockStorage { secret_key: server_key, public_key: PublicKey::from_secret_key(&secp, &server_key), state: Mutex::new(ServerState::default()) });
    let st2 = storage.clone();
    let client = rt.block_on(async move {
        let listener = tokio::net::TcpListener::bind("127.0.0.1:0").await.expect("bind loopback");
        let addr = listener.local_addr().expect("local addr");
        let incoming = tokio_stream::wrappers::TcpListenerStream::new(listener);
        let service = LightningStorageServer::from_arc(st2);
        tokio::spawn(async move {
            tonic::transport::Server::builder().add_service(service).serve_with_incoming(incoming).await.expect("serve");
        });
        let uri = format!("http://{}", addr);
        let (server_id, _v) = PrivClient::get_info(&uri).await.expect("info");
        let auth = PrivAuth::new_for_client(&client_key, &server_id);
        PrivClient::new(&uri, auth).await.expect("connect")
    });
    Rig { rt, storage, client }
}

thread_local! {
    static RIG: RefCell<Option<Rig>> = RefCell::new(None);
}

fn value_for(sel: u8, key: &str, version: i64) -> Vec<u8> {
    match sel % 4 {
        0 => vec![],
        1 => format!("{{\"k\":\"{}\",\"commit_num\":{}}}", key, version).into_bytes(),
        2 => vec![0u8; 33],
        _ => (0..200u32).map(|i| (i as u8).wrapping_mul(31).wrapping_add(version as u8)).collect(),
    }
}

pub fn run_driver(ops: &[DOp], st: &mut CaseStats, ctx: &Ctx) -> Result<(), Violation> {
    RIG.with(|cell| {
        let mut slot = cell.borrow_mut();
        if slot.is_none() {
            *slot = Some(make_rig());
        }
        let rig = slot.as_mut().unwrap();
        // reset the server
        *rig.storage.state.lock().unwrap() = ServerState::default();
        let hmac_secret = [0x44u8; 32];
        // everything this client ever wrote: (key, version) -> value
        let mut written: BTreeMap<(String, i64), Vec<u8>> = BTreeMap::new();
        let mut last_version: BTreeMap<String, i64> = BTreeMap::new();
        let mut shape: Vec<(u8, String, &'static str)> = vec![];
        let mut trace = vec![];
        let mut refused_tampered = 0u32;
        for (i, op) in ops.iter().enumerate() {
            match op {
                DOp::Put { recs, conflict } => {
                    let mut batch: Vec<(String, Value)> = vec![];
                    let mut seen: BTreeSet<String> = BTreeSet::new();
                    for (k, sel) in recs.iter() {
                        let key = KEYS[*k as usize % KEYS.len()].to_string();
                        if !seen.insert(key.clone()) {
                            continue;
                        }
                        let version = last_version.get(&key).map(|v| v + 1).unwrap_or(0);
                        batch.push((key.clone(), Value { version, value: value_for(*sel, &key, version) }));
                    }
                    rig.storage.state.lock().unwrap().put_conflict = conflict.clone();
                    rig.storage.state.lock().unwrap().last_effect = None;
                    let b2 = batch.clone();
                    let client = &mut rig.client;
                    let res = rig.rt.block_on(async { client.put(&hmac_secret, b2).await });
                    let effect = rig.storage.state.lock().unwrap().last_effect;
                    let tname = conflict.as_ref().map(|t| tamper_name(t)).unwrap_or("no-conflict");
                    let tag: &'static str = match &res {
                        Ok(()) => {
                            for (k, v) in batch.iter() {
                                written.insert((k.clone(), v.version), v.value.clone());
                                last_version.insert(k.clone(), v.version);
                            }
                            "ok"
                        }
                        Err(ClientError::PutConflict(conflicts)) => {
                            for (k, v) in conflicts.iter() {
                                if written.get(&(k.clone(), v.version)) != Some(&v.value) {
                                    ctx.report(st, Violation::new(
                                        format!("C17:driver:forged-conflict-record-accepted:{}", tname),
                                        format!("step {} {:?}: PrivClient::put reported the conflict record ({:?}, version {}, {} bytes) as authentic, but this client never wrote it", i, op, k, v.version, v.value.len()),
                                    ))?;
                                }
                            }
                            "conflict"
                        }
                        Err(ClientError::InvalidHmac(..)) => "invalid-hmac",
                        Err(ClientError::InvalidServerHmac()) => "invalid-server-hmac",
                        Err(_) => "error",
                    };
                    if effect == Some(true) && tag != "conflict" && tag != "ok" {
                        refused_tampered += 1;
                    }
                    st.class(format!("driver:put:{}:{}", tname, tag));
                    shape.push((0, tname.to_string(), tag));
                    if trace.len() < 20 {
                        trace.push(json!({"i": i, "op": op, "result": tag}));
                    }
                }
                DOp::Get { prefix, tamper } => {
                    let pfx = PREFIXES[*prefix as usize % PREFIXES.len()].to_string();
                    {
                        let mut s = rig.storage.state.lock().unwrap();
                        s.get_tamper = Some(tamper.clone());
                        s.last_effect = None;
                    }
                    let client = &mut rig.client;
                    let res = rig.rt.block_on(async { client.get(&hmac_secret, pfx.clone()).await });
                    let effect = rig.storage.state.lock().unwrap().last_effect;
                    let tname = tamper_name(tamper);
                    let tag: &'static str = match &res {
                        Ok(kvs) => {
                            if effect == Some(true) && matches!(tamper, Tamper::Replay | Tamper::EmptyNonceTag | Tamper::ForeignTag) {
                                ctx.report(st, Violation::new(
                                    format!("C17:driver:response-accepted-without-fresh-nonce-tag:{}", tname),
                                    format!("step {} {:?}: PrivClient::get accepted a reply whose tag was not computed over this request's nonce under the transport secret ({})", i, op, tname),
                                ))?;
                            }
                            for (k, v) in kvs.iter() {
                                if written.get(&(k.clone(), v.version)) != Some(&v.value) {
                                    ctx.report(st, Violation::new(
                                        format!("C17:driver:forged-record-accepted:{}", tname),
                                        format!("step {} {:?}: PrivClient::get returned ({:?}, version {}, {} bytes) as authentic, but this client never wrote it", i, op, k, v.version, v.value.len()),
                                    ))?;
                                }
                            }
                            "ok"
                        }
                        Err(ClientError::InvalidHmac(..)) => "invalid-hmac",
                        Err(ClientError::InvalidServerHmac()) => "invalid-server-hmac",
                        Err(ClientError::PutConflict(_)) => "conflict",
                        Err(_) => "error",
                    };
                    if *tamper == Tamper::Honest && tag != "ok" {
                        // an honest reply must read back (round trip)
                        ctx.report(st, Violation::new(
                            "C17:driver:honest-reply-refused".to_string(),
                            format!("step {} {:?}: an unmodified reply was refused: {}", i, op, tag),
                        ))?;
                    }
                    if effect == Some(true) && tag != "ok" {
                        refused_tampered += 1;
                    }
                    st.class(format!("driver:get:{}:{}{}", tname, tag, if effect == Some(false) { ":no-effect" } else { "" }));
                    shape.push((1, tname.to_string(), tag));
                    if trace.len() < 20 {
                        trace.push(json!({"i": i, "op": op, "prefix": pfx, "result": tag}));
                    }
                }
            }
        }
        st.sample = Some(json!({"group": "driver", "trace": trace}));
        if refused_tampered > 0 && !written.is_empty() {
            st.class("driver:nontrivial");
            st.nontrivial_shape(("driver", shape));
        }
        Ok(())
    })
}

fn tamper_name(t: &Tamper) -> &'static str {
    match t {
        Tamper::Honest => "honest",
        Tamper::FlipBit { .. } => "flip-bit",
        Tamper::Keep { .. } => "truncate",
        Tamper::DropFront { .. } => "drop-front",
        Tamper::SwapWith { .. } => "swap-value",
        Tamper::Version { .. } => "version",
        Tamper::Rename { .. } => "rename",
        Tamper::Inject { .. } => "inject",
        Tamper::Replay => "replay",
        Tamper::EmptyNonceTag => "empty-nonce-tag",
        Tamper::ForeignTag => "foreign-tag",
    }
}
