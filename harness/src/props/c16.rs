//! C16 — the key-version-value stores never roll back and agree with each other.
//!
//! Generator: op sequences over 5 keys (sharing prefixes) x versions 0..6 x 4 values.
//! Oracle: a BTreeMap reference model of "last accepted write per key" for the memory and
//! redb back ends (differential + model), and transaction invariants for the cloud store.

use crate::engine::*;
use lightning_signer::persist::Mutations;
use proptest::prelude::*;
use serde::{Deserialize, Serialize};
use serde_json::json;
use std::collections::BTreeMap;
use vls_persist::kvv::cloud::CloudKVVStore;
use vls_persist::kvv::memory::MemoryKVVStore;
use vls_persist::kvv::redb::RedbKVVStore;
use vls_persist::kvv::{KVVStore, KVV};

const KEYS: [&str; 5] = ["a", "a/b", "a/c", "b", "b/a/x"];
const PREFIXES: [&str; 5] = ["", "a", "a/", "b", "c"];

fn value(i: u8) -> Vec<u8> {
    match i % 4 {
        0 => vec![],
        1 => vec![1],
        2 => vec![2, 3],
        _ => vec![0xff; 40],
    }
}

#[derive(Clone, Debug, Serialize, Deserialize, PartialEq)]
pub enum Op {
    Put { k: u8, v: u8 },
    PutV { k: u8, ver: u8, v: u8 },
    /// unique keys per batch: the only shape commit() and the sync path produce
    Batch(Vec<(u8, u8, u8)>),
    Delete { k: u8 },
    Get { k: u8 },
    GetVersion { k: u8 },
    GetPrefix { p: u8 },
    Reopen,
    /// the process dies (no orderly close): the database files are copied as they are while the
    /// store is still open, and the copy is opened; every write acknowledged before must be there
    CrashReopen,
}

#[derive(Clone, Debug, Serialize, Deserialize, PartialEq)]
pub enum COp {
    Put { k: u8, v: u8 },
    PutV { k: u8, ver: u8, v: u8 },
    Batch(Vec<(u8, u8, u8)>),
    Delete { k: u8 },
    Get { k: u8 },
    /// prepare() immediately followed by commit(), then enter() again
    Commit,
    /// the process dies after prepare() and before commit(): the transaction is abandoned
    CrashAfterPrepare,
    /// a batch from the cloud applied outside a transaction (sync path)
    SyncBatch(Vec<(u8, u8, u8)>),
    /// the same, and the batch also carries the last-writer record exactly as the local store has it
    /// (a fetch of the whole external state by the signer that wrote it last)
    SyncBatchW(Vec<(u8, u8, u8)>),
}

#[derive(Clone, Debug, Serialize, Deserialize)]
pub enum Case {
    Local(Vec<Op>),
    Cloud(Vec<COp>),
}

fn k_strat() -> impl Strategy<Value = u8> {
    0u8..KEYS.len() as u8
}

fn batch_strat() -> impl Strategy<Value = Vec<(u8, u8, u8)>> {
    proptest::collection::vec((k_strat(), 0u8..6, 0u8..4), 0..5).prop_map(|mut v| {
        // unique keys: keep first occurrence
        let mut seen = [false; 8];
        v.retain(|(k, _, _)| {
            let s = seen[*k as usize];
            seen[*k as usize] = true;
            !s
        });
        v
    })
}

/// As `batch_strat`; a quarter of the batches write one of their keys a second time, later in
/// the batch, with a higher version and another value (what the commit of a request that updated
/// one entry twice hands to the local store).  All plausible semantics agree on such a batch:
/// it is accepted iff every entry is acceptable against what is stored, and the last entry wins.
fn batch_dup_strat() -> impl Strategy<Value = Vec<(u8, u8, u8)>> {
    (batch_strat(), prop::bool::weighted(0.25), any::<u8>(), 1u8..3, 0u8..4).prop_map(|(mut v, dup, pick, dv, val)| {
        if dup && !v.is_empty() {
            let i = crate::engine::pick_idx((pick as u16) << 8, v.len());
            let (k, ver, _) = v[i];
            v.push((k, ver + dv, val));
        }
        v
    })
}

fn op_strat() -> impl Strategy<Value = Op> {
    prop_oneof![
        4 => (k_strat(), 0u8..4).prop_map(|(k, v)| Op::Put { k, v }),
        5 => (k_strat(), 0u8..6, 0u8..4).prop_map(|(k, ver, v)| Op::PutV { k, ver, v }),
        3 => batch_dup_strat().prop_map(Op::Batch),
        1 => k_strat().prop_map(|k| Op::Delete { k }),
        1 => k_strat().prop_map(|k| Op::Get { k }),
        1 => k_strat().prop_map(|k| Op::GetVersion { k }),
        1 => (0u8..PREFIXES.len() as u8).prop_map(|p| Op::GetPrefix { p }),
        1 => Just(Op::Reopen),
        1 => Just(Op::CrashReopen),
    ]
}

fn cop_strat() -> impl Strategy<Value = COp> {
    prop_oneof![
        4 => (k_strat(), 0u8..4).prop_map(|(k, v)| COp::Put { k, v }),
        5 => (k_strat(), 0u8..6, 0u8..4).prop_map(|(k, ver, v)| COp::PutV { k, ver, v }),
        2 => batch_strat().prop_map(COp::Batch),
        1 => k_strat().prop_map(|k| COp::Delete { k }),
        2 => k_strat().prop_map(|k| COp::Get { k }),
        3 => Just(COp::Commit),
        1 => Just(COp::CrashAfterPrepare),
        1 => batch_strat().prop_map(COp::SyncBatch),
        1 => batch_strat().prop_map(COp::SyncBatchW),
    ]
}

type Model = BTreeMap<String, (u64, Vec<u8>)>;

fn model_putv(m: &Model, k: &str, ver: u64, v: &[u8]) -> Result<bool, ()> {
    // Ok(true) = insert, Ok(false) = accepted no-op, Err = refused
    match m.get(k) {
        Some((ev, eval)) =>
            if ver < *ev {
                Err(())
            } else if ver == *ev {
                if eval.as_slice() != v {
                    Err(())
                } else {
                    Ok(false)
                }
            } else {
                Ok(true)
            },
        None => Ok(true),
    }
}

fn dump<S: KVVStore>(s: &S) -> Model {
    s.get_prefix("").unwrap().map(|kvv| kvv.into_inner()).collect()
}

fn tmp_dir() -> tempfile::TempDir {
    if std::path::Path::new("/dev/shm").is_dir() {
        tempfile::Builder::new().prefix("vverif-c16-").tempdir_in("/dev/shm").unwrap()
    } else {
        tempfile::Builder::new().prefix("vverif-c16-").tempdir().unwrap()
    }
}

pub struct C16;

impl C16 {
    fn run_local(&self, ops: &[Op], st: &mut CaseStats) -> Result<(), Violation> {
        let mut dir = tmp_dir();
        let mem = MemoryKVVStore::new([7u8; 16]);
        let mut redb = Some(RedbKVVStore::new(dir.path()));
        let mut model: Model = BTreeMap::new();
        let mut accepted = 0u32;
        let mut refused_after5 = 0u32;
        let mut reopens = 0u32;
        let mut shape: Vec<(u8, bool)> = vec![];
        let mut maxver: BTreeMap<String, u64> = BTreeMap::new();

        let fail = |site: &str, i: usize, msg: String| {
            Err(Violation::new(format!("C16:{}", site), format!("step {}: {}", i, msg)))
        };

        for (i, op) in ops.iter().enumerate() {
            let rd = redb.as_ref().unwrap();
            match op {
                Op::Put { .. } | Op::Delete { .. } => {
                    let (key, val) = match op {
                        Op::Put { k, v } => (KEYS[*k as usize], value(*v)),
                        Op::Delete { k } => (KEYS[*k as usize], vec![]),
                        _ => unreachable!(),
                    };
                    let ver = model.get(key).map(|(e, _)| e + 1).unwrap_or(0);
                    let r1 = match op {
                        Op::Put { .. } => mem.put(key, val.clone()),
                        _ => mem.delete(key),
                    };
                    let r2 = match op {
                        Op::Put { .. } => rd.put(key, val.clone()),
                        _ => rd.delete(key),
                    };
                    model.insert(key.to_string(), (ver, val));
                    if r1.is_err() {
                        return fail("memory.put", i, format!("put refused: {:?}", op));
                    }
                    if r2.is_err() {
                        return fail("redb.put", i, format!("put refused: {:?}", op));
                    }
                    accepted += 1;
                    shape.push((0, true));
                }
                Op::PutV { k, ver, v } => {
                    let key = KEYS[*k as usize];
                    let val = value(*v);
                    let exp = model_putv(&model, key, *ver as u64, &val);
                    let r1 = mem.put_with_version(key, *ver as u64, val.clone());
                    let r2 = rd.put_with_version(key, *ver as u64, val.clone());
                    if r1.is_ok() != exp.is_ok() {
                        return fail(
                            "memory.put_with_version",
                            i,
                            format!("{:?} -> {:?}, model expects {:?} (existing {:?})", op, r1, exp, model.get(key)),
                        );
                    }
                    if r2.is_ok() != exp.is_ok() {
                        return fail(
                            "redb.put_with_version",
                            i,
                            format!("{:?} -> {:?}, model expects {:?} (existing {:?})", op, r2, exp, model.get(key)),
                        );
                    }
                    if let Ok(true) = exp {
                        model.insert(key.to_string(), (*ver as u64, val));
                    }
                    if exp.is_ok() {
                        accepted += 1;
                    } else if accepted >= 5 {
                        refused_after5 += 1;
                    }
                    shape.push((1, exp.is_ok()));
                }
                Op::Batch(items) => {
                    // entries are applied in order (a key may occur twice, with increasing versions)
                    let mut ok = true;
                    let mut staged = model.clone();
                    for (k, ver, v) in items {
                        match model_putv(&staged, KEYS[*k as usize], *ver as u64, &value(*v)) {
                            Err(()) => ok = false,
                            Ok(true) => {
                                staged.insert(KEYS[*k as usize].to_string(), (*ver as u64, value(*v)));
                            }
                            Ok(false) => {}
                        }
                    }
                    let has_dup = items.iter().enumerate().any(|(i, a)| items[..i].iter().any(|b| b.0 == a.0));
                    if has_dup {
                        st.class(if ok { "batch_with_repeated_key:accepted" } else { "batch_with_repeated_key:refused" });
                    }
                    let mk = || -> Vec<KVV> {
                        items
                            .iter()
                            .map(|(k, ver, v)| KVV(KEYS[*k as usize].to_string(), (*ver as u64, value(*v))))
                            .collect()
                    };
                    let r1 = mem.put_batch(mk());
                    let r2 = rd.put_batch(mk());
                    if r1.is_ok() != ok {
                        return fail("memory.put_batch", i, format!("{:?} -> {:?}, model expects ok={}", op, r1, ok));
                    }
                    if r2.is_ok() != ok {
                        return fail("redb.put_batch", i, format!("{:?} -> {:?}, model expects ok={}", op, r2, ok));
                    }
                    if ok {
                        model = staged;
                        accepted += 1;
                    } else if accepted >= 5 {
                        refused_after5 += 1;
                    }
                    shape.push((2, ok));
                }
                Op::Get { k } => {
                    let key = KEYS[*k as usize];
                    let exp = model.get(key).cloned();
                    let g1 = mem.get(key).unwrap();
                    let g2 = rd.get(key).unwrap();
                    if g1 != exp {
                        return fail("memory.get", i, format!("get({}) = {:?}, model {:?}", key, g1, exp));
                    }
                    if g2 != exp {
                        return fail("redb.get", i, format!("get({}) = {:?}, model {:?}", key, g2, exp));
                    }
                }
                Op::GetVersion { k } => {
                    let key = KEYS[*k as usize];
                    let exp = model.get(key).map(|(v, _)| *v);
                    let g1 = mem.get_version(key).unwrap();
                    let g2 = rd.get_version(key).unwrap();
                    if g1 != exp {
                        return fail("memory.get_version", i, format!("{} = {:?}, model {:?}", key, g1, exp));
                    }
                    if g2 != exp {
                        return fail("redb.get_version", i, format!("{} = {:?}, model {:?}", key, g2, exp));
                    }
                }
                Op::GetPrefix { p } => {
                    let pre = PREFIXES[*p as usize];
                    let exp: Vec<(String, (u64, Vec<u8>))> =
                        model.iter().filter(|(k, _)| k.starts_with(pre)).map(|(k, v)| (k.clone(), v.clone())).collect();
                    let g1: Vec<_> = mem.get_prefix(pre).unwrap().map(|k| k.into_inner()).collect();
                    let g2: Vec<_> = rd.get_prefix(pre).unwrap().map(|k| k.into_inner()).collect();
                    if g1 != exp {
                        return fail("memory.get_prefix", i, format!("prefix {:?}: {:?} vs model {:?}", pre, g1, exp));
                    }
                    if g2 != exp {
                        return fail("redb.get_prefix", i, format!("prefix {:?}: {:?} vs model {:?}", pre, g2, exp));
                    }
                }
                Op::Reopen => {
                    let before = dump(rd);
                    drop(redb.take());
                    let r = RedbKVVStore::new(dir.path());
                    let after = dump(&r);
                    if before != after {
                        return fail("redb.reopen", i, format!("dump changed across reopen: {:?} -> {:?}", before, after));
                    }
                    redb = Some(r);
                    reopens += 1;
                    shape.push((3, true));
                }
                Op::CrashReopen => {
                    let before = dump(rd);
                    let dir2 = tmp_dir();
                    for e in std::fs::read_dir(dir.path()).expect("read_dir") {
                        let e = e.expect("dir entry");
                        if e.path().is_file() {
                            std::fs::copy(e.path(), dir2.path().join(e.file_name())).expect("copy database file");
                        }
                    }
                    let r = RedbKVVStore::new(dir2.path());
                    let after = dump(&r);
                    if before != after {
                        return fail("redb.crash_reopen", i, format!("acknowledged writes are missing after an unclean stop: dump before {:?}, after reopening a copy of the files {:?}", before, after));
                    }
                    drop(redb.take());
                    redb = Some(r);
                    dir = dir2;
                    reopens += 1;
                    shape.push((4, true));
                }
            }
            // after every step: full agreement and monotone versions
            let rd = redb.as_ref().unwrap();
            let d1 = dump(&mem);
            let d2 = dump(rd);
            if d1 != model {
                return fail("memory.state", i, format!("after {:?}: store {:?} != model {:?}", op, d1, model));
            }
            if d2 != model {
                return fail("redb.state", i, format!("after {:?}: store {:?} != model {:?}", op, d2, model));
            }
            for (k, (ver, _)) in d2.iter() {
                let cached = rd.get_version(k).unwrap();
                if cached != Some(*ver) {
                    return fail("redb.version_cache", i, format!("{}: cache {:?} stored {}", k, cached, ver));
                }
                let e = maxver.entry(k.clone()).or_insert(0);
                if *ver < *e {
                    return fail("version_decrease", i, format!("{}: {} -> {}", k, e, ver));
                }
                *e = *ver;
            }
        }
        st.class("local");
        if refused_after5 > 0 {
            st.class("local_refused_after_5_accepted");
        }
        if reopens > 0 {
            st.class("local_with_reopen");
        }
        if refused_after5 > 0 && reopens > 0 {
            st.nontrivial_shape(("local", shape));
        }
        Ok(())
    }

    fn run_cloud(&self, ops: &[COp], st: &mut CaseStats) -> Result<(), Violation> {
        let mut cloud = CloudKVVStore::new(MemoryKVVStore::new([9u8; 16]));
        cloud.enter().unwrap();
        // committed (local) state as observed through get_local / dump
        let local_dump = |c: &CloudKVVStore<MemoryKVVStore>| -> Model {
            c.get_prefix("").unwrap().map(|k| k.into_inner()).collect()
        };
        let mut committed: Model = local_dump(&cloud);
        // writes accepted in the current transaction
        let mut txn: BTreeMap<String, Vec<u8>> = BTreeMap::new();
        let mut refused = 0u32;
        let mut big_commits = 0u32;
        let mut crashes = 0u32;
        let mut partial_batches = 0u32;
        let mut shape: Vec<(u8, bool)> = vec![];

        let fail = |site: &str, i: usize, msg: String| {
            Err(Violation::new(format!("C16:{}", site), format!("step {}: {}", i, msg)))
        };
        let view = |c: &CloudKVVStore<MemoryKVVStore>| -> Vec<Option<(u64, Vec<u8>)>> {
            KEYS.iter().map(|k| c.get(k).unwrap()).collect()
        };

        for (i, op) in ops.iter().enumerate() {
            match op {
                COp::Put { .. } | COp::PutV { .. } | COp::Delete { .. } | COp::Batch(_) => {
                    let before = view(&cloud);
                    let items: Vec<(usize, Option<u64>, Vec<u8>)> = match op {
                        COp::Put { k, v } => vec![(*k as usize, None, value(*v))],
                        COp::Delete { k } => vec![(*k as usize, None, vec![])],
                        COp::PutV { k, ver, v } => vec![(*k as usize, Some(*ver as u64), value(*v))],
                        COp::Batch(b) =>
                            b.iter().map(|(k, ver, v)| (*k as usize, Some(*ver as u64), value(*v))).collect(),
                        _ => unreachable!(),
                    };
                    let r = match op {
                        COp::Put { k, v } => cloud.put(KEYS[*k as usize], value(*v)),
                        COp::Delete { k } => cloud.delete(KEYS[*k as usize]),
                        COp::PutV { k, ver, v } =>
                            cloud.put_with_version(KEYS[*k as usize], *ver as u64, value(*v)),
                        COp::Batch(b) => cloud.put_batch(
                            b.iter()
                                .map(|(k, ver, v)| KVV(KEYS[*k as usize].to_string(), (*ver as u64, value(*v))))
                                .collect(),
                        ),
                        _ => unreachable!(),
                    };
                    let after = view(&cloud);
                    let is_batch = matches!(op, COp::Batch(_));
                    match r {
                        Ok(()) => {
                            for (k, ver, val) in items.iter() {
                                let key = KEYS[*k];
                                if let (Some(ver), Some((cv, cval))) = (ver, committed.get(key)) {
                                    if ver == cv && val == cval {
                                        // idempotent re-put of the committed record: a no-op
                                        continue;
                                    }
                                }
                                let got = after[*k].clone();
                                // read-your-writes
                                match got {
                                    Some((gv, gval)) => {
                                        if gval != *val {
                                            return fail("cloud.read_own_write", i,
                                                format!("{:?} accepted but get({}) returns value {:?}", op, key, gval));
                                        }
                                        if let Some(ver) = ver {
                                            if gv != *ver {
                                                return fail("cloud.read_own_write", i,
                                                    format!("{:?} accepted but get({}) returns version {}", op, key, gv));
                                            }
                                        }
                                        if let Some((cv, _)) = committed.get(key) {
                                            if gv < *cv {
                                                return fail("cloud.version_lowered", i,
                                                    format!("{:?} accepted below committed version {}", op, cv));
                                            }
                                        }
                                    }
                                    None =>
                                        return fail("cloud.read_own_write", i,
                                            format!("{:?} accepted but get({}) is None", op, key)),
                                }
                                txn.insert(key.to_string(), val.clone());
                            }
                            // keys not touched are unchanged
                            for (ki, _) in KEYS.iter().enumerate() {
                                if !items.iter().any(|(k, _, _)| *k == ki) && before[ki] != after[ki] {
                                    return fail("cloud.unrelated_key_changed", i,
                                        format!("{:?} changed {}: {:?} -> {:?}", op, KEYS[ki], before[ki], after[ki]));
                                }
                            }
                        }
                        Err(_) => {
                            refused += 1;
                            // a refused single write changes nothing.  Batch atomicity is only
                            // claimed for the memory and disk back ends: for the cloud store a
                            // partially staged batch is counted, not judged, but keys outside
                            // the batch must be untouched.
                            if !is_batch && before != after {
                                return fail("cloud.refused_write_changed", i,
                                    format!("{:?} refused but view changed {:?} -> {:?}", op, before, after));
                            }
                            if is_batch {
                                for (ki, _) in KEYS.iter().enumerate() {
                                    if !items.iter().any(|(k, _, _)| *k == ki) && before[ki] != after[ki] {
                                        return fail("cloud.unrelated_key_changed", i,
                                            format!("{:?} changed {}: {:?} -> {:?}", op, KEYS[ki], before[ki], after[ki]));
                                    }
                                }
                                if before != after {
                                    partial_batches += 1;
                                    for (k, _, val) in items.iter() {
                                        if before[*k] != after[*k] {
                                            txn.insert(KEYS[*k].to_string(), val.clone());
                                        }
                                    }
                                }
                            }
                        }
                    }
                    shape.push((if is_batch { 2 } else { 1 }, r.is_ok()));
                }
                COp::Get { k } => {
                    let key = KEYS[*k as usize];
                    let g = cloud.get(key).unwrap();
                    match txn.get(key) {
                        Some(val) =>
                            if g.as_ref().map(|x| &x.1) != Some(val) {
                                return fail("cloud.read_own_write", i,
                                    format!("get({}) = {:?}, last write in txn {:?}", key, g, val));
                            },
                        None =>
                            if g != committed.get(key).cloned() {
                                return fail("cloud.get_local", i,
                                    format!("get({}) = {:?}, committed {:?}", key, g, committed.get(key)));
                            },
                    }
                }
                COp::Commit | COp::CrashAfterPrepare => {
                    let muts: Mutations = cloud.prepare();
                    check_muts(&muts, &txn, &committed)
                        .map_err(|m| Violation::new("C16:cloud.prepare", format!("step {}: {}", i, m)))?;
                    let before = local_dump(&cloud);
                    if before != committed {
                        return fail("cloud.local_changed_outside_commit", i,
                            format!("local {:?} != last committed {:?}", before, committed));
                    }
                    if matches!(op, COp::Commit) {
                        if cloud.commit().is_err() {
                            return fail("cloud.commit", i, "commit failed".into());
                        }
                        let mut exp = committed.clone();
                        for (k, (ver, val)) in muts.iter() {
                            exp.insert(k.clone(), (*ver, val.clone()));
                        }
                        let after = local_dump(&cloud);
                        if after != exp {
                            return fail("cloud.commit_not_exact", i,
                                format!("local after commit {:?} != committed+mutations {:?}", after, exp));
                        }
                        for (k, (ver, _)) in committed.iter() {
                            if after.get(k).map(|x| x.0) < Some(*ver) {
                                return fail("cloud.version_lowered", i,
                                    format!("{} committed {} -> {:?}", k, ver, after.get(k)));
                            }
                        }
                        if muts.len() >= 3 {
                            big_commits += 1;
                        }
                        committed = after;
                        shape.push((3, true));
                    } else {
                        // crash: the wrapper is lost, the local store survives untouched
                        let local_copy = MemoryKVVStore::new([9u8; 16]);
                        local_copy
                            .put_batch(before.iter().map(|(k, v)| KVV(k.clone(), v.clone())).collect())
                            .unwrap();
                        cloud = CloudKVVStore::new(local_copy);
                        crashes += 1;
                        shape.push((4, true));
                    }
                    txn.clear();
                    cloud.enter().unwrap();
                }
                COp::SyncBatch(b) | COp::SyncBatchW(b) => {
                    // outside a transaction: finish the current one first
                    let muts = cloud.prepare();
                    check_muts(&muts, &txn, &committed)
                        .map_err(|m| Violation::new("C16:cloud.prepare", format!("step {}: {}", i, m)))?;
                    cloud.commit().unwrap();
                    let mut base = committed.clone();
                    for (k, (ver, val)) in muts.iter() {
                        base.insert(k.clone(), (*ver, val.clone()));
                    }
                    txn.clear();
                    let mut ok = true;
                    for (k, ver, v) in b {
                        if model_putv(&base, KEYS[*k as usize], *ver as u64, &value(*v)).is_err() {
                            ok = false;
                        }
                    }
                    let mut batch: Vec<KVV> = b.iter().map(|(k, ver, v)| KVV(KEYS[*k as usize].to_string(), (*ver as u64, value(*v)))).collect();
                    if matches!(op, COp::SyncBatchW(_)) {
                        if let Some((ver, val)) = base.get(vls_persist::kvv::cloud::LAST_WRITER_KEY) {
                            // identical to the local record: a no-op for the model
                            batch.push(KVV(vls_persist::kvv::cloud::LAST_WRITER_KEY.to_string(), (*ver, val.clone())));
                            st.class("cloud:sync_batch_with_last_writer_record");
                        }
                    }
                    let r = cloud.put_batch_unlogged(batch);
                    if r.is_ok() != ok {
                        return fail("cloud.sync_batch", i, format!("{:?} -> {:?}, model expects ok={}", op, r, ok));
                    }
                    if ok {
                        for (k, ver, v) in b {
                            let key = KEYS[*k as usize];
                            if let Ok(true) = model_putv(&base, key, *ver as u64, &value(*v)) {
                                base.insert(key.to_string(), (*ver as u64, value(*v)));
                            }
                        }
                    } else {
                        refused += 1;
                    }
                    let after = local_dump(&cloud);
                    if after != base {
                        return fail("cloud.sync_batch_state", i, format!("local {:?} != expected {:?}", after, base));
                    }
                    committed = after;
                    cloud.enter().unwrap();
                    shape.push((5, ok));
                }
            }
        }
        st.class("cloud");
        if crashes > 0 {
            st.class("cloud_with_crash_after_prepare");
        }
        if partial_batches > 0 {
            st.class("cloud_observed_partially_staged_refused_batch(not_claimed)");
        }
        if big_commits > 0 && refused > 0 {
            st.nontrivial_shape(("cloud", shape));
        }
        Ok(())
    }
}

fn check_muts(
    muts: &Mutations,
    txn: &BTreeMap<String, Vec<u8>>,
    committed: &Model,
) -> Result<(), String> {
    // every accepted write of this transaction that differs from the committed value is
    // reported with its last value, nothing else but the last-writer record is reported
    let mut seen = BTreeMap::new();
    for (k, (ver, val)) in muts.iter() {
        if seen.insert(k.clone(), (*ver, val.clone())).is_some() {
            return Err(format!("key {} reported twice", k));
        }
        if k == vls_persist::kvv::cloud::LAST_WRITER_KEY {
            continue;
        }
        match txn.get(k) {
            Some(v) if v == val => {}
            other => return Err(format!("mutation {}@{} = {:?} but txn wrote {:?}", k, ver, val, other)),
        }
        if let Some((cv, _)) = committed.get(k) {
            if ver < cv {
                return Err(format!("mutation {}@{} below committed {}", k, ver, cv));
            }
        }
    }
    for (k, v) in txn.iter() {
        if !seen.contains_key(k) {
            // only allowed if it equals the committed content (accepted no-op)
            if committed.get(k).map(|x| &x.1) != Some(v) {
                return Err(format!("write {} = {:?} accepted but not reported by prepare()", k, v));
            }
        }
    }
    Ok(())
}

impl Prop for C16 {
    type Case = Case;
    fn id(&self) -> &'static str {
        "C16"
    }
    fn rule(&self) -> String {
        "op sequences (put/put_with_version/put_batch with unique keys/delete/get/get_version/get_prefix/reopen; \
         cloud: enter/writes/prepare/commit/crash-after-prepare/sync batch) over 5 prefix-sharing keys x versions 0..5 x 4 values, \
         executed against MemoryKVVStore, RedbKVVStore (on tmpfs, real reopen) and CloudKVVStore<Memory>, compared step by step with a \
         BTreeMap model. Non-trivial: local sequences with >=1 refused write after >=5 accepted and >=1 reopen; cloud sequences with \
         >=1 refused write and >=1 commit of >=3 mutations. Distinct by (op kind, accepted?) sequence."
            .into()
    }
    fn assumptions(&self) -> Vec<String> {
        vec![
            "batches contain unique keys (the only shape commit() and the sync path produce)".into(),
            "clear_database/reset_versions are outside the quantifier and not generated".into(),
            "nothing is written between prepare() and commit() (vlsd and the handler never do)".into(),
            "redb files live on tmpfs; fsync durability of the OS is not examined".into(),
        ]
    }
    fn cases(&self, tier: Tier) -> u32 {
        tier.pick(1800, 12_000)
    }
    fn strategy(&self, tier: Tier) -> BoxedStrategy<Case> {
        let n = tier.pick(40usize, 70usize);
        prop_oneof![
            proptest::collection::vec(op_strat(), 1..n).prop_map(Case::Local),
            proptest::collection::vec(cop_strat(), 1..n).prop_map(Case::Cloud),
        ]
        .boxed()
    }
    fn run(&self, case: &Case, st: &mut CaseStats, _ctx: &Ctx) -> Result<(), Violation> {
        st.sample = Some(json!(case));
        match case {
            Case::Local(ops) => self.run_local(ops, st),
            Case::Cloud(ops) => self.run_cloud(ops, st),
        }
    }
}
