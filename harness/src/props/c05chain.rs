//! C05, chain group — with the on-chain validator no new commitment beyond the initial one is
//! accepted while the funding output is unconfirmed or after a close is seen on chain.
//!
//! World: a regtest node whose validator factory is
//! `OnchainValidatorFactory::new_with_simple_factory(SimpleValidatorFactory::new_with_policy(..))`,
//! 1–2 channels opened by `chainpool::open_funded` (real funding transaction, both sides at
//! commitment 0).  History: blocks mined at regtest difficulty and delivered through the node's real
//! `ChainTracker` (`add_block` / `remove_block` + `update_tracker`, as the protocol handlers do)
//! holding the funding transaction, a mutual close, the holder's / the counterparty's current
//! commitment, the counterparty's revoked commitment, noise or nothing; reorgs (tip popped, possibly
//! re-mined without the transactions); commitment requests (sign the next counterparty commitment,
//! validate the next holder commitment, exact retries of the last accepted ones, mutual close
//! signing) and restarts from a copy of the store.
//!
//! Reference model (never read from the signer's monitors): the harness's own best chain
//! (`ChainSim`).  funding_depth = confirmations of the funding transaction on it (0 if absent),
//! closing_depth = confirmations of the transaction that spends the funding outpoint on it.
//! Oracle, one direction only: a request for commitment number > 0 that is not an exact retry of an
//! accepted one is ACCEPTED ⇒ funding_depth ≥ MIN_FUNDING_DEPTH and closing_depth == 0.

use crate::chainpool::*;
use crate::engine::*;
use crate::world::*;
use lightning_signer::bitcoin::bip32::{ChildNumber, DerivationPath};
use lightning_signer::bitcoin::secp256k1::{PublicKey, SecretKey};
use lightning_signer::bitcoin::Network;
use lightning_signer::wallet::Wallet;
use lightning_signer::policy::onchain_validator::OnchainValidatorFactory;
use lightning_signer::policy::simple_validator::SimpleValidatorFactory;
use lightning_signer::policy::validator::ValidatorFactory;
use proptest::prelude::*;
use serde::{Deserialize, Serialize};
use serde_json::{json, Value};
use std::sync::Arc;

/// The on-chain validator's required funding depth.  `OnchainValidatorFactory::make_validator`
/// builds its `OnchainPolicy` with `min_funding_depth: 1` and offers no way to configure it (the
/// validator's fields are private), so 1 is the only reachable value; it is also what the property
/// demands ("while the funding output is unconfirmed").
pub const MIN_FUNDING_DEPTH: u32 = 1;

#[derive(Clone, Debug, Serialize, Deserialize, PartialEq, Eq, Hash)]
pub struct ChanGen {
    pub anchors: bool,
    pub outbound: bool,
    pub fund: FundSpec,
}

/// a transaction of channel `c` (index into `Case::chans`) placed in a block
#[derive(Clone, Debug, Serialize, Deserialize, PartialEq, Eq, Hash)]
pub enum BTx {
    Funding { c: u8 },
    Mutual { c: u8 },
    HolderCommit { c: u8 },
    CpCommit { c: u8 },
    /// the counterparty's previous commitment, whose revocation the signer accepted
    CpRevoked { c: u8 },
    Noise { n: u8 },
}

#[derive(Clone, Debug, Serialize, Deserialize, PartialEq, Eq, Hash)]
pub enum Req {
    /// sign_counterparty_commitment_tx_phase2 for the next number
    SignCp,
    /// validate_holder_commitment_tx_phase2 for the next number, valid counterparty signatures
    ValidateHolder,
    /// the last accepted counterparty / holder commitment request again, byte for byte
    RetryCp,
    RetryHolder,
    /// sign_mutual_close_tx_phase2 with the values of the current commitments
    MutualClose,
}

#[derive(Clone, Debug, Serialize, Deserialize, PartialEq, Eq, Hash)]
pub enum Op {
    /// connect one block holding the applicable ones of these transactions (none = empty block)
    Connect { txs: Vec<BTx> },
    /// disconnect `depth` blocks; `remine`: connect as many empty sibling blocks afterwards
    Disconnect { depth: u8, remine: bool },
    /// `vary`: 0 plain content, 1 one HTLC (offered on outbound, received on inbound channels),
    /// 2 another fee rate
    Request { c: u8, kind: Req, vary: u8 },
    Restart,
}

#[derive(Clone, Debug, Serialize, Deserialize)]
pub struct Case {
    pub chans: Vec<ChanGen>,
    pub use_chain_state: bool,
    pub ops: Vec<Op>,
}

// ---------------------------------------------------------------------------------------------
// the model

struct MCh {
    f: Funded,
    spec: ChanSpec,
    /// current (last accepted) holder commitment
    holder: (u64, Content),
    /// a holder commitment was accepted but the revocation of its predecessor was refused
    holder_unrevoked: bool,
    /// current (last accepted) counterparty commitment
    cp: (u64, Content),
    /// the counterparty's previous commitment while it is not revoked yet: the revocation is
    /// delivered just before the next signature is requested, so that a retry in between is a
    /// real retry
    cp_prev: Option<(u64, Content)>,
    /// the counterparty's latest commitment whose revocation the signer accepted
    cp_revoked: Option<(u64, Content)>,
    mutual_signed: bool,
}

/// What the harness's best chain says about one channel.
#[derive(Clone, Debug)]
struct Facts {
    funding_depth: u32,
    closing_depth: u32,
    close_kind: &'static str,
}

fn facts(sim: &ChainSim, m: &MCh, w: &World) -> Facts {
    let tip = sim.height();
    let ftxid = m.f.funding_tx.compute_txid();
    let fop = w.chans[m.f.ci].setup.funding_outpoint;
    let mut fh: Option<u32> = None;
    let mut ch: Option<(u32, &'static str)> = None;
    for (i, b) in sim.blocks.iter().enumerate() {
        let h = i as u32 + 1;
        // the block as delivered, not the pool labels
        for (j, tx) in b.block.txdata.iter().enumerate().skip(1) {
            if fh.is_none() && tx.compute_txid() == ftxid {
                fh = Some(h);
            }
            if ch.is_none() && tx.input.iter().any(|inp| inp.previous_output == fop) {
                // label for the statistics only
                let kind = b.txs.get(j - 1).map(|t| t.kind).unwrap_or("?");
                ch = Some((h, kind));
            }
        }
    }
    Facts {
        funding_depth: fh.map(|h| tip + 1 - h).unwrap_or(0),
        closing_depth: ch.map(|(h, _)| tip + 1 - h).unwrap_or(0),
        close_kind: ch.map(|(_, k)| k).unwrap_or("open"),
    }
}

fn depth_bucket(d: u32) -> &'static str {
    if d == 0 {
        "0"
    } else if d < MIN_FUNDING_DEPTH {
        "<min"
    } else if d == MIN_FUNDING_DEPTH {
        "=min"
    } else {
        ">min"
    }
}

/// the policy tag of an error text, or its leading words
fn err_class(m: &str) -> String {
    if m.contains("channel is closing") {
        return "channel-is-closing".into();
    }
    if m.contains("not buried") {
        return "funding-not-buried".into();
    }
    if m.contains("after closed on-chain") {
        return "closed-on-chain".into();
    }
    if let Some(i) = m.find("policy-") {
        return m[i..].chars().take_while(|c| c.is_ascii_lowercase() || *c == '-').collect();
    }
    m.chars().filter(|c| !c.is_ascii_digit()).take(48).collect()
}

struct Run<'a> {
    w: World,
    sim: ChainSim,
    chans: Vec<MCh>,
    salt: u64,
    reorgs: u32,
    restarts: u32,
    blocks: u32,
    stopped: bool,
    trace: Vec<Value>,
    st: &'a mut CaseStats,
    ctx: &'a Ctx,
    debug: bool,
}

impl<'a> Run<'a> {
    fn note(&mut self, i: usize, v: Value) {
        if self.debug {
            eprintln!("DBG op {} h={} {}", i, self.sim.height(), v);
        }
        if self.trace.len() < 40 {
            self.trace.push(json!({"op": i, "height": self.sim.height(), "what": v}));
        }
    }

    fn persist_tracker(&self) {
        let node = self.w.node.clone();
        let tracker = node.get_tracker();
        node.get_persister().update_tracker(&node.get_id(), &tracker).expect("update_tracker");
    }

    /// the reference transactions of every channel for its current commitments
    fn pool(&self) -> Vec<ChanTxs> {
        self.chans.iter().map(|m| ChanTxs::build(&self.w, &m.f, (m.holder.0, &m.holder.1), (m.cp.0, &m.cp.1), m.cp_revoked.as_ref().map(|(n, c)| (*n, c)))).collect()
    }

    fn connect(&mut self, txs: &[BTx]) -> bool {
        let nch = self.chans.len() as u8;
        let sels: Vec<TxSel> = txs
            .iter()
            .map(|t| match t {
                BTx::Funding { c } => TxSel::Funding { c: c % nch },
                BTx::Mutual { c } => TxSel::Mutual { c: c % nch, salt: 0 },
                BTx::HolderCommit { c } => TxSel::HolderCommit { c: c % nch },
                BTx::CpCommit { c } => TxSel::CpCommit { c: c % nch },
                BTx::CpRevoked { c } => TxSel::CpRevoked { c: c % nch },
                BTx::Noise { n } => TxSel::Noise { n: *n },
            })
            .collect();
        let pool = if sels.is_empty() { vec![] } else { self.pool() };
        self.salt += 1;
        let (block, ptxs) = self.sim.build_block(&sels, &pool, self.salt);
        for t in ptxs.iter() {
            self.st.class(format!("chain:tx:{}", t.kind));
        }
        self.sim.push(block, ptxs);
        let sb = self.sim.blocks.last().unwrap().clone();
        self.blocks += 1;
        let node = self.w.node.clone();
        match self.w.txn(|| tracker_add(&node, &sb.block, false, 0)).0 {
            Deliver::Ok => {
                self.w.txn(|| self.persist_tracker());
                true
            }
            Deliver::Refused(e) => panic!("tracker refused a valid block at height {}: {}", self.sim.height(), e),
            Deliver::Panic(_) => {
                // belongs to the chain-monitor property; the history ends here
                self.st.class("chain:abort:connect");
                self.stopped = true;
                false
            }
        }
    }

    fn disconnect(&mut self) -> bool {
        let sb = self.sim.blocks.last().unwrap().clone();
        let node = self.w.node.clone();
        let prev = self.sim.prev_headers();
        match self.w.txn(|| tracker_remove(&node, &sb.block, prev, false, 0)).0 {
            Deliver::Ok => {
                self.w.txn(|| self.persist_tracker());
                self.sim.pop();
                true
            }
            Deliver::Refused(e) => {
                if e.contains("ReorgTooDeep") {
                    self.st.class("chain:reorg_refused:too_deep");
                    false
                } else {
                    panic!("tracker refused the removal of its tip at height {}: {}", self.sim.height(), e)
                }
            }
            Deliver::Panic(_) => {
                self.st.class("chain:abort:disconnect");
                self.stopped = true;
                false
            }
        }
    }

    fn content(&self, k: usize, vary: u8) -> Content {
        let m = &self.chans[k];
        let s = &m.spec;
        let cltv = self.sim.height() + 50;
        match vary % 3 {
            1 => {
                if s.outbound {
                    mk_content(s.anchors, true, s.value_sat, 1000, 0, vec![Htlc { h: 0, sat: 10_000, cltv }], vec![])
                } else {
                    mk_content(s.anchors, false, s.value_sat, 1000, 0, vec![], vec![Htlc { h: 2, sat: 10_000, cltv }])
                }
            }
            2 => mk_content(s.anchors, s.outbound, s.value_sat, 1100, 0, vec![], vec![]),
            _ => mk_content(s.anchors, s.outbound, s.value_sat, 1000, 0, vec![], vec![]),
        }
    }

    fn sign_cp(&self, k: usize, n: u64, c: &Content) -> Out<()> {
        let ci = self.chans[k].f.ci;
        let point = self.w.chans[ci].cp.point(&self.w.secp, n);
        let (cpo, cpr) = (to_info2(&c.received), to_info2(&c.offered));
        self.w.with_chan(ci, |ch| ch.sign_counterparty_commitment_tx_phase2(&point, n, c.feerate, c.to_holder, c.to_cp, cpo.clone(), cpr.clone()).map(|_| ()))
    }

    fn validate_holder(&self, k: usize, n: u64, c: &Content) -> Out<()> {
        let ci = self.chans[k].f.ci;
        let signed = self.w.chans[ci].cp_sign_holder(&self.w.secp, n, c, SigKind::Valid);
        let (o, r) = (to_info2(&c.offered), to_info2(&c.received));
        self.w.with_chan(ci, |ch| ch.validate_holder_commitment_tx_phase2(n, c.feerate, c.to_holder, c.to_cp, o.clone(), r.clone(), &signed.commit_sig, &signed.htlc_sigs))
    }

    fn request(&mut self, i: usize, c: u8, kind: &Req, vary: u8) -> Result<(), Violation> {
        let k = c as usize % self.chans.len();
        let f = facts(&self.sim, &self.chans[k], &self.w);
        let ci = self.chans[k].f.ci;
        // (name, commitment number, is an exact retry, result)
        let (name, n, retry, res, content): (&'static str, u64, bool, Out<()>, Option<Content>) = match kind {
            Req::SignCp => {
                // the counterparty first revokes its previous commitment
                if let Some(prev) = self.chans[k].cp_prev.take() {
                    let sk = self.w.chans[ci].cp.secret(prev.0);
                    let r = self.w.with_chan(ci, |ch| ch.validate_counterparty_revocation(prev.0, &sk));
                    if r.is_ok() {
                        self.chans[k].cp_revoked = Some(prev);
                    } else {
                        self.st.class(format!("chain:bookkeeping:counterparty-revocation:{}", r.tag()));
                        self.chans[k].cp_prev = Some(prev);
                    }
                }
                let n = self.chans[k].cp.0 + 1;
                let ct = self.content(k, vary);
                let r = self.sign_cp(k, n, &ct);
                ("sign-cp", n, false, r, Some(ct))
            }
            Req::ValidateHolder => {
                if self.chans[k].holder_unrevoked {
                    // the only request a node can make now is the same one again
                    let (n, ct) = self.chans[k].holder.clone();
                    let r = self.validate_holder(k, n, &ct);
                    ("retry-holder", n, true, r, Some(ct))
                } else {
                    let n = self.chans[k].holder.0 + 1;
                    let ct = self.content(k, vary);
                    let r = self.validate_holder(k, n, &ct);
                    ("validate-holder", n, false, r, Some(ct))
                }
            }
            Req::RetryCp => {
                let (n, ct) = self.chans[k].cp.clone();
                let r = self.sign_cp(k, n, &ct);
                ("retry-cp", n, true, r, Some(ct))
            }
            Req::RetryHolder => {
                let (n, ct) = self.chans[k].holder.clone();
                let r = self.validate_holder(k, n, &ct);
                ("retry-holder", n, true, r, Some(ct))
            }
            Req::MutualClose => {
                let m = &self.chans[k];
                let fee = 1_000u64;
                let (to_h, to_c) = if m.spec.outbound { (m.spec.value_sat.saturating_sub(m.cp.1.to_cp + fee), m.cp.1.to_cp) } else { (m.holder.1.to_holder, m.spec.value_sat.saturating_sub(m.holder.1.to_holder + fee)) };
                let path: DerivationPath = vec![ChildNumber::from_normal_idx(30).unwrap()].into();
                let hs = self.w.node.get_native_address(&path).expect("address").script_pubkey();
                let cs = lightning_signer::bitcoin::ScriptBuf::from_bytes({
                    let mut v = vec![0x00u8, 0x14];
                    v.extend_from_slice(&[0x33; 20]);
                    v
                });
                let r = self.w.with_chan(ci, |ch| ch.sign_mutual_close_tx_phase2(to_h, to_c, &Some(hs.clone()), &Some(cs.clone()), &path).map(|_| ()));
                ("mutual-close", 0, false, r, None)
            }
        };
        let tag = res.tag();
        let fb = depth_bucket(f.funding_depth);
        let state = format!("fd{}:{}", fb, f.close_kind);
        self.st.class(format!("chain:req:{}:{}", state, tag));
        self.st.class(format!("chain:req:{}:{}:{}", name, if n > 0 { "n>0" } else { "n0" }, tag));
        let is_commitment = !matches!(kind, Req::MutualClose);
        let model_allows = f.funding_depth >= MIN_FUNDING_DEPTH && f.closing_depth == 0;
        let judged = is_commitment && n > 0 && !retry;
        self.note(i, json!({"request": name, "chan": k, "n": n, "vary": vary % 3, "funding_depth": f.funding_depth, "closing_depth": f.closing_depth, "close": f.close_kind, "result": tag, "err": res.err_msg()}));
        if res.is_panic() {
            self.st.class("chain:abort:request");
            self.stopped = true;
            return Ok(());
        }
        if judged {
            self.st.class(format!("chain:judged:{}:{}", if model_allows { "model-allows" } else if f.closing_depth > 0 { "model-forbids-closed" } else { "model-forbids-unburied" }, tag));
        }
        // model validation: why was something refused that the model allows?
        if judged && model_allows && res.is_err() {
            let expected_other = matches!(kind, Req::ValidateHolder) && self.chans[k].mutual_signed;
            self.st.class(format!("chain:refused-though-model-allows:{}:{}{}", name, err_class(&res.err_msg()), if expected_other { "(mutual close signed)" } else { "" }));
        }
        if judged && !model_allows && res.is_err() {
            let e = res.err_msg();
            self.st.class(format!("chain:refused-as-model:{}", if e.contains("policy-commitment-spends-active-utxo") { "policy-commitment-spends-active-utxo".to_string() } else { format!("other:{}", err_class(&e)) }));
        }
        if !is_commitment && std::env::var("VERIF_ERRCLASS").is_ok() && res.is_err() {
            self.st.class(format!("E:chain:mutual-close:{}", err_class(&res.err_msg())));
        }
        // non-triviality: a request after at least one relevant block
        if f.funding_depth > 0 || f.closing_depth > 0 {
            self.st.class("chain:nontrivial-request");
            self.st.nontrivial_shape(("chain", name, fb, f.close_kind, tag, n > 0, self.reorgs > 0, self.restarts > 0, self.chans[k].spec.outbound));
        }
        if !res.is_ok() {
            return Ok(());
        }
        // --- accepted ---
        if judged && !model_allows {
            let which = if f.funding_depth < MIN_FUNDING_DEPTH { "unburied-funding" } else { "after-close-seen" };
            let v = Violation::new(
                format!("C05:chain:{}:accepted-{}", name, which),
                format!(
                    "request {} ({} for commitment number {} of channel {}) was accepted although on the best chain (height {}) the funding transaction has {} confirmation(s) (required {}) and the funding output is {} (reorgs so far {}, restarts {}); content {:?}",
                    i,
                    name,
                    n,
                    k,
                    self.sim.height(),
                    f.funding_depth,
                    MIN_FUNDING_DEPTH,
                    if f.closing_depth > 0 { format!("spent by a confirmed {} transaction with {} confirmation(s)", f.close_kind, f.closing_depth) } else { "unspent".to_string() },
                    self.reorgs,
                    self.restarts,
                    content
                ),
            );
            self.ctx.report(self.st, v)?;
        }
        // bookkeeping: what the peer protocol does next
        match kind {
            Req::SignCp => {
                let ct = content.unwrap();
                let prev = std::mem::replace(&mut self.chans[k].cp, (n, ct));
                self.chans[k].cp_prev = Some(prev);
            }
            Req::ValidateHolder if !retry => {
                let ct = content.unwrap();
                self.chans[k].holder = (n, ct);
                let r = self.w.with_chan(ci, |ch| ch.revoke_previous_holder_commitment(n).map(|_| ()));
                if !r.is_ok() {
                    self.st.class(format!("chain:bookkeeping:holder-revocation:{}", r.tag()));
                    self.chans[k].holder_unrevoked = true;
                }
            }
            Req::ValidateHolder => {
                // retry while the predecessor is not revoked: try the revocation again
                let r = self.w.with_chan(ci, |ch| ch.revoke_previous_holder_commitment(n).map(|_| ()));
                if r.is_ok() {
                    self.chans[k].holder_unrevoked = false;
                }
            }
            Req::MutualClose => self.chans[k].mutual_signed = true,
            Req::RetryCp | Req::RetryHolder => {}
        }
        Ok(())
    }

    fn step(&mut self, i: usize, op: &Op) -> Result<(), Violation> {
        match op {
            Op::Connect { txs } => {
                if self.connect(txs) {
                    let kinds: Vec<&'static str> = self.sim.blocks.last().unwrap().txs.iter().map(|t| t.kind).collect();
                    self.st.class(format!("chain:block:{}", block_categories(&self.sim.blocks.last().unwrap().txs)));
                    self.note(i, json!({"block": kinds}));
                }
            }
            Op::Disconnect { depth, remine } => {
                let d = (*depth as u32).min(self.sim.height());
                let mut done = 0;
                let mut lost: Vec<&'static str> = vec![];
                for _ in 0..d {
                    let kinds: Vec<&'static str> = self.sim.blocks.last().unwrap().txs.iter().filter_map(|t| category(t.kind)).collect();
                    if !self.disconnect() {
                        break;
                    }
                    lost.extend(kinds);
                    done += 1;
                }
                if done > 0 {
                    self.reorgs += 1;
                    lost.sort();
                    lost.dedup();
                    self.st.class(format!("chain:reorg:{}{}", if lost.is_empty() { "none".to_string() } else { lost.join("+") }, if *remine { ":remined" } else { "" }));
                    self.st.class("chain:reorgs");
                }
                if *remine && !self.stopped {
                    for _ in 0..done {
                        if !self.connect(&[]) {
                            break;
                        }
                    }
                }
                self.note(i, json!({"disconnected": done, "remined": remine, "lost": lost}));
            }
            Op::Request { c, kind, vary } => self.request(i, *c, kind, *vary)?,
            Op::Restart => {
                let r = self.w.restart();
                self.st.class(format!("chain:restart:{}", r.tag()));
                self.note(i, json!({"restart": r.tag(), "msg": r.err_msg()}));
                match r {
                    Out::Ok(()) => {
                        self.restarts += 1;
                        let h = self.w.node.get_tracker().height();
                        assert_eq!(h, self.sim.height(), "restored tracker height differs from the model's chain");
                    }
                    _ => {
                        // restore failures belong to the persistence properties
                        self.stopped = true;
                    }
                }
            }
        }
        Ok(())
    }
}

pub fn run(case: &Case, st: &mut CaseStats, ctx: &Ctx) -> Result<(), Violation> {
    let mut cfg = regtest_cfg();
    cfg.policy.use_chain_state = case.use_chain_state;
    let vf: Arc<dyn ValidatorFactory> = Arc::new(OnchainValidatorFactory::new_with_simple_factory(SimpleValidatorFactory::new_with_policy(cfg.policy.clone())));
    let mut w = World::new_with_factory(cfg, vf);
    let payee = PublicKey::from_secret_key(&w.secp, &SecretKey::from_slice(&[5u8; 32]).unwrap());
    for h in 0u8..2 {
        w.node.add_keysend(payee, phash(h), 2_000_000_000).expect("keysend");
    }
    let mut chans = vec![];
    for (j, g) in case.chans.iter().take(2).enumerate() {
        let mut spec = ChanSpec::basic(j as u64 + 1);
        spec.anchors = g.anchors;
        spec.outbound = g.outbound;
        let f = open_funded(&mut w, &spec, &g.fund);
        let c0 = f.content0.clone();
        chans.push(MCh { f, spec, holder: (0, c0.clone()), holder_unrevoked: false, cp: (0, c0), cp_prev: None, cp_revoked: None, mutual_signed: false });
    }
    if chans.is_empty() {
        return Ok(());
    }
    st.class("chain:histories");
    st.class(format!("chain:channels:{}", chans.len()));
    let mut run = Run {
        w,
        sim: ChainSim::new(Network::Regtest),
        chans,
        salt: 0,
        reorgs: 0,
        restarts: 0,
        blocks: 0,
        stopped: false,
        trace: vec![],
        st: &mut *st,
        ctx,
        debug: std::env::var("VERIF_C05_DEBUG").is_ok(),
    };
    let mut res = Ok(());
    for (i, op) in case.ops.iter().enumerate() {
        if run.stopped {
            break;
        }
        if let Err(v) = run.step(i, op) {
            res = Err(v);
            break;
        }
    }
    let (trace, reorgs, restarts, blocks) = (run.trace.clone(), run.reorgs, run.restarts, run.blocks);
    drop(run);
    st.class(format!("chain:reorgs_per_history:{}", reorgs.min(3)));
    st.class(format!("chain:restarts_per_history:{}", restarts.min(3)));
    st.class(format!("chain:blocks_per_history:{}", if blocks == 0 { "0" } else if blocks < 5 { "1-4" } else if blocks < 10 { "5-9" } else { "10+" }));
    st.sample = Some(json!({"group": "chain", "channels": case.chans, "use_chain_state": case.use_chain_state, "ops": case.ops.len(), "trace": trace}));
    res
}

pub fn rule_text() -> &'static str {
    "Chain group (about 30 % of the cases): a regtest node with the on-chain validator (required funding depth 1, the only value the factory \
     offers) and 1-2 channels opened with a real funding transaction (inbound / outbound, anchors or not), then <= 25 (quick) / <= 40 \
     (thorough) operations: connect a block (mined, TXOO proof, delivered through the node's ChainTracker and persisted like the AddBlock \
     handler) holding any of funding transaction / mutual close / holder commitment / counterparty commitment / revoked counterparty \
     commitment / noise / nothing; disconnect 1-8 blocks, optionally re-mining empty siblings; a request on a channel (sign the next \
     counterparty commitment, validate the next holder commitment with valid counterparty signatures, exact retry of the last accepted one \
     of either, mutual close signing; content plain / with one HTLC / other fee rate), followed when accepted by the peer's next step \
     (holder revocation at once, counterparty revocation just before the next signature request); restart from a copy of the store.  70 % scripted life cycles (requests before funding, \
     funding, burial 0-3, requests, close of one kind, requests, reorg of the close / of the funding with or without re-mining, requests, \
     re-confirmation, requests, restarts and extras inserted anywhere), 30 % free sequences.  Oracle from the harness's own best chain \
     only: a non-retry request for a commitment number > 0 that is accepted implies funding confirmations >= 1 and no confirmed spend of \
     the funding outpoint.  Non-trivial: a request issued while the funding or a close is on the best chain; distinct by (request kind, \
     funding depth bucket, close kind, result, number > 0, reorg before, restart before, direction)."
}

pub fn assumptions() -> Vec<String> {
    vec![
        "chain group: the required funding depth is 1: OnchainValidatorFactory builds its policy with min_funding_depth 1 and offers no way to set another value, so deeper requirements cannot be exercised".into(),
        "chain group: exact retries of an accepted request and commitment number 0 are exempt from the chain rule (as documented in the validator: only state advancement is gated); mutual close signing is not a commitment and is only counted".into(),
        "chain group: depth = tip height - height of the transaction + 1 on the harness's own best chain; the signer has seen every block of that chain when a request is made (blocks and requests are delivered one at a time)".into(),
        "chain group: an abort of the signer while connecting / disconnecting a block belongs to the chain-monitor property and ends the history".into(),
    ]
}

// ---------------------------------------------------------------------------------------------
// generators

fn chan_gen() -> impl Strategy<Value = ChanGen> {
    (prop::bool::weighted(0.3), prop::bool::weighted(0.7), any::<bool>(), any::<bool>()).prop_map(|(anchors, outbound, two_inputs, funding_first)| ChanGen { anchors, outbound, fund: FundSpec { two_inputs, funding_first } })
}

fn req_kind() -> impl Strategy<Value = Req> {
    prop_oneof![6 => Just(Req::SignCp), 6 => Just(Req::ValidateHolder), 2 => Just(Req::RetryCp), 2 => Just(Req::RetryHolder), 1 => Just(Req::MutualClose)]
}

fn vary() -> impl Strategy<Value = u8> {
    prop_oneof![5 => Just(0u8), 2 => Just(1u8), 2 => Just(2u8)]
}

fn request(nch: u8) -> impl Strategy<Value = Op> {
    (0..nch, req_kind(), vary()).prop_map(|(c, kind, vary)| Op::Request { c, kind, vary })
}

/// a request that advances the state (needed before a revoked commitment exists)
fn advancing(nch: u8) -> impl Strategy<Value = Op> {
    (0..nch, prop_oneof![Just(Req::SignCp), Just(Req::ValidateHolder)], vary()).prop_map(|(c, kind, vary)| Op::Request { c, kind, vary })
}

fn btx(nch: u8) -> impl Strategy<Value = BTx> {
    let c = 0..nch;
    prop_oneof![
        4 => c.clone().prop_map(|c| BTx::Funding { c }),
        2 => c.clone().prop_map(|c| BTx::Mutual { c }),
        2 => c.clone().prop_map(|c| BTx::HolderCommit { c }),
        2 => c.clone().prop_map(|c| BTx::CpCommit { c }),
        2 => c.clone().prop_map(|c| BTx::CpRevoked { c }),
        1 => (0u8..6).prop_map(|n| BTx::Noise { n }),
    ]
}

#[derive(Clone, Debug)]
enum CloseSel {
    None,
    Mutual,
    Holder,
    Cp,
    Revoked,
}

#[derive(Clone, Debug)]
enum ReorgSel {
    None,
    /// the blocks from the close on
    Close,
    /// the blocks from the funding on
    Funding,
    /// the tip only
    Tip,
}

fn scripted(max_ops: usize) -> impl Strategy<Value = Case> {
    (1u8..=2, any::<bool>()).prop_flat_map(move |(nch, ucs)| {
        let close = prop_oneof![2 => Just(CloseSel::None), 3 => Just(CloseSel::Mutual), 3 => Just(CloseSel::Holder), 3 => Just(CloseSel::Cp), 2 => Just(CloseSel::Revoked)];
        let reorg = prop_oneof![2 => Just(ReorgSel::None), 4 => Just(ReorgSel::Close), 4 => Just(ReorgSel::Funding), 1 => Just(ReorgSel::Tip)];
        let extra = prop_oneof![3 => Just(Op::Restart), 4 => request(nch), 1 => Just(Op::Connect { txs: vec![] }), 1 => (0u8..6).prop_map(|n| Op::Connect { txs: vec![BTx::Noise { n }] })];
        (
            (proptest::collection::vec(chan_gen(), nch as usize), proptest::collection::vec(request(nch), 0..2), any::<bool>(), 0u8..4),
            (proptest::collection::vec(advancing(nch), 1..4), close, 0u8..3, proptest::collection::vec(request(nch), 1..3)),
            (reorg, any::<bool>(), proptest::collection::vec(request(nch), 1..3), any::<bool>(), proptest::collection::vec(request(nch), 1..3)),
            (0..nch, proptest::collection::vec((any::<u16>(), extra), 0..3), prop::bool::weighted(0.3)),
        )
            .prop_map(move |((chans, pre, together, bury), (mid, close, after_close, post), (reorg, remine, after_reorg, reconfirm, last), (cc, extras, same_block))| {
                // close confirmed in the funding block: funding depth and closing depth both 1
                let same_block = same_block && !matches!(close, CloseSel::None | CloseSel::Revoked);
                let bury = if same_block { 0 } else { bury };
                let mut ops: Vec<Op> = pre;
                let mut funding: Vec<BTx> = vec![BTx::Funding { c: cc }];
                if together && nch > 1 {
                    funding.push(BTx::Funding { c: 1 - cc });
                }
                if !same_block {
                    ops.push(Op::Connect { txs: funding.clone() });
                }
                for _ in 0..bury {
                    ops.push(Op::Connect { txs: vec![] });
                }
                ops.extend(mid);
                let mut since_funding = 1 + bury;
                let close_tx = match close {
                    CloseSel::None => None,
                    CloseSel::Mutual => Some(BTx::Mutual { c: cc }),
                    CloseSel::Holder => Some(BTx::HolderCommit { c: cc }),
                    CloseSel::Cp => Some(BTx::CpCommit { c: cc }),
                    CloseSel::Revoked => {
                        // a revoked counterparty commitment exists after two more signatures
                        ops.push(Op::Request { c: cc, kind: Req::SignCp, vary: 0 });
                        ops.push(Op::Request { c: cc, kind: Req::SignCp, vary: 0 });
                        Some(BTx::CpRevoked { c: cc })
                    }
                };
                let mut since_close = 0u8;
                if let Some(t) = close_tx.clone() {
                    if same_block {
                        let mut b = funding.clone();
                        b.push(t);
                        ops.push(Op::Connect { txs: b });
                    } else {
                        ops.push(Op::Connect { txs: vec![t] });
                    }
                    since_close = 1;
                    for _ in 0..after_close {
                        ops.push(Op::Connect { txs: vec![] });
                        since_close += 1;
                    }
                    since_funding += since_close - if same_block { 1 } else { 0 };
                }
                ops.extend(post);
                let depth = match reorg {
                    ReorgSel::None => 0,
                    ReorgSel::Close => since_close,
                    ReorgSel::Funding => since_funding,
                    ReorgSel::Tip => 1,
                };
                if depth > 0 {
                    ops.push(Op::Disconnect { depth, remine });
                    ops.extend(after_reorg);
                    if reconfirm {
                        if depth >= since_funding {
                            ops.push(Op::Connect { txs: funding });
                            ops.push(Op::Request { c: cc, kind: Req::SignCp, vary: 0 });
                        }
                        if let Some(t) = close_tx {
                            ops.push(Op::Connect { txs: vec![t] });
                        }
                    }
                }
                ops.extend(last);
                for (pos, op) in extras {
                    let at = pick_idx(pos, ops.len() + 1);
                    ops.insert(at, op);
                }
                ops.truncate(max_ops);
                Case { chans, use_chain_state: ucs, ops }
            })
    })
}

fn free(max_ops: usize) -> impl Strategy<Value = Case> {
    (1u8..=2, any::<bool>()).prop_flat_map(move |(nch, ucs)| {
        let op = prop_oneof![
            8 => request(nch),
            4 => proptest::collection::vec(btx(nch), 1..3).prop_map(|txs| Op::Connect { txs }),
            2 => Just(Op::Connect { txs: vec![] }),
            2 => (1u8..4, any::<bool>()).prop_map(|(depth, remine)| Op::Disconnect { depth, remine }),
            1 => Just(Op::Restart),
        ];
        (proptest::collection::vec(chan_gen(), nch as usize), prop::bool::weighted(0.7), proptest::collection::vec(op, 6..max_ops)).prop_map(move |(chans, prefix, mut ops)| {
            if prefix {
                ops.insert(0, Op::Connect { txs: (0..nch).map(|c| BTx::Funding { c }).collect() });
                ops.truncate(max_ops);
            }
            Case { chans, use_chain_state: ucs, ops }
        })
    })
}

pub fn strategy(tier: Tier) -> BoxedStrategy<Case> {
    let max_ops = tier.pick(25usize, 40usize);
    prop_oneof![7 => scripted(max_ops), 3 => free(max_ops)].boxed()
}

/// deterministic histories run before the random shards: every close kind, then the reorg of the
/// close and of the funding
pub fn fixed_cases() -> Vec<Case> {
    let ch = |outbound: bool| ChanGen { anchors: false, outbound, fund: FundSpec { two_inputs: false, funding_first: true } };
    let rq = |kind: Req| Op::Request { c: 0, kind, vary: 0 };
    let mut v = vec![];
    for close in [BTx::Mutual { c: 0 }, BTx::HolderCommit { c: 0 }, BTx::CpCommit { c: 0 }, BTx::CpRevoked { c: 0 }] {
        for outbound in [true, false] {
            v.push(Case {
                chans: vec![ch(outbound)],
                use_chain_state: false,
                ops: vec![
                    rq(Req::SignCp),
                    rq(Req::ValidateHolder),
                    Op::Connect { txs: vec![BTx::Funding { c: 0 }] },
                    rq(Req::SignCp),
                    rq(Req::ValidateHolder),
                    rq(Req::SignCp),
                    Op::Connect { txs: vec![close.clone()] },
                    rq(Req::SignCp),
                    rq(Req::ValidateHolder),
                    rq(Req::RetryCp),
                    rq(Req::RetryHolder),
                    Op::Restart,
                    rq(Req::SignCp),
                    rq(Req::ValidateHolder),
                    Op::Disconnect { depth: 1, remine: true },
                    rq(Req::SignCp),
                    rq(Req::ValidateHolder),
                    Op::Disconnect { depth: 2, remine: true },
                    rq(Req::SignCp),
                    rq(Req::ValidateHolder),
                    Op::Restart,
                    rq(Req::SignCp),
                    rq(Req::ValidateHolder),
                ],
            });
        }
    }
    v
}
