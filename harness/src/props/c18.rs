//! C18 — channel keys are a stable function of (seed, network, channel id).
//!
//! One case = one (seed, style, network), one set of channel ids, and two *programs* that create
//! the same id set in (usually) different orders on two separate Worlds, interleaved with other
//! channels being created / forgotten, `setup_channel` at different points and restarts.
//!
//! Observations (through `ChannelBase` only): the five public keys of `get_channel_basepoints`,
//! `get_per_commitment_point(n)`, `get_per_commitment_secret(n)`.  Far-away commitment numbers are
//! reached with the test-only `set_next_holder_commit_num_for_testing` (restored afterwards and
//! never persisted) - the API's own range checks stay in force.
//!
//! Oracles (all metamorphic, no reference derivation of the keys themselves):
//!  1. every observation of the same (channel id, kind, n) is equal: within one world from step to
//!     step (the difference is attributed to restart / setup / other-channels), across the two
//!     worlds (creation-order), and against a world holding only that channel (other-channels);
//!  2. different channel ids in one world have pairwise different keys; a different seed gives
//!     different keys;
//!  3. the secrets of one channel form a BOLT-3 tree (own implementation of the derivation), and
//!     the secrets 0,1,2,... are accepted by LDK's and VLS's compact store and returned by it;
//!  4. point(n) is the public key of secret(n).

use crate::engine::*;
use crate::world::*;
use lightning_signer::bitcoin::bip32::DerivationPath;
use lightning_signer::bitcoin::hashes::sha256::Hash as Sha256;
use lightning_signer::bitcoin::hashes::Hash;
use lightning_signer::bitcoin::secp256k1::{PublicKey, SecretKey};
use lightning_signer::bitcoin::Network;
use lightning_signer::channel::{ChannelBase, ChannelId};
use lightning_signer::lightning::ln::chan_utils::CounterpartyCommitmentSecrets as LdkStore;
use lightning_signer::policy::simple_validator::make_default_simple_policy;
use lightning_signer::policy::validator::CounterpartyCommitmentSecrets as VlsStore;
use lightning_signer::signer::derive::KeyDerivationStyle;
use proptest::prelude::*;
use serde::{Deserialize, Serialize};
use serde_json::json;
use std::collections::{BTreeMap, BTreeSet};

const MAXN: u64 = (1 << 48) - 1;
/// offsets added to the small dbid so that ids differing only in high bytes are generated
const HI: [u64; 5] = [0, 1 << 8, 1 << 16, 1 << 32, 1 << 56];
const VALS: [u64; 4] = [3_000_000, 100_000, 16_777_216, 999_999_999];
const NETS: [Network; 4] = [Network::Testnet, Network::Regtest, Network::Bitcoin, Network::Signet];

#[derive(Clone, Debug, Serialize, Deserialize, PartialEq, Eq, Hash)]
pub enum SeedSel {
    Fill(u8),
    Counting,
    /// primary seed: all zero with this bit set; second seed: the primary seed with this bit flipped
    FlipBit(u8),
    Bytes([u8; 32]),
}

impl SeedSel {
    fn resolve(&self, base: Option<&[u8; 32]>) -> [u8; 32] {
        match self {
            SeedSel::Fill(b) => [*b; 32],
            SeedSel::Counting => {
                let mut s = [0u8; 32];
                for (i, b) in s.iter_mut().enumerate() {
                    *b = i as u8;
                }
                s
            }
            SeedSel::FlipBit(bit) => {
                let mut s = base.cloned().unwrap_or([0u8; 32]);
                s[(*bit / 8) as usize] ^= 1 << (*bit % 8);
                s
            }
            SeedSel::Bytes(b) => *b,
        }
    }
}

#[derive(Clone, Debug, Serialize, Deserialize, PartialEq, Eq, Hash)]
pub struct IdSpec {
    /// small part of the dbid, 3..=22 (1 and 2 are reserved for the "other" channels, so that
    /// forgetting those never raises the dbid high-water mark above a main id)
    pub base: u8,
    pub peer: u8,
    /// index into HI
    pub hi: u8,
    /// Some: take (base, peer) from an earlier id, so that the two differ only in the high bytes
    pub sib: Option<u16>,
    pub val: u8,
    pub anchors: bool,
    pub outbound: bool,
    /// setup with a permanent channel id (as CLN does) instead of None
    pub perm: bool,
}

#[derive(Clone, Debug, Serialize, Deserialize, PartialEq, Eq, Hash)]
pub enum Op {
    /// new_channel for one of the not yet created ids of the set
    New(u16),
    /// setup_channel for one of the existing stubs (set ids, others, random-id channels)
    Setup(u16),
    /// new_channel for an id outside the set
    Other { dbid: u8, peer: u8 },
    /// new_channel_with_random_id
    Random,
    /// forget_channel on one of the "other" dbid channels
    Forget(u16),
    /// forget_channel on one of the random-id channels
    ForgetRand(u16),
    Restart,
    /// observe far-away points and secrets of every ready channel
    Heavy,
}

#[derive(Clone, Debug, Serialize, Deserialize, PartialEq, Eq, Hash)]
pub enum Num {
    Small(u8),
    /// 2^k + d
    Pow { k: u8, d: i8 },
    Max,
    /// parent (hi << t) | (2^t - 1) and children (hi << t) | lo: the children's secrets are
    /// derivable from the parent's
    Group { hi: u32, t: u8, los: Vec<u32> },
}

fn resolve_nums(nums: &[Num]) -> BTreeSet<u64> {
    let mut out = BTreeSet::new();
    for n in [0u64, 1, 2] {
        out.insert(n);
    }
    for n in nums {
        match n {
            Num::Small(s) => {
                out.insert(*s as u64);
            }
            Num::Pow { k, d } => {
                let k = (*k).clamp(1, 47) as u32;
                let v = (1i128 << k) + *d as i128;
                out.insert(v.clamp(0, MAXN as i128) as u64);
            }
            Num::Max => {
                out.insert(MAXN);
            }
            Num::Group { hi, t, los } => {
                let t = (*t).clamp(1, 40) as u32;
                let hibits = (48 - t).min(32);
                let hi = (*hi as u64) & ((1u64 << hibits) - 1);
                let mask = (1u64 << t) - 1;
                out.insert((hi << t) | mask);
                for lo in los {
                    // spread the 32 selector bits over the t low bits
                    let lo = if t > 32 { ((*lo as u64) << (t - 32)) | (*lo as u64) } else { *lo as u64 };
                    out.insert((hi << t) | (lo & mask));
                }
            }
        }
    }
    out
}

#[derive(Clone, Debug, Serialize, Deserialize)]
pub struct Case {
    pub seed: SeedSel,
    pub seed2: SeedSel,
    pub ldk: bool,
    pub net: u8,
    pub ids: Vec<IdSpec>,
    pub a: Vec<Op>,
    pub b: Vec<Op>,
    /// restart once more after everything is created and set up (world a, world b)
    pub tail_restart: (bool, bool),
    pub nums: Vec<Num>,
    /// secrets 0..=chain are fed to the compact stores
    pub chain: u8,
    /// which id of the set is also created alone / under another seed / on another network
    pub solo: u16,
}

#[derive(Clone, Debug, PartialEq, Eq, PartialOrd, Ord, Hash)]
enum IdKey {
    /// what the caller passed to new_channel: (dbid, peer)
    Db(u64, u8),
    /// what new_channel_with_random_id returned
    Rand(Vec<u8>),
}

#[derive(Clone, Copy, Debug, PartialEq, Eq, PartialOrd, Ord, Hash)]
enum Kind {
    Funding,
    Revocation,
    Payment,
    Delayed,
    Htlc,
    Point,
    Secret,
}

impl Kind {
    fn name(&self) -> &'static str {
        match self {
            Kind::Funding => "funding",
            Kind::Revocation | Kind::Payment | Kind::Delayed | Kind::Htlc => "basepoints",
            Kind::Point => "point",
            Kind::Secret => "secret",
        }
    }
}

type ObsKey = (IdKey, Kind, u64);

#[derive(Clone, Debug)]
struct Prov {
    world: &'static str,
    step: usize,
    restarts: u32,
    ready: bool,
    live: usize,
}

#[derive(Clone, Debug)]
struct MainId {
    dbid: u64,
    peer: u8,
    spec: IdSpec,
}

fn resolve_ids(ids: &[IdSpec]) -> Vec<MainId> {
    let mut out: Vec<MainId> = vec![];
    for s in ids {
        let (base, peer) = match s.sib {
            Some(sel) if !out.is_empty() => {
                let o = &out[pick_idx(sel, out.len())];
                (o.spec.base, o.peer)
            }
            _ => (s.base.clamp(3, 22), s.peer.min(3)),
        };
        let dbid = base as u64 + HI[(s.hi as usize).min(HI.len() - 1)];
        if out.iter().any(|o| o.dbid == dbid && o.peer == peer) {
            continue;
        }
        let mut spec = s.clone();
        spec.base = base;
        out.push(MainId { dbid, peer, spec });
    }
    out
}

fn chan_spec(dbid: u64, peer: u8, val: u8, anchors: bool, outbound: bool) -> ChanSpec {
    ChanSpec {
        dbid,
        peer,
        anchors,
        outbound,
        value_sat: VALS[(val as usize).min(VALS.len() - 1)],
        push_msat: 0,
        // inside every network's default policy (mainnet wants >= 144)
        holder_delay: 144,
        cp_delay: 145,
        funding_vout: 0,
    }
}

struct Ch {
    key: IdKey,
    id0: ChannelId,
    ready: bool,
    /// forget_channel was accepted for it (a stub is then gone, a ready channel stays)
    forgotten: bool,
    spec: ChanSpec,
    perm: bool,
    main: Option<usize>,
    random: bool,
}

impl Ch {
    fn gone(&self) -> bool {
        self.forgotten && !self.ready
    }
}

/// BOLT-3 `derive_secret`: own implementation (flip bit b, SHA256, from bit `bits-1` down to 0).
fn bolt3_derive(from: &[u8; 32], bits: u32, idx: u64) -> [u8; 32] {
    let mut p = *from;
    for b in (0..bits).rev() {
        if (idx >> b) & 1 == 1 {
            p[(b / 8) as usize] ^= 1 << (b % 8);
            p = Sha256::hash(&p).to_byte_array();
        }
    }
    p
}

struct Run {
    w: World,
    tag: &'static str,
    chs: Vec<Ch>,
    table: BTreeMap<ObsKey, (Vec<u8>, Prov)>,
    /// creation order of the set ids (indices into the resolved id list)
    order: Vec<usize>,
    /// number of set ids created at each restart
    restart_pos: Vec<u8>,
    step: usize,
    n_random: u64,
    aborted: bool,
    trace: Vec<String>,
}

impl Run {
    fn new(cfg: WorldCfg, tag: &'static str) -> Run {
        Run {
            w: World::new(cfg),
            tag,
            chs: vec![],
            table: BTreeMap::new(),
            order: vec![],
            restart_pos: vec![],
            step: 0,
            n_random: 0,
            aborted: false,
            trace: vec![],
        }
    }

    fn live(&self) -> usize {
        self.chs.iter().filter(|c| !c.gone()).count()
    }

    fn note(&mut self, s: String) {
        if self.trace.len() < 60 {
            self.trace.push(s);
        }
    }

    fn record(&mut self, st: &mut CaseStats, ctx: &Ctx, ci: usize, kind: Kind, n: u64, val: Vec<u8>) -> Result<(), Violation> {
        let ch = &self.chs[ci];
        let prov = Prov { world: self.tag, step: self.step, restarts: self.w.restarts, ready: ch.ready, live: self.live() };
        let key = (ch.key.clone(), kind, n);
        if let Some((old, p)) = self.table.get(&key) {
            if *old != val {
                let cause = if p.restarts != prov.restarts {
                    "restart"
                } else if p.ready != prov.ready {
                    "setup"
                } else {
                    "other-channels"
                };
                let msg = format!(
                    "world {}: {:?} {:?} n={} was {} at step {} (restarts {}, ready {}, {} channels) and is {} at step {} (restarts {}, ready {}, {} channels); trace {:?}",
                    self.tag, ch.key, kind, n, hex::encode(old), p.step, p.restarts, p.ready, p.live,
                    hex::encode(&val), prov.step, prov.restarts, prov.ready, prov.live, self.trace
                );
                ctx.report(st, Violation::new(format!("C18:key-depends-on:{}:{}", cause, kind.name()), msg))?;
            }
        }
        self.table.insert(key, (val, prov));
        Ok(())
    }

    /// basepoints and the points the API hands out without moving the counter
    fn light(&mut self, st: &mut CaseStats, ctx: &Ctx, ci: usize) -> Result<(), Violation> {
        if self.chs[ci].gone() {
            return Ok(());
        }
        let node = self.w.node.clone();
        let id0 = self.chs[ci].id0.clone();
        match call(|| node.with_channel_base(&id0, |b| Ok(b.get_channel_basepoints()))) {
            Out::Ok(pk) => {
                self.record(st, ctx, ci, Kind::Funding, 0, pk.funding_pubkey.serialize().to_vec())?;
                self.record(st, ctx, ci, Kind::Revocation, 0, pk.revocation_basepoint.0.serialize().to_vec())?;
                self.record(st, ctx, ci, Kind::Payment, 0, pk.payment_point.serialize().to_vec())?;
                self.record(st, ctx, ci, Kind::Delayed, 0, pk.delayed_payment_basepoint.0.serialize().to_vec())?;
                self.record(st, ctx, ci, Kind::Htlc, 0, pk.htlc_basepoint.0.serialize().to_vec())?;
            }
            Out::Err(_) => st.class("basepoints_refused"),
            Out::Panic(_) => st.class("abort_in_basepoints"),
        }
        for n in 0u64..=2 {
            match call(|| node.with_channel_base(&id0, |b| b.get_per_commitment_point(n))) {
                Out::Ok(p) => {
                    st.class(if self.chs[ci].ready { "point_on_ready_channel" } else { "point_on_stub" });
                    self.record(st, ctx, ci, Kind::Point, n, p.serialize().to_vec())?;
                }
                Out::Err(_) => st.class("point_refused_by_range_check"),
                Out::Panic(_) => st.class("abort_in_point"),
            }
        }
        // a ready channel that was given a permanent id is the same channel under that id: the
        // keys it shows there are the keys of its initial id, before and after a restart
        if self.chs[ci].ready && self.chs[ci].perm {
            let mut v = b"c18/permanent/".to_vec();
            v.extend_from_slice(id0.as_slice());
            let perm_id = ChannelId::new(&Sha256::hash(&v).to_byte_array());
            match call(|| node.with_channel_base(&perm_id, |b| Ok((b.get_channel_basepoints(), b.get_per_commitment_point(0))))) {
                Out::Ok((pk, p0)) => {
                    st.class("observed_through_permanent_id");
                    self.record(st, ctx, ci, Kind::Funding, 0, pk.funding_pubkey.serialize().to_vec())?;
                    self.record(st, ctx, ci, Kind::Revocation, 0, pk.revocation_basepoint.0.serialize().to_vec())?;
                    self.record(st, ctx, ci, Kind::Payment, 0, pk.payment_point.serialize().to_vec())?;
                    if let Ok(p0) = p0 {
                        self.record(st, ctx, ci, Kind::Point, 0, p0.serialize().to_vec())?;
                    }
                }
                Out::Err(_) => st.class("permanent_id_lookup_refused"),
                Out::Panic(_) => st.class("abort_in_permanent_id_lookup"),
            }
        }
        Ok(())
    }

    /// points and secrets for the given numbers on a ready channel, with the holder counter
    /// moved (test-only setter) and put back afterwards
    fn heavy(&mut self, st: &mut CaseStats, ctx: &Ctx, ci: usize, nums: &BTreeSet<u64>) -> Result<(), Violation> {
        if !self.chs[ci].ready || nums.is_empty() {
            return Ok(());
        }
        let node = self.w.node.clone();
        let id0 = self.chs[ci].id0.clone();
        let target = nums.iter().next_back().unwrap() + 2;
        let prev = match call(|| {
            node.with_channel(&id0, |c| {
                let p = c.enforcement_state.next_holder_commit_num;
                c.set_next_holder_commit_num_for_testing(target);
                Ok(p)
            })
        }) {
            Out::Ok(p) => p,
            _ => {
                st.class("heavy_unavailable");
                return Ok(());
            }
        };
        let mut res = Ok(());
        for &n in nums.iter() {
            match call(|| node.with_channel_base(&id0, |b| b.get_per_commitment_point(n))) {
                Out::Ok(p) => {
                    res = self.record(st, ctx, ci, Kind::Point, n, p.serialize().to_vec());
                }
                Out::Err(_) => st.class("far_point_refused"),
                Out::Panic(_) => st.class("abort_in_point"),
            }
            if res.is_err() {
                break;
            }
            match call(|| node.with_channel_base(&id0, |b| b.get_per_commitment_secret(n))) {
                Out::Ok(s) => {
                    res = self.record(st, ctx, ci, Kind::Secret, n, s.secret_bytes().to_vec());
                }
                Out::Err(_) => st.class("secret_refused"),
                Out::Panic(_) => st.class("abort_in_secret"),
            }
            if res.is_err() {
                break;
            }
            // a re-sent revocation for an older commitment (n != the next number: the stateless
            // path) answers (point(n+1), secret(n-1)): the same keys through another request
            if n >= 1 && n + 1 < target {
                match call(|| node.with_channel(&id0, |c| c.revoke_previous_holder_commitment(n))) {
                    Out::Ok((p, s)) => {
                        st.class("rerevoke_observed");
                        res = self.record(st, ctx, ci, Kind::Point, n + 1, p.serialize().to_vec());
                        if res.is_ok() {
                            if let Some(s) = s {
                                res = self.record(st, ctx, ci, Kind::Secret, n - 1, s.secret_bytes().to_vec());
                            }
                        }
                        if res.is_ok() {
                            if let Out::Ok(p1) = call(|| node.with_channel_base(&id0, |b| b.get_per_commitment_point(n - 1))) {
                                res = self.record(st, ctx, ci, Kind::Point, n - 1, p1.serialize().to_vec());
                            }
                        }
                    }
                    Out::Err(_) => st.class("rerevoke_refused"),
                    Out::Panic(_) => st.class("abort_in_rerevoke"),
                }
                if res.is_err() {
                    break;
                }
            }
        }
        // requests ahead of the channel state (the counter is at `target`): an enforcing signer
        // refuses them, one running under a permissive filter answers; an answer is still a
        // statement about the channel's keys
        if res.is_ok() {
            for n in [target - 1, target] {
                match call(|| node.with_channel_base(&id0, |b| b.get_per_commitment_secret(n))) {
                    Out::Ok(s) => {
                        st.class("secret_ahead_of_state_answered");
                        res = self.record(st, ctx, ci, Kind::Secret, n, s.secret_bytes().to_vec());
                        if res.is_ok() {
                            if let Out::Ok(p) = call(|| node.with_channel_base(&id0, |b| b.get_per_commitment_point(n))) {
                                res = self.record(st, ctx, ci, Kind::Point, n, p.serialize().to_vec());
                            }
                        }
                    }
                    Out::Err(_) => st.class("secret_ahead_of_state_refused"),
                    Out::Panic(_) => st.class("abort_in_secret"),
                }
                if res.is_err() {
                    break;
                }
            }
        }
        let _ = call(|| {
            node.with_channel(&id0, |c| {
                c.set_next_holder_commit_num_for_testing(prev);
                Ok(())
            })
        });
        res
    }

    fn light_all(&mut self, st: &mut CaseStats, ctx: &Ctx) -> Result<(), Violation> {
        for ci in 0..self.chs.len() {
            self.light(st, ctx, ci)?;
        }
        Ok(())
    }

    fn heavy_all(&mut self, st: &mut CaseStats, ctx: &Ctx, nums: &BTreeSet<u64>) -> Result<(), Violation> {
        for ci in 0..self.chs.len() {
            self.heavy(st, ctx, ci, nums)?;
        }
        Ok(())
    }

    fn new_db(&mut self, st: &mut CaseStats, dbid: u64, peer: u8, main: Option<usize>, spec: ChanSpec, perm: bool) -> Option<usize> {
        let node = self.w.node.clone();
        let pid = peer_id(peer);
        match call(|| node.new_channel(dbid, &pid, &node).map(|(id, _)| id)) {
            Out::Ok(id0) => {
                let key = IdKey::Db(dbid, peer);
                if let Some(i) = self.chs.iter().position(|c| c.key == key) {
                    if self.chs[i].gone() {
                        self.chs[i].forgotten = false;
                    }
                    self.chs[i].id0 = id0;
                    return Some(i);
                }
                self.chs.push(Ch { key, id0, ready: false, forgotten: false, spec, perm, main, random: false });
                Some(self.chs.len() - 1)
            }
            Out::Err(e) => {
                st.class("new_channel_refused");
                self.note(format!("new({},{}) refused: {}", dbid, peer, e.message()));
                None
            }
            Out::Panic(p) => {
                st.class("abort_in_new_channel");
                self.note(format!("new({},{}) panicked: {}", dbid, peer, p));
                None
            }
        }
    }

    fn new_random(&mut self, st: &mut CaseStats) -> Option<usize> {
        let node = self.w.node.clone();
        match call(|| node.new_channel_with_random_id(&node).map(|(id, _)| id)) {
            Out::Ok(id0) => {
                let key = IdKey::Rand(id0.as_slice().to_vec());
                if let Some(i) = self.chs.iter().position(|c| c.key == key) {
                    // the internal counter handed out an id that already exists (possible after a
                    // restart that followed a forget): same id, same channel
                    st.class("random_id_repeated");
                    if self.chs[i].gone() {
                        self.chs[i].forgotten = false;
                    }
                    return Some(i);
                }
                let j = self.n_random;
                self.n_random += 1;
                let spec = chan_spec((1u64 << 40) + j, 9, (j % 4) as u8, j % 2 == 1, j % 3 != 1);
                self.chs.push(Ch { key, id0, ready: false, forgotten: false, spec, perm: false, main: None, random: true });
                Some(self.chs.len() - 1)
            }
            Out::Err(_) => {
                st.class("new_random_refused");
                None
            }
            Out::Panic(_) => {
                st.class("abort_in_new_random");
                None
            }
        }
    }

    fn setup(&mut self, st: &mut CaseStats, ci: usize) {
        if self.chs[ci].ready || self.chs[ci].gone() {
            return;
        }
        let node = self.w.node.clone();
        let id0 = self.chs[ci].id0.clone();
        let (setup, _cp) = self.w.make_setup(&self.chs[ci].spec);
        let perm = if self.chs[ci].perm {
            let mut v = b"c18/permanent/".to_vec();
            v.extend_from_slice(id0.as_slice());
            Some(ChannelId::new(&Sha256::hash(&v).to_byte_array()))
        } else {
            None
        };
        match call(|| node.setup_channel(id0.clone(), perm.clone(), setup.clone(), &DerivationPath::master()).map(|_| ())) {
            Out::Ok(()) => {
                // under an id collision another entry may be the same channel
                for c in self.chs.iter_mut() {
                    if c.id0 == id0 {
                        c.ready = true;
                    }
                }
                st.class(if perm.is_some() { "setup_with_permanent_id" } else { "setup_without_permanent_id" });
                self.note(format!("setup {:?}{}", self.chs[ci].key, if perm.is_some() { " with a permanent id" } else { "" }));
            }
            Out::Err(e) => {
                st.class("setup_refused");
                self.note(format!("setup {:?} refused: {}", self.chs[ci].key, e.message()));
            }
            Out::Panic(p) => {
                st.class("abort_in_setup");
                self.note(format!("setup {:?} panicked: {}", self.chs[ci].key, p));
            }
        }
    }

    fn forget(&mut self, st: &mut CaseStats, ci: usize) {
        let node = self.w.node.clone();
        let id0 = self.chs[ci].id0.clone();
        match call(|| node.forget_channel(&id0)) {
            Out::Ok(()) => {
                self.chs[ci].forgotten = true;
                st.class(if self.chs[ci].ready { "other_ready_channel_forgotten" } else { "other_stub_forgotten" });
            }
            Out::Err(_) => st.class("forget_refused"),
            Out::Panic(_) => st.class("abort_in_forget"),
        }
    }

    fn restart(&mut self, st: &mut CaseStats, ctx: &Ctx, nums: &BTreeSet<u64>) -> Result<(), Violation> {
        // far numbers are looked at right before and right after, so that a change is
        // attributable to the restart
        self.heavy_all(st, ctx, nums)?;
        match self.w.restart() {
            Out::Ok(()) => {
                self.restart_pos.push(self.order.len() as u8);
                let ready = self.chs.iter().filter(|c| c.ready).count();
                let stubs = self.chs.iter().filter(|c| !c.ready && !c.gone()).count();
                if ready > 0 {
                    st.class("restart_with_ready_channels");
                }
                if stubs > 0 {
                    st.class("restart_with_stubs");
                }
                if ready + stubs == 0 {
                    st.class("restart_with_no_channels");
                }
                self.note(format!("restart #{}", self.w.restarts));
                self.light_all(st, ctx)?;
                self.heavy_all(st, ctx, nums)?;
            }
            Out::Err(e) => {
                st.class("restart_failed");
                self.note(format!("restart failed: {}", e.message()));
                self.aborted = true;
            }
            Out::Panic(p) => {
                st.class("restart_panicked");
                self.note(format!("restart panicked: {}", p));
                self.aborted = true;
            }
        }
        Ok(())
    }

    fn create_main(&mut self, st: &mut CaseStats, ids: &[MainId], mi: usize) -> Option<usize> {
        let m = &ids[mi];
        let spec = chan_spec(m.dbid, m.peer, m.spec.val, m.spec.anchors, m.spec.outbound);
        let r = self.new_db(st, m.dbid, m.peer, Some(mi), spec, m.spec.perm);
        if r.is_some() {
            self.order.push(mi);
            self.note(format!("new main #{} ({},{})", mi, m.dbid, m.peer));
        } else {
            st.class("set_id_refused_or_aborted");
        }
        r
    }

    fn run_program(
        &mut self,
        st: &mut CaseStats,
        ctx: &Ctx,
        ids: &[MainId],
        prog: &[Op],
        tail_restart: bool,
        nums: &BTreeSet<u64>,
        chain: &BTreeSet<u64>,
    ) -> Result<(), Violation> {
        let mut tried: BTreeSet<usize> = BTreeSet::new();
        for op in prog {
            if self.aborted {
                break;
            }
            self.step += 1;
            match op {
                Op::New(sel) => {
                    let rest: Vec<usize> = (0..ids.len()).filter(|i| !tried.contains(i)).collect();
                    if rest.is_empty() {
                        continue;
                    }
                    let mi = rest[pick_idx(*sel, rest.len())];
                    tried.insert(mi);
                    let others_before = self.chs.iter().filter(|c| c.main.is_none() && !c.gone()).count();
                    if self.create_main(st, ids, mi).is_some() && others_before > 0 {
                        st.class("set_id_created_while_other_channels_exist");
                    }
                }
                Op::Setup(sel) => {
                    let stubs: Vec<usize> = (0..self.chs.len()).filter(|&i| !self.chs[i].ready && !self.chs[i].gone()).collect();
                    if stubs.is_empty() {
                        continue;
                    }
                    let ci = stubs[pick_idx(*sel, stubs.len())];
                    if self.chs[ci].main.is_some() && tried.len() < ids.len() {
                        st.class("set_id_setup_before_all_created");
                    }
                    self.setup(st, ci);
                }
                Op::Other { dbid, peer } => {
                    let dbid = (*dbid).clamp(1, 2) as u64;
                    let peer = (*peer).min(5);
                    let spec = chan_spec(dbid, peer, peer % 4, peer % 2 == 0, true);
                    if self.new_db(st, dbid, peer, None, spec, false).is_some() {
                        self.note(format!("new other ({},{})", dbid, peer));
                    }
                }
                Op::Random => {
                    if let Some(ci) = self.new_random(st) {
                        self.note(format!("new random {:?}", self.chs[ci].key));
                    }
                }
                Op::Forget(sel) | Op::ForgetRand(sel) => {
                    let want_random = matches!(op, Op::ForgetRand(_));
                    let c: Vec<usize> = (0..self.chs.len())
                        .filter(|&i| self.chs[i].main.is_none() && self.chs[i].random == want_random && !self.chs[i].forgotten)
                        .collect();
                    if c.is_empty() {
                        continue;
                    }
                    let ci = c[pick_idx(*sel, c.len())];
                    self.forget(st, ci);
                    self.note(format!("forget {:?}", self.chs[ci].key));
                }
                Op::Restart => {
                    self.restart(st, ctx, nums)?;
                    continue;
                }
                Op::Heavy => {
                    self.heavy_all(st, ctx, nums)?;
                }
            }
            self.light_all(st, ctx)?;
        }
        // the rest of the set, in ascending order
        self.step += 1;
        for mi in 0..ids.len() {
            if !tried.contains(&mi) {
                tried.insert(mi);
                self.create_main(st, ids, mi);
                self.light_all(st, ctx)?;
            }
        }
        self.heavy_all(st, ctx, nums)?;
        // everything of the set (and random-id channels) becomes ready
        self.step += 1;
        for ci in 0..self.chs.len() {
            if (self.chs[ci].main.is_some() || self.chs[ci].random) && !self.chs[ci].ready && !self.chs[ci].gone() {
                self.setup(st, ci);
                self.light_all(st, ctx)?;
            }
        }
        let mut all = nums.clone();
        all.extend(chain.iter().cloned());
        self.heavy_all(st, ctx, &all)?;
        if tail_restart && !self.aborted {
            self.step += 1;
            self.restart(st, ctx, nums)?;
        }
        Ok(())
    }

    /// oracles 2, 3, 4 on what this world showed
    fn check_world(&self, st: &mut CaseStats, ctx: &Ctx, chain_max: u64) -> Result<u64, Violation> {
        // 2. pairwise different keys for different ids
        let mut by_val: BTreeMap<(Kind, Vec<u8>), IdKey> = BTreeMap::new();
        for ((id, kind, n), (val, _)) in self.table.iter() {
            if *n != 0 {
                continue;
            }
            if let Some(other) = by_val.get(&(*kind, val.clone())) {
                if other != id {
                    ctx.report(st, Violation::new(
                        "C18:distinct-ids-share-keys",
                        format!("world {}: channel ids {:?} and {:?} have the same {:?} {} (trace {:?})", self.tag, other, id, kind, hex::encode(val), self.trace),
                    ))?;
                }
            } else {
                by_val.insert((*kind, val.clone()), id.clone());
            }
        }
        // per channel: secrets and points by number
        let mut secrets: BTreeMap<IdKey, BTreeMap<u64, [u8; 32]>> = BTreeMap::new();
        let mut points: BTreeMap<IdKey, BTreeMap<u64, Vec<u8>>> = BTreeMap::new();
        for ((id, kind, n), (val, _)) in self.table.iter() {
            match kind {
                Kind::Secret => {
                    let mut a = [0u8; 32];
                    a.copy_from_slice(val);
                    secrets.entry(id.clone()).or_default().insert(*n, a);
                }
                Kind::Point => {
                    points.entry(id.clone()).or_default().insert(*n, val.clone());
                }
                _ => {}
            }
        }
        let mut nontrivial_pairs = 0u64;
        for (id, sec) in secrets.iter() {
            // 4. point(n) = G * secret(n)
            for (n, s) in sec.iter() {
                if let Some(p) = points.get(id).and_then(|m| m.get(n)) {
                    let ok = SecretKey::from_slice(s).map(|sk| PublicKey::from_secret_key(&self.w.secp, &sk).serialize().to_vec() == *p).unwrap_or(false);
                    st.class("point_secret_pairs_checked");
                    if !ok {
                        ctx.report(st, Violation::new(
                            "C18:point-secret-mismatch",
                            format!("world {}: {:?} n={}: point {} is not the public key of secret {}", self.tag, id, n, hex::encode(p), hex::encode(s)),
                        ))?;
                    }
                }
            }
            // 3a. BOLT-3 tree: every secret derives every secret in its subtree
            let v: Vec<(u64, [u8; 32])> = sec.iter().map(|(n, s)| (*n, *s)).collect();
            for (ni, si) in v.iter() {
                let i = MAXN - ni;
                let t = if i == 0 { 48 } else { i.trailing_zeros().min(48) };
                if t == 0 {
                    continue;
                }
                for (nj, sj) in v.iter() {
                    let j = MAXN - nj;
                    if j == i || (t < 48 && (j >> t) != (i >> t)) {
                        continue;
                    }
                    nontrivial_pairs += 1;
                    if bolt3_derive(si, t, j) != *sj {
                        ctx.report(st, Violation::new(
                            "C18:secrets-not-a-bolt3-tree",
                            format!(
                                "world {}: {:?}: secret for n={} (index {:#x}, {} trailing zero bits) does not derive the secret for n={} (index {:#x})",
                                self.tag, id, ni, i, t, nj, j
                            ),
                        ))?;
                    }
                }
            }
            // 3b. the compact stores accept 0,1,2,... and give them back
            if (0..=chain_max).all(|n| sec.contains_key(&n)) {
                let mut ldk = LdkStore::new();
                let mut vls = VlsStore::new();
                let mut accepted = true;
                for n in 0..=chain_max {
                    let r1 = ldk.provide_secret(MAXN - n, sec[&n]);
                    let r2 = call(|| Ok(vls.provide_secret(MAXN - n, sec[&n])));
                    let ok2 = matches!(r2, Out::Ok(Ok(())));
                    if r1.is_err() || !ok2 {
                        accepted = false;
                        ctx.report(st, Violation::new(
                            "C18:compact-store-rejects-own-secrets",
                            format!("world {}: {:?}: secret n={} refused by the compact store (ldk ok: {}, vls ok: {}) after 0..{} were accepted", self.tag, id, n, r1.is_ok(), ok2, n),
                        ))?;
                        break;
                    }
                }
                if accepted {
                    for n in 0..=chain_max {
                        let g1 = ldk.get_secret(MAXN - n);
                        let g2 = call(|| Ok(vls.get_secret(MAXN - n))).ok().flatten();
                        if g1 != Some(sec[&n]) || g2 != Some(sec[&n]) {
                            ctx.report(st, Violation::new(
                                "C18:compact-store-rejects-own-secrets",
                                format!("world {}: {:?}: compact store filled with secrets 0..={} returns {:?} / {:?} for n={} instead of the released secret", self.tag, id, chain_max,
                                    g1.map(hex::encode), g2.map(hex::encode), n),
                            ))?;
                            break;
                        }
                    }
                    st.class("compact_store_chains_checked");
                }
            }
        }
        Ok(nontrivial_pairs)
    }
}

/// every key observed in both tables must be equal; returns the number of ids compared
fn compare_tables(a: &Run, b: &Run, cause: &str, st: &mut CaseStats, ctx: &Ctx) -> Result<BTreeSet<IdKey>, Violation> {
    let mut ids = BTreeSet::new();
    for (key, (va, pa)) in a.table.iter() {
        if let Some((vb, pb)) = b.table.get(key) {
            ids.insert(key.0.clone());
            if va != vb {
                ctx.report(st, Violation::new(
                    format!("C18:key-depends-on:{}:{}", cause, key.1.name()),
                    format!(
                        "{:?} {:?} n={}: {} in world {} (step {}, restarts {}, {} channels) but {} in world {} (step {}, restarts {}, {} channels); trace {}: {:?}; trace {}: {:?}",
                        key.0, key.1, key.2, hex::encode(va), pa.world, pa.step, pa.restarts, pa.live,
                        hex::encode(vb), pb.world, pb.step, pb.restarts, pb.live, a.tag, a.trace, b.tag, b.trace
                    ),
                ))?;
            }
        }
    }
    Ok(ids)
}

pub struct C18;

impl C18 {
    fn cfg(&self, seed: [u8; 32], ldk: bool, net: Network) -> WorldCfg {
        WorldCfg {
            seed,
            network: net,
            style: if ldk { KeyDerivationStyle::Ldk } else { KeyDerivationStyle::Native },
            policy: make_default_simple_policy(net),
            now_secs: 1_700_000_000,
            trusted_oracles: vec![],
            no_checkpoints: false,
        }
    }
}

impl Prop for C18 {
    type Case = Case;
    fn id(&self) -> &'static str {
        "C18"
    }
    fn rule(&self) -> String {
        "One case: a 32-byte seed (constant fill, counting, single bit, random), style Native or Ldk, network \
         Testnet/Regtest/Bitcoin/Signet, a set of 2-6 channel ids (dbid = 3..=22 plus an offset 0/2^8/2^16/2^32/2^56, peer 0..=3; \
         some ids differ from another one only in the high dbid bytes), and two programs run on two separate signers with \
         the same seed. A program is <=15 steps of: new_channel for a not yet created id of the set (so the two programs create \
         the set in independent random orders; the rest is created at the end), setup_channel on any stub (with or without a \
         permanent id), new_channel for ids outside the set (dbid 1-2, peer 0-5), new_channel_with_random_id, forget_channel on \
         those, restart (signer rebuilt from a copy of its store), far-number observation; then every set id is set up, and \
         optionally one more restart. After every step: get_channel_basepoints and get_per_commitment_point(0,1,2) of every \
         channel; around restarts, at the end of creation and after setup: points and secrets at the generated numbers \
         (0..8, 2^k-1/2^k/2^k+1, 2^48-1, parent/children groups (hi<<t)|(2^t-1) and (hi<<t)|lo) and a run 0..=chain, reached by \
         moving the holder counter with the test-only setter (put back afterwards). Random-id channels are compared by the id \
         the signer returned. Extra signers: the chosen id alone (no other channels), under a second seed, on another network. \
         Oracle: equality of every (id, key kind, n) observation within a world, across the two worlds and against the lone \
         world; pairwise different keys for different ids and for different seeds; BOLT-3 subtree derivation between every \
         pair of released secrets (own implementation); LDK and VLS compact stores accept and return secrets 0..=chain; \
         point(n) = G*secret(n). Non-trivial: >=3 ids of the set compared across two different creation orders and >=1 \
         secret pair with a proper subtree relation checked; distinct by (style, relative order permutation, restart \
         positions in both worlds)."
            .into()
    }
    fn assumptions(&self) -> Vec<String> {
        vec![
            "a channel id is what the caller supplies to new_channel, the (peer id, dbid) pair, or the id returned by new_channel_with_random_id".into(),
            "far commitment numbers are reached with set_next_holder_commit_num_for_testing (in memory only, restored after the observation); the API's own range checks are left in force".into(),
            "the starting-time entropy is fixed (FixedStartingTimeFactory(1,1)), so random ids repeat across signers with the same seed and can be compared by id".into(),
            "dependence on the network is reported in the class histogram only (the statement allows dependence, it does not require a difference)".into(),
        ]
    }
    fn cases(&self, tier: Tier) -> u32 {
        tier.pick(450, 6000)
    }
    fn strategy(&self, tier: Tier) -> BoxedStrategy<Case> {
        let max_ops = tier.pick(16usize, 28usize);
        let max_chain = tier.pick(16u8, 64u8);
        let seed = || {
            prop_oneof![
                2 => any::<u8>().prop_map(SeedSel::Fill),
                1 => Just(SeedSel::Counting),
                1 => any::<u8>().prop_map(SeedSel::FlipBit),
                6 => any::<[u8; 32]>().prop_map(SeedSel::Bytes),
            ]
        };
        let id = (
            3u8..=22,
            0u8..=3,
            prop_oneof![6 => Just(0u8), 2 => 1u8..=4],
            prop_oneof![4 => Just(None), 1 => any::<u16>().prop_map(Some)],
            0u8..4,
            any::<bool>(),
            any::<bool>(),
            prop::bool::weighted(0.35),
        )
            .prop_map(|(base, peer, hi, sib, val, anchors, outbound, perm)| IdSpec { base, peer, hi, sib, val, anchors, outbound, perm });
        let ids = prop_oneof![1 => proptest::collection::vec(id.clone(), 2..=2), 5 => proptest::collection::vec(id, 3..=6)];
        let op = || {
            prop_oneof![
                10 => any::<u16>().prop_map(Op::New),
                5 => any::<u16>().prop_map(Op::Setup),
                3 => (1u8..=2, 0u8..=5).prop_map(|(dbid, peer)| Op::Other { dbid, peer }),
                3 => Just(Op::Random),
                2 => any::<u16>().prop_map(Op::Forget),
                1 => any::<u16>().prop_map(Op::ForgetRand),
                5 => Just(Op::Restart),
                2 => Just(Op::Heavy),
            ]
        };
        let num = prop_oneof![
            2 => (0u8..=8).prop_map(Num::Small),
            4 => (1u8..=47, -1i8..=1).prop_map(|(k, d)| Num::Pow { k, d }),
            1 => Just(Num::Max),
            3 => (any::<u32>(), 1u8..=40, proptest::collection::vec(any::<u32>(), 1..=3)).prop_map(|(hi, t, los)| Num::Group { hi, t, los }),
        ];
        (
            (seed(), seed(), any::<bool>(), 0u8..4),
            ids,
            proptest::collection::vec(op(), 0..max_ops),
            proptest::collection::vec(op(), 0..max_ops),
            (any::<bool>(), any::<bool>()),
            proptest::collection::vec(num, 1..=4),
            2u8..=max_chain,
            any::<u16>(),
        )
            .prop_map(|((seed, seed2, ldk, net), ids, a, b, tail_restart, nums, chain, solo)| Case { seed, seed2, ldk, net, ids, a, b, tail_restart, nums, chain, solo })
            .boxed()
    }

    fn run(&self, case: &Case, st: &mut CaseStats, ctx: &Ctx) -> Result<(), Violation> {
        // Reply points: every per-commitment point a reply carries (activation, revocation, the
        // point requests, and the wire replies of the protocol handlers at versions 4/5/6) must be
        // the channel's point for the number the reply is about.  A short commitment history on a
        // fresh channel, execution level and length derived from the case.
        {
            use crate::props::holder::{machine_for, CSel, Case as HCase, Op as HOp};
            let proto = [None, Some(4u8), Some(5u8), Some(6u8)][(case.chain % 4) as usize];
            let k = 1 + ((case.chain / 4) % 3) as usize;
            let mut ops = vec![];
            for _ in 0..=k {
                ops.push(HOp::Advance { c: CSel::Same, phase1: case.ldk });
            }
            ops.push(HOp::GetPoint { d: 0 });
            ops.push(HOp::GetPoint { d: 1 });
            ops.push(HOp::Revoke { d: -1 });
            ops.push(HOp::Revoke { d: -2 });
            let anchors = case.ids.first().map(|i| i.anchors).unwrap_or(false);
            let hc = HCase { anchors, outbound: true, ops, proto, onchain: false, refused_setup: 0, carve_out: false };
            let mut m = machine_for(&hc);
            for (i, op) in hc.ops.iter().enumerate() {
                if m.is_dead() {
                    break;
                }
                let so = m.step(i, op);
                st.class(format!("reply-points:{}:{}", so.kind, so.tag));
                if let Some(msg) = so.point_mismatch {
                    ctx.report(st, Violation::new(
                        format!("C18:reply-point-differs-from-channel-point:{}", so.kind),
                        format!("step {} {:?} of a commitment history ({}): {}", i, op, match proto { None => "API level".to_string(), Some(v) => format!("protocol version {}", v) }, msg),
                    ))?;
                    break;
                }
            }
        }
        let seed = case.seed.resolve(None);
        let seed2 = case.seed2.resolve(Some(&seed));
        let net = NETS[(case.net as usize).min(NETS.len() - 1)];
        let ids = resolve_ids(&case.ids);
        let nums = resolve_nums(&case.nums);
        let chain_max = case.chain.max(1) as u64;
        let chain: BTreeSet<u64> = (0..=chain_max).collect();
        st.class(if case.ldk { "style_ldk" } else { "style_native" });
        st.class(format!("network_{}", net));
        st.class(format!("set_size_{}", ids.len()));
        if nums.iter().any(|n| *n > 1 << 32) {
            st.class("numbers_above_2^32");
        }
        if nums.contains(&MAXN) {
            st.class("number_2^48-1");
        }

        let mut a = Run::new(self.cfg(seed, case.ldk, net), "a");
        a.run_program(st, ctx, &ids, &case.a, case.tail_restart.0, &nums, &chain)?;
        let pairs_a = a.check_world(st, ctx, chain_max)?;
        // every second chain length: world b runs under a permissive operator filter (every policy
        // violation is logged, none refuses), so requests ahead of the channel state are answered
        // there; what they return must be the same keys
        let mut cfg_b = self.cfg(seed, case.ldk, net);
        if case.chain % 2 == 1 {
            use lightning_signer::policy::filter::{FilterResult, FilterRule, PolicyFilter};
            cfg_b.policy.filter.merge(PolicyFilter { rules: vec![FilterRule { tag: "policy-".to_string(), is_prefix: true, action: FilterResult::Warn }] });
            st.class("world_b_permissive_filter");
        }
        let mut b = Run::new(cfg_b, "b");
        b.run_program(st, ctx, &ids, &case.b, case.tail_restart.1, &nums, &chain)?;
        let pairs_b = b.check_world(st, ctx, chain_max)?;

        // 1. across the two creation orders
        let order_differs = a.order != b.order;
        let compared = compare_tables(&a, &b, if order_differs { "creation-order" } else { "other-channels" }, st, ctx)?;
        let set_compared = compared.iter().filter(|k| matches!(k, IdKey::Db(d, _) if *d >= 3)).count();
        let rand_compared = compared.iter().filter(|k| matches!(k, IdKey::Rand(_))).count();
        let rand_a: BTreeSet<&IdKey> = a.chs.iter().filter(|c| c.random).map(|c| &c.key).collect();
        let rand_b: BTreeSet<&IdKey> = b.chs.iter().filter(|c| c.random).map(|c| &c.key).collect();
        if rand_compared > 0 {
            st.class("random_id_compared_across_worlds");
        }
        if rand_a.symmetric_difference(&rand_b).next().is_some() {
            st.class("random_id_in_one_world_only");
        }
        if order_differs {
            st.class("creation_orders_differ");
        }
        if a.restart_pos.iter().chain(b.restart_pos.iter()).any(|p| *p > 0 && (*p as usize) < ids.len()) {
            st.class("restart_between_creations_of_the_set");
        }
        st.class_n("secret_pairs_with_subtree_relation", pairs_a + pairs_b);

        // with and without other channels / other seed / other network: one id of the set alone
        if !ids.is_empty() {
            let mi = pick_idx(case.solo, ids.len());
            let mut solo = Run::new(self.cfg(seed, case.ldk, net), "alone");
            if let Some(ci) = solo.create_main(st, &ids, mi) {
                solo.light_all(st, ctx)?;
                solo.setup(st, ci);
                solo.light_all(st, ctx)?;
                solo.heavy_all(st, ctx, &nums)?;
                let c = compare_tables(&a, &solo, "other-channels", st, ctx)?;
                if !c.is_empty() && a.chs.len() > 1 {
                    st.class("compared_with_lone_channel");
                }
            }
            if seed2 != seed {
                let mut s2 = Run::new(self.cfg(seed2, case.ldk, net), "seed2");
                if s2.create_main(st, &ids, mi).is_some() {
                    s2.light_all(st, ctx)?;
                    for (key, (v2, _)) in s2.table.iter() {
                        if let Some((v1, _)) = a.table.get(key) {
                            if v1 == v2 {
                                ctx.report(st, Violation::new(
                                    "C18:distinct-seeds-share-keys",
                                    format!("{:?} {:?} n={} is {} under seed {} and under seed {}", key.0, key.1, key.2, hex::encode(v1), hex::encode(seed), hex::encode(seed2)),
                                ))?;
                            }
                        }
                    }
                    st.class("second_seed_compared");
                }
            }
            // report only, in a quarter of the cases: what another network does to the keys
            if case.solo & 3 == 0 {
                let net2 = NETS[(case.net as usize + 1) % NETS.len()];
                let mut n2 = Run::new(self.cfg(seed, case.ldk, net2), "net2");
                if n2.create_main(st, &ids, mi).is_some() {
                    n2.light_all(st, ctx)?;
                    let same = n2.table.iter().all(|(k, (v, _))| a.table.get(k).map(|(v1, _)| v1 == v).unwrap_or(true));
                    st.class(if same { "other_network_same_keys" } else { "other_network_different_keys" });
                }
            }
        }

        st.sample = Some(json!({
            "seed": hex::encode(seed), "style": if case.ldk { "ldk" } else { "native" }, "network": net.to_string(),
            "ids": ids.iter().map(|m| (m.dbid, m.peer)).collect::<Vec<_>>(),
            "order_a": a.order, "order_b": b.order, "restarts_a": a.restart_pos, "restarts_b": b.restart_pos,
            "numbers": nums, "chain": chain_max, "trace_a": a.trace, "trace_b": b.trace,
            "observations_a": a.table.len(), "observations_b": b.table.len(),
        }));
        if order_differs && set_compared >= 3 && pairs_a + pairs_b >= 1 {
            // relative permutation: position in b's order of each element of a's order
            let rel: Vec<i8> = a.order.iter().map(|x| b.order.iter().position(|y| y == x).map(|p| p as i8).unwrap_or(-1)).collect();
            st.nontrivial_shape((case.ldk, rel, a.restart_pos.clone(), b.restart_pos.clone()));
        }
        Ok(())
    }
    fn min_nontrivial(&self, tier: Tier) -> usize {
        tier.pick(300, 3000)
    }
}
