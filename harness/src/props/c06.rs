//! C06 — approved invoices are never overpaid in flight; unbacked payments are refused.
//!
//! One node, 2-3 channels, <= 6 payment hashes.  The harness keeps, per channel, a *wanted*
//! content that generated edits evolve (add/remove HTLC parts), and pushes it to the
//! counterparty commitment (sign) or to the holder commitment (validate, then revoke) in any
//! order.  The oracle reads only the ledger of accepted commitment contents.

use crate::engine::*;
use crate::props::holder::{finish_content, short_err};
use crate::world::*;
use lightning_signer::bitcoin::hashes::sha256::Hash as Sha256;
use lightning_signer::bitcoin::hashes::Hash;
use lightning_signer::bitcoin::secp256k1::{PublicKey, Secp256k1, SecretKey};
use lightning_signer::invoice::Invoice;
use lightning_signer::lightning::types::payment::PaymentSecret;
use lightning_signer::lightning_invoice::{Currency, InvoiceBuilder};
use lightning_signer::util::clock::Clock;
use lightning_signer::util::velocity::{VelocityControlIntervalType, VelocityControlSpec};
use proptest::prelude::*;
use serde::{Deserialize, Serialize};
use serde_json::json;
use std::collections::{BTreeMap, BTreeSet};
use std::time::Duration;

const NH: u8 = 4;

#[derive(Clone, Debug, Serialize, Deserialize, PartialEq, Eq, Hash)]
pub enum PartAmt {
    Full,
    Half,
    HalfPlus,
    Quarter,
    FullPlusFee,
    FullPlusTooMuch,
    Fixed(u8),
}

#[derive(Clone, Debug, Serialize, Deserialize, PartialEq, Eq, Hash)]
pub enum Op {
    /// approve an invoice (or keysend) for hash h
    Approve { h: u8, amt: u8, keysend: bool },
    /// edit the wanted content of a channel: add an HTLC part
    Add { ch: u8, outgoing: bool, h: u8, prefer_approved: bool, amt: PartAmt, cltv: u8 },
    /// edit: remove the i-th HTLC
    Remove { ch: u8, i: u8 },
    /// sign the next counterparty commitment with the wanted content (and revoke its predecessor)
    PushCp { ch: u8 },
    /// validate the next holder commitment with the wanted content
    ValidateHolder { ch: u8 },
    /// revoke_previous_holder_commitment(next): make the validated commitment current
    RevokeHolder { ch: u8 },
    /// validate + revoke
    PushHolder { ch: u8 },
    /// disclose the preimage of hash h on a channel
    Fulfill { ch: u8, h: u8 },
    Heartbeat,
    AdvanceTime { secs: u32 },
    Restart,
    /// the node issues (signs) its own invoice for hash h: it expects to be PAID under that
    /// hash, which approves nothing outgoing
    Issue { h: u8, amt: u8 },
    /// force-close signature for the current holder commitment of a channel: its HTLCs stay
    /// in flight (on chain), the channel takes no further updates
    ForceClose { ch: u8 },
}

#[derive(Clone, Debug, Serialize, Deserialize)]
pub struct Case {
    pub nchan: u8,
    pub anchors: bool,
    /// 0 = unlimited payment velocity (the default policy); otherwise the node runs with a finite
    /// global velocity limit of VEL_LIMIT_SAT[k-1] sat per day, so that some approvals are *declined*
    /// (Ok(false)) and the ledger must not count them
    #[serde(default)]
    pub vel: u8,
    pub ops: Vec<Op>,
    /// the signer runs with OnchainValidatorFactory (vlsd's default) and the channels' funding
    /// transactions are confirmed on the tracker's chain
    #[serde(default)]
    pub onchain: bool,
    /// 0 = API level; 4, 5, 6 = the signer is built by HandlerBuilder and every request that has
    /// a protocol message (PreapproveInvoice / PreapproveKeysend, SignRemoteCommitmentTx2,
    /// ValidateRevocation, ValidateCommitmentTx2, RevokeCommitmentTx, SignLocalCommitmentTx2,
    /// GetHeartbeat) goes through the wire handlers at that negotiated protocol version (at
    /// version 4 a validation also revokes; restarts rebuild the handler from the store)
    #[serde(default)]
    pub wire: u8,
}

const VEL_LIMIT_SAT: [u64; 3] = [60_000, 150_000, 260_000];

fn part_strat() -> impl Strategy<Value = PartAmt> {
    prop_oneof![
        4 => Just(PartAmt::Full), 6 => Just(PartAmt::Half), 1 => Just(PartAmt::HalfPlus), 3 => Just(PartAmt::Quarter),
        2 => Just(PartAmt::FullPlusFee), 2 => Just(PartAmt::FullPlusTooMuch), 1 => (0u8..4).prop_map(PartAmt::Fixed),
    ]
}

fn op_strat() -> impl Strategy<Value = Op> {
    let ch = || 0u8..3;
    let h = || 0u8..NH;
    prop_oneof![
        8 => (h(), 0u8..3, any::<bool>()).prop_map(|(h, amt, keysend)| Op::Approve { h, amt, keysend }),
        12 => (ch(), prop::bool::weighted(0.75), h(), prop::bool::weighted(0.8), part_strat(), 0u8..3)
            .prop_map(|(ch, outgoing, h, prefer_approved, amt, cltv)| Op::Add { ch, outgoing, h, prefer_approved, amt, cltv }),
        3 => (ch(), 0u8..4).prop_map(|(ch, i)| Op::Remove { ch, i }),
        8 => ch().prop_map(|ch| Op::PushCp { ch }),
        5 => ch().prop_map(|ch| Op::ValidateHolder { ch }),
        5 => ch().prop_map(|ch| Op::RevokeHolder { ch }),
        6 => ch().prop_map(|ch| Op::PushHolder { ch }),
        2 => (ch(), h()).prop_map(|(ch, h)| Op::Fulfill { ch, h }),
        2 => (h(), 0u8..3).prop_map(|(h, amt)| Op::Issue { h, amt }),
        1 => ch().prop_map(|ch| Op::ForceClose { ch }),
        1 => Just(Op::Heartbeat),
        1 => prop_oneof![Just(10u32), Just(61u32), Just(4000u32), Just(90_000u32)].prop_map(|secs| Op::AdvanceTime { secs }),
        2 => Just(Op::Restart),
    ]
}

const APPROVE_SAT: [u64; 3] = [50_000, 100_000, 200_000];
const FIXED_SAT: [u64; 4] = [10_000, 30_000, 100_000, 250_000];
const VALUE: u64 = 10_000_000;

fn make_invoice(h: u8, amt_msat: u64, now: Duration) -> Invoice {
    let payment_hash = Sha256::from_byte_array(phash(h).0);
    let private_key = SecretKey::from_slice(&[42; 32]).unwrap();
    Invoice::Bolt11(
        InvoiceBuilder::new(Currency::BitcoinTestnet)
            .description("c06".into())
            .payment_hash(payment_hash)
            .payment_secret(PaymentSecret([h; 32]))
            .duration_since_epoch(now)
            .min_final_cltv_expiry_delta(144)
            .amount_milli_satoshis(amt_msat)
            .build_signed(|hash| Secp256k1::new().sign_ecdsa_recoverable(hash, &private_key))
            .unwrap(),
    )
}

/// per channel ledger of accepted commitment contents
#[derive(Default, Clone)]
struct ChanLedger {
    holder_current: Option<Content>,
    holder_pending: Option<(u64, Content)>,
    cp_current: Option<Content>,
    want_offered: Vec<Htlc>,
    want_received: Vec<Htlc>,
}

fn sum_for(v: &[Htlc], h: u8) -> u128 {
    v.iter().filter(|x| x.h == h).map(|x| x.sat as u128).sum()
}

pub struct C06;

impl Prop for C06 {
    type Case = Case;
    fn id(&self) -> &'static str {
        "C06"
    }
    fn rule(&self) -> String {
        "histories (<=45 quick / <=120 thorough steps) on one node with 2-3 ready channels and 6 payment hashes: invoice / keysend approvals \
         (50k/100k/200k sat), edits of a per-channel wanted content (add outgoing or incoming HTLC part of full/half/quarter/full+fee/ \
         full+too-much/fixed value, remove), push of the wanted content to the counterparty commitment (sign + revoke predecessor) or to the \
         holder commitment (validate and revoke as separate requests, so several channels can be validated before any is revoked), preimage \
         disclosure, heartbeat, clock advance, restart from the store. Oracle, from the ledger of accepted commitment contents only: after \
         every accepted update, for each hash with a live approval, sum over channels of max(offered in current holder, received in current \
         counterparty) <= sum over channels of min(received in current holder, offered in current counterparty) + approved + \
         max_routing_fee (msat, u128); an accepted update introducing outgoing value for a never-seen unapproved hash must carry at least \
         that much incoming value for the hash in the same commitment. Non-trivial: a hash in flight on >=2 channels or in >=2 parts at some \
         step; distinct by (op kind, result) sequence."
            .into()
    }
    fn assumptions(&self) -> Vec<String> {
        vec![
            "whether an approval is still live after heartbeats/pruning is read from the node (only the existence of the approval, never amounts)".into(),
            "when a hash is approved again after its earlier approval was pruned, the allowance is the sum of the approvals granted, each with its own routing-fee allowance (sound upper bound)".into(),
            "once the signer has been given the preimage of a hash (htlcs_fulfilled) the hash is excluded from the in-flight bound: its incoming HTLCs may be settled while outgoing ones remain".into(),
            "the tolerated imbalance of an already-known uninvoiced routed payment (issue 331) is outside the oracle, including hashes whose approval (first, or a new one after the earlier approval expired and was pruned) arrives only after such HTLCs were accepted".into(),
        ]
    }
    fn cases(&self, tier: Tier) -> u32 {
        tier.pick(1200, 5000)
    }
    fn min_nontrivial(&self, tier: Tier) -> usize {
        tier.pick(100, 1000)
    }
    fn strategy(&self, tier: Tier) -> BoxedStrategy<Case> {
        let n = tier.pick(45usize, 120usize);
        let vel = prop_oneof![5 => Just(0u8), 1 => Just(1u8), 2 => Just(2u8), 1 => Just(3u8)];
        let wire = prop_oneof![6 => Just(0u8), 1 => Just(4u8), 2 => Just(5u8), 2 => Just(6u8)];
        (2u8..4, any::<bool>(), vel, proptest::collection::vec(op_strat(), 1..n), prop::bool::weighted(0.35), wire)
            .prop_map(|(nchan, anchors, vel, ops, onchain, wire)| Case { nchan, anchors, vel, ops, onchain, wire: if onchain { 0 } else { wire } })
            .boxed()
    }

    fn run(&self, case: &Case, st: &mut CaseStats, ctx: &Ctx) -> Result<(), Violation> {
        let mut cfg = WorldCfg::default_testnet();
        if case.vel > 0 {
            cfg.policy.global_velocity_control = VelocityControlSpec {
                limit_msat: VEL_LIMIT_SAT[(case.vel as usize - 1) % 3] * 1000,
                interval_type: VelocityControlIntervalType::Daily,
            };
            st.class("finite_velocity_limit");
        }
        use crate::props::proto::{sign_remote2_msg, unit, validate_msg, Negotiation, ProtoWorld, To};
        use vls_protocol::msgs::{self, Message};
        let wire = if case.onchain { 0 } else { case.wire };
        let mut pw: Option<ProtoWorld> = if wire > 0 { Some(ProtoWorld::new(cfg.clone(), wire as u32, Negotiation::SignerCap)) } else { None };
        let mut w = match pw.as_ref() {
            Some(pw) => World::from_proto(pw),
            None => if case.onchain { World::new_onchain(cfg) } else { World::new(cfg) },
        };
        st.class(if wire > 0 { "wire-execution" } else if case.onchain { "onchain-factory" } else { "simple-factory" });
        if wire > 0 {
            st.class(format!("wire:protocol-version-{}", wire));
        }
        let max_fee_msat: u128 = w.cfg.policy.max_routing_fee_msat as u128;
        let nchan = case.nchan as usize;
        let mut led: Vec<ChanLedger> = vec![];
        for i in 0..nchan {
            let mut spec = ChanSpec::basic(i as u64 + 1);
            spec.anchors = case.anchors;
            spec.value_sat = VALUE;
            spec.push_msat = VALUE / 2 * 1000;
            if let Some(pw) = pw.as_mut() {
                let pci = pw.open(&spec);
                w.chans.push(pw.chans[pci].clone());
            } else if case.onchain {
                crate::chainpool::open_confirmed(&mut w, &spec);
            } else {
                w.open(&spec);
            }
            led.push(ChanLedger::default());
        }
        let secp = w.secp.clone();
        // bring every channel to holder 0 current and counterparty 0 signed, no HTLCs
        for ci in 0..nchan {
            let c0 = finish_content(case.anchors, VALUE, 1000, VALUE / 2, vec![], vec![]);
            let signed = w.chans[ci].cp_sign_holder(&secp, 0, &c0, SigKind::Valid);
            let p0 = w.chans[ci].cp.point(&secp, 0);
            let (r, r2) = if let Some(pw) = pw.as_mut() {
                // the handler activates commitment 0 as part of ValidateCommitmentTx2
                let m = validate_msg(&w.chans[ci], &secp, 0, &c0, &signed, false);
                let r = unit(pw.request(To::Chan(ci), m));
                let r2 = unit(pw.request(To::Chan(ci), sign_remote2_msg(&p0, 0, &c0)));
                (r, r2)
            } else {
                let r = w.with_chan(ci, |ch| {
                    ch.validate_holder_commitment_tx_phase2(0, c0.feerate, c0.to_holder, c0.to_cp, vec![], vec![], &signed.commit_sig, &signed.htlc_sigs)?;
                    ch.activate_initial_commitment().map(|_| ())
                });
                let r2 = w.with_chan(ci, |ch| ch.sign_counterparty_commitment_tx_phase2(&p0, 0, c0.feerate, c0.to_holder, c0.to_cp, vec![], vec![]).map(|_| ()));
                (r, r2)
            };
            if !r.is_ok() || !r2.is_ok() {
                panic!("C06 setup failed: {} {}", r.err_msg(), r2.err_msg());
            }
            led[ci].holder_current = Some(c0.clone());
            led[ci].cp_current = Some(c0);
        }
        let payee = PublicKey::from_secret_key(&secp, &SecretKey::from_slice(&[5u8; 32]).unwrap());
        // approved amount in msat per hash (ledger)
        let mut approved: BTreeMap<u8, u128> = BTreeMap::new();
        // number of approvals granted per hash: each approval comes with its own routing-fee allowance
        let mut approvals_n: BTreeMap<u8, u128> = BTreeMap::new();
        let mut seen: BTreeSet<u8> = BTreeSet::new();
        // hashes first approved only after HTLCs for them had already been accepted while
        // uninvoiced (the tolerated issue-331 imbalance): outside the oracle
        let mut tainted: BTreeSet<u8> = BTreeSet::new();
        // hashes for which an HTLC was accepted at a time when no approval for them was live
        let mut seen_unlive: BTreeSet<u8> = BTreeSet::new();
        let mut shape: Vec<(u8, &'static str)> = vec![];
        let mut trace = vec![];
        let mut multi = false;
        let mut dead = false;

        // expand macro
        let mut prim: Vec<Op> = vec![];
        for op in case.ops.iter() {
            match op {
                Op::PushHolder { ch } => {
                    prim.push(Op::ValidateHolder { ch: *ch });
                    prim.push(Op::RevokeHolder { ch: *ch });
                }
                o => prim.push(o.clone()),
            }
        }

        for (i, op) in prim.iter().enumerate() {
            if dead {
                st.class("history_truncated_after_abort");
                break;
            }
            let mut accepted_update: Option<(&'static str, usize, Option<Content>)> = None;
            let tag: &'static str;
            let kind: u8;
            match op {
                Op::Approve { h, amt, keysend } => {
                    kind = 0;
                    let a_msat = APPROVE_SAT[*amt as usize % 3] * 1000;
                    let node = w.node.clone();
                    let was_live = w.node.get_state().invoices.contains_key(&phash(*h));
                    let res: Out<bool> = if let Some(pw) = pw.as_mut() {
                        let msg = if *keysend {
                            Message::PreapproveKeysend(msgs::PreapproveKeysend {
                                destination: vls_protocol::model::PubKey(payee.serialize()),
                                payment_hash: vls_protocol::model::Sha256(phash(*h).0),
                                amount_msat: a_msat,
                            })
                        } else {
                            let inv = make_invoice(*h, a_msat, w.clock.now());
                            Message::PreapproveInvoice(msgs::PreapproveInvoice { invstring: vls_protocol::serde_bolt::WireString(match &inv { Invoice::Bolt11(b) => b.to_string().into_bytes(), _ => unreachable!() }) })
                        };
                        match pw.request(To::Root, msg) {
                            Out::Ok(rep) => {
                                if let Some(r) = rep.as_any().downcast_ref::<msgs::PreapproveInvoiceReply>() {
                                    Out::Ok(r.result)
                                } else if let Some(r) = rep.as_any().downcast_ref::<msgs::PreapproveKeysendReply>() {
                                    Out::Ok(r.result)
                                } else {
                                    Out::Err(lightning_signer::util::status::Status::internal("unexpected reply type"))
                                }
                            }
                            Out::Err(e) => Out::Err(e),
                            Out::Panic(p) => Out::Panic(p),
                        }
                    } else if *keysend {
                        let ph = phash(*h);
                        call(move || node.add_keysend(payee, ph, a_msat))
                    } else {
                        let inv = make_invoice(*h, a_msat, w.clock.now());
                        call(move || node.add_invoice(inv))
                    };
                    tag = match &res { Out::Ok(true) => "ok", Out::Ok(false) => "declined", Out::Err(_) => "err", Out::Panic(_) => "panic" };
                    if matches!(res, Out::Ok(true)) && !was_live {
                        // a new approval (possibly after an earlier one was pruned while parts paid
                        // under it are still in flight): the allowance is the sum of all approvals
                        // granted for the hash in this history - a sound upper bound
                        if (!approved.contains_key(h) && seen.contains(h)) || seen_unlive.contains(h) {
                            // HTLCs for this hash were accepted while no approval was live (never
                            // approved yet, or the earlier approval had expired and been pruned):
                            // the tolerated issue-331 imbalance, outside the oracle
                            tainted.insert(*h);
                            st.class("approval_after_uninvoiced_htlc(excluded)");
                        }
                        *approved.entry(*h).or_insert(0) += a_msat as u128;
                        *approvals_n.entry(*h).or_insert(0) += 1;
                        if approved[h] != a_msat as u128 {
                            st.class("reapproval_after_prune");
                        }
                    }
                    if res.is_panic() { dead = true; }
                }
                Op::Add { ch, outgoing, h, prefer_approved, amt, cltv } => {
                    kind = 1;
                    let ci = *ch as usize % nchan;
                    let h = &if *prefer_approved && !approved.is_empty() {
                        let keys: Vec<u8> = approved.keys().cloned().collect();
                        keys[(*h as usize * keys.len()) / NH as usize]
                    } else {
                        *h
                    };
                    let base = approved.get(h).map(|a| (*a / 1000) as u64).unwrap_or(100_000);
                    let sat = match amt {
                        PartAmt::Full => base,
                        PartAmt::Half => base / 2,
                        PartAmt::HalfPlus => base / 2 + 1000,
                        PartAmt::Quarter => base / 4,
                        PartAmt::FullPlusFee => base + 200,
                        PartAmt::FullPlusTooMuch => base + 5000,
                        PartAmt::Fixed(k) => FIXED_SAT[*k as usize % 4],
                    };
                    // outgoing expiries below incoming ones so that the CLTV-delta rule is not the refuser
                    let cl = if *outgoing { 1000 + *cltv as u32 } else { 1100 + *cltv as u32 };
                    let l = &mut led[ci];
                    if l.want_offered.len() + l.want_received.len() < 6 {
                        if *outgoing { l.want_offered.push(Htlc { h: *h, sat, cltv: cl }); } else { l.want_received.push(Htlc { h: *h, sat, cltv: cl }); }
                    }
                    tag = "edit";
                }
                Op::Remove { ch, i: idx } => {
                    kind = 2;
                    let ci = *ch as usize % nchan;
                    let l = &mut led[ci];
                    let n = l.want_offered.len() + l.want_received.len();
                    if n > 0 {
                        let k = *idx as usize % n;
                        if k < l.want_offered.len() { l.want_offered.remove(k); } else { let k2 = k - l.want_offered.len(); l.want_received.remove(k2); }
                    }
                    tag = "edit";
                }
                Op::PushCp { ch } => {
                    kind = 3;
                    let ci = *ch as usize % nchan;
                    let content = finish_content(case.anchors, VALUE, 1000, (VALUE / 2).saturating_sub(led[ci].want_received.iter().map(|h| h.sat).sum()), led[ci].want_offered.clone(), led[ci].want_received.clone());
                    let (nc, nr) = w.with_chan(ci, |c| Ok((c.enforcement_state.next_counterparty_commit_num, c.enforcement_state.next_counterparty_revoke_num))).ok().unwrap();
                    let point = w.chans[ci].cp.point(&secp, nc);
                    let (cpo, cpr) = (to_info2(&content.received), to_info2(&content.offered));
                    let res: Out<()> = if let Some(pw) = pw.as_mut() {
                        unit(pw.request(To::Chan(ci), sign_remote2_msg(&point, nc, &content)))
                    } else {
                        w.with_chan(ci, |c| c.sign_counterparty_commitment_tx_phase2(&point, nc, content.feerate, content.to_holder, content.to_cp, cpo.clone(), cpr.clone()).map(|_| ()))
                    };
                    tag = res.tag();
                    if res.is_panic() { dead = true; }
                    if std::env::var("VERIF_ERRCLASS").is_ok() && res.is_err() { st.class(format!("E:cp:{}", short_err(&res.err_msg()))); }
                    if res.is_ok() {
                        led[ci].cp_current = Some(content.clone());
                        accepted_update = Some(("sign-counterparty", ci, Some(content)));
                        // the counterparty revokes its previous commitment
                        if nc >= 1 && nr + 1 == nc {
                            let s = w.chans[ci].cp.secret(nr);
                            if let Some(pw) = pw.as_mut() {
                                let _ = pw.request(To::Chan(ci), Message::ValidateRevocation(msgs::ValidateRevocation { commitment_number: nr, commitment_secret: vls_protocol::model::DisclosedSecret(s.secret_bytes()) }));
                            } else {
                                let _ = w.with_chan(ci, |c| c.validate_counterparty_revocation(nr, &s));
                            }
                        }
                    }
                }
                Op::ValidateHolder { ch } => {
                    kind = 4;
                    let ci = *ch as usize % nchan;
                    let content = finish_content(case.anchors, VALUE, 1000, (VALUE / 2).saturating_sub(led[ci].want_received.iter().map(|h| h.sat).sum()), led[ci].want_offered.clone(), led[ci].want_received.clone());
                    let next = w.with_chan(ci, |c| Ok(c.enforcement_state.next_holder_commit_num)).ok().unwrap();
                    let signed = w.chans[ci].cp_sign_holder(&secp, next, &content, SigKind::Valid);
                    let (o, r) = (to_info2(&content.offered), to_info2(&content.received));
                    let res: Out<()> = if let Some(pw) = pw.as_mut() {
                        let m = validate_msg(&w.chans[ci], &secp, next, &content, &signed, false);
                        unit(pw.request(To::Chan(ci), m))
                    } else {
                        w.with_chan(ci, |c| c.validate_holder_commitment_tx_phase2(next, content.feerate, content.to_holder, content.to_cp, o.clone(), r.clone(), &signed.commit_sig, &signed.htlc_sigs).map(|_| ()))
                    };
                    tag = res.tag();
                    if res.is_panic() { dead = true; }
                    if std::env::var("VERIF_ERRCLASS").is_ok() && res.is_err() { st.class(format!("E:holder:{}", short_err(&res.err_msg()))); }
                    if res.is_ok() {
                        let now_next = w.with_chan(ci, |c| Ok(c.enforcement_state.next_holder_commit_num)).ok().unwrap();
                        if now_next == next + 1 {
                            // protocol version 4: the validation request also revoked the predecessor,
                            // the validated commitment is current at once
                            st.class("wire:validate-also-revoked");
                            led[ci].holder_pending = None;
                            led[ci].holder_current = Some(content.clone());
                        } else {
                            led[ci].holder_pending = Some((next, content.clone()));
                        }
                        accepted_update = Some(("validate-holder", ci, Some(content)));
                    }
                }
                Op::RevokeHolder { ch } => {
                    kind = 5;
                    let ci = *ch as usize % nchan;
                    let next = w.with_chan(ci, |c| Ok(c.enforcement_state.next_holder_commit_num)).ok().unwrap();
                    let res: Out<()> = if let Some(pw) = pw.as_mut() {
                        if next == 0 {
                            Out::Err(lightning_signer::util::status::Status::invalid_argument("no commitment to revoke"))
                        } else {
                            unit(pw.request(To::Chan(ci), Message::RevokeCommitmentTx(msgs::RevokeCommitmentTx { commitment_number: next - 1 })))
                        }
                    } else {
                        w.with_chan(ci, |c| c.revoke_previous_holder_commitment(next).map(|_| ()))
                    };
                    tag = res.tag();
                    if res.is_panic() { dead = true; }
                    if res.is_ok() {
                        let now_next = w.with_chan(ci, |c| Ok(c.enforcement_state.next_holder_commit_num)).ok().unwrap();
                        if now_next == next + 1 {
                            if let Some((pn, pc)) = led[ci].holder_pending.take() {
                                if pn == next {
                                    led[ci].holder_current = Some(pc);
                                    accepted_update = Some(("revoke-holder", ci, None));
                                }
                            }
                        }
                    }
                }
                Op::PushHolder { .. } => unreachable!(),
                Op::Fulfill { ch, h } => {
                    kind = 6;
                    let ci = *ch as usize % nchan;
                    let pre = preimage(*h);
                    let res = w.with_chan(ci, |c| { c.htlcs_fulfilled(vec![pre]); Ok(()) });
                    tag = res.tag();
                    if res.is_panic() { dead = true; }
                    if res.is_ok() {
                        // the signer knows the preimage from now on: incoming HTLCs of this hash are
                        // as good as received and may be settled (removed) while outgoing ones are
                        // still in flight; the in-flight ledger does not model settlement
                        tainted.insert(*h);
                        st.class("hash_fulfilled(excluded from the in-flight bound)");
                    }
                }
                Op::Heartbeat => {
                    kind = 7;
                    let node = w.node.clone();
                    let res: Out<()> = if let Some(pw) = pw.as_mut() {
                        unit(pw.request(To::Root, Message::GetHeartbeat(msgs::GetHeartbeat {})))
                    } else {
                        call(move || { let _ = node.get_heartbeat(); Ok(()) })
                    };
                    tag = res.tag();
                    if res.is_panic() { dead = true; }
                }
                Op::AdvanceTime { secs } => {
                    kind = 8;
                    let t = w.clock.now() + Duration::from_secs(*secs as u64);
                    w.clock.set(t);
                    tag = "edit";
                }
                Op::Issue { h, amt } => {
                    kind = 10;
                    let a_msat = APPROVE_SAT[*amt as usize % 3] * 1000;
                    let raw = InvoiceBuilder::new(Currency::BitcoinTestnet)
                        .description("c06 issued".into())
                        .payment_hash(Sha256::from_byte_array(phash(*h).0))
                        .payment_secret(PaymentSecret([*h; 32]))
                        .duration_since_epoch(w.clock.now())
                        .min_final_cltv_expiry_delta(144)
                        .amount_milli_satoshis(a_msat)
                        .build_raw()
                        .expect("raw invoice");
                    let node = w.node.clone();
                    let res = call(move || node.sign_bolt11_invoice(raw).map(|_| ()));
                    tag = res.tag();
                    if res.is_panic() { dead = true; }
                }
                Op::ForceClose { ch } => {
                    kind = 11;
                    let ci = *ch as usize % nchan;
                    let next = w.with_chan(ci, |c| Ok(c.enforcement_state.next_holder_commit_num)).ok().unwrap();
                    if next == 0 {
                        tag = "skip";
                    } else {
                        let res: Out<()> = if let Some(pw) = pw.as_mut() {
                            unit(pw.request(To::Chan(ci), Message::SignLocalCommitmentTx2(msgs::SignLocalCommitmentTx2 { commitment_number: next - 1 })))
                        } else {
                            w.with_chan(ci, |c| c.sign_holder_commitment_tx_phase2(next - 1).map(|_| ()))
                        };
                        tag = res.tag();
                        if res.is_panic() { dead = true; }
                    }
                }
                Op::Restart => {
                    kind = 9;
                    let r = if let Some(pw) = pw.as_mut() {
                        let r = pw.restart();
                        if r.is_ok() {
                            w.rebind_proto(pw);
                        }
                        r
                    } else {
                        w.restart()
                    };
                    tag = r.tag();
                    if !r.is_ok() { dead = true; }
                }
            }
            shape.push((kind, tag));
            st.class(format!("op{}:{}", kind, tag));
            if trace.len() < 70 {
                trace.push(json!({"i": i, "op": op, "result": tag}));
            }
            if dead {
                continue;
            }
            // approvals still live (existence only)
            let live: BTreeSet<u8> = {
                let state = w.node.get_state();
                (0..NH).filter(|h| state.invoices.contains_key(&phash(*h))).collect()
            };

            if let Some((what, ci, content)) = accepted_update {
                // clause 2: new outgoing value for a never-seen, unapproved hash
                if let Some(c) = &content {
                    for h in 0..NH {
                        let out_new = sum_for(&c.offered, h);
                        if out_new > 0 && !seen.contains(&h) && !approved.contains_key(&h) {
                            let inc = sum_for(&c.received, h);
                            if inc < out_new {
                                ctx.report(st, Violation::new(
                                    format!("C06:unbacked-outgoing-accepted:{}", what),
                                    format!("step {} {:?}: channel {} accepted {} sat outgoing for never-seen, unapproved hash {} with only {} sat incoming in the same commitment", i, op, ci, out_new, h, inc),
                                ))?;
                            }
                        }
                    }
                    for x in c.offered.iter().chain(c.received.iter()) {
                        seen.insert(x.h);
                        if !live.contains(&x.h) {
                            seen_unlive.insert(x.h);
                        }
                    }
                }
                // clause 1: in-flight bound for every hash with a live approval
                for (h, amt_msat) in approved.iter() {
                    if !live.contains(h) || tainted.contains(h) {
                        continue;
                    }
                    let mut outgoing: u128 = 0;
                    let mut incoming: u128 = 0;
                    let mut chans_with_out = 0;
                    let mut parts = 0usize;
                    for l in led.iter() {
                        let ho = l.holder_current.as_ref().map(|c| sum_for(&c.offered, *h)).unwrap_or(0);
                        let co = l.cp_current.as_ref().map(|c| sum_for(&c.offered, *h)).unwrap_or(0);
                        let hi = l.holder_current.as_ref().map(|c| sum_for(&c.received, *h)).unwrap_or(0);
                        let cin = l.cp_current.as_ref().map(|c| sum_for(&c.received, *h)).unwrap_or(0);
                        outgoing += ho.max(co);
                        incoming += hi.min(cin);
                        if ho.max(co) > 0 {
                            chans_with_out += 1;
                        }
                        parts = parts.max(l.holder_current.as_ref().map(|c| c.offered.iter().filter(|x| x.h == *h).count()).unwrap_or(0));
                    }
                    if chans_with_out >= 2 || parts >= 2 {
                        multi = true;
                    }
                    let fee_allowance = max_fee_msat * approvals_n.get(h).cloned().unwrap_or(1);
                    if outgoing * 1000 > incoming * 1000 + *amt_msat + fee_allowance {
                        ctx.report(st, Violation::new(
                            format!("C06:overpaid-in-flight:{}", what),
                            format!("step {} {:?}: hash {} has {} sat outgoing in flight over {} channel(s) but only {} sat incoming + {} msat approved + {} msat fee allowance", i, op, h, outgoing, chans_with_out, incoming, amt_msat, fee_allowance),
                        ))?;
                        // the state after a real violation is meaningless
                        dead = true;
                        st.class("history_truncated_after_known_finding");
                        break;
                    }
                }
            }
        }
        st.sample = Some(json!({"nchan": nchan, "anchors": case.anchors, "trace": trace}));
        if w.restarts > 0 {
            st.class("history_with_restart");
        }
        if multi {
            st.class("history_with_multi_channel_or_multi_part_payment");
            st.nontrivial_shape(shape);
        }
        Ok(())
    }
}

/// shared with the union machine
pub fn make_invoice_pub(h: u8, amt_msat: u64, now: Duration) -> Invoice {
    make_invoice(h, amt_msat, now)
}
