//! C04 — commitment signatures bind to the BOLT-3 transaction of the validated content.
//!
//! Every case: fresh world, channel with generated setup, counterparty commitment 0 signed with
//! a simple content, then ONE request for commitment 1 (or a retry of 0):
//!  * phase-2 (semantic) request: returned signatures must verify against the harness-built
//!    reference transaction / HTLC transactions; then the phase-1 request with the canonical
//!    transaction (permitted retry) must be accepted and return the same signature.
//!  * phase-1 (raw tx) request with the canonical transaction or ONE mutation of the tx, the
//!    witness scripts or the accompanying arguments: acceptance implies the supplied bytes are
//!    the canonical transaction for the content that can be read off it, and the signature
//!    verifies against it.

use crate::engine::*;
use crate::props::holder::{finish_content, short_err, HSel};
use crate::world::*;
use lightning_signer::bitcoin;
use lightning_signer::bitcoin::absolute::LockTime;
use lightning_signer::bitcoin::consensus::encode::serialize;
use lightning_signer::bitcoin::hashes::Hash;
use lightning_signer::bitcoin::secp256k1::ecdsa::Signature;
use lightning_signer::bitcoin::secp256k1::{PublicKey, SecretKey};
use lightning_signer::bitcoin::transaction::Version;
use lightning_signer::bitcoin::{Amount, ScriptBuf, Sequence, Transaction, TxOut, Txid};
use lightning_signer::lightning::ln::chan_utils::{derive_private_key, get_revokeable_redeemscript};
use proptest::prelude::*;
use serde::{Deserialize, Serialize};
use serde_json::json;

#[derive(Clone, Debug, Serialize, Deserialize, PartialEq, Eq, Hash)]
pub enum Mutation {
    None,
    Version(u8),
    LockTimeDelta(i8),
    LockTimeRandom(u32),
    SequenceDelta(i8),
    SequenceRandom(u32),
    OutpointTxidByte(u8),
    OutpointVout(u16),
    ExtraInput,
    /// value of output i (selector) changed by delta
    ValueDelta { out: u16, delta: i32 },
    ValueBig { out: u16 },
    /// flip one byte of output i's script_pubkey
    ScriptByte { out: u16, byte: u16 },
    SwapOutputs { a: u16, b: u16 },
    DuplicateOutput { out: u16 },
    DropOutput { out: u16 },
    AddForeignOutput { value: u32 },
    SwapWitscripts { a: u16, b: u16 },
    DropWitscript,
    WitscriptByte { out: u16, byte: u16 },
    EmptyWitscript { out: u16 },
    // argument / transaction mismatches
    ArgFeerateDelta(i16),
    ArgNumberOther(i8),
    ArgPointOther,
    ArgDropHtlc,
    ArgAddHtlc(HSel),
    ArgHtlcAmount { i: u16, delta: i16 },
    ArgHtlcCltv { i: u16, delta: i8 },
    ArgHtlcSwapDirection { i: u16 },
}

#[derive(Clone, Debug, Serialize, Deserialize)]
pub struct Case {
    pub anchors: bool,
    pub outbound: bool,
    pub holder_delay: u16,
    pub cp_delay: u16,
    pub peer: u8,
    pub dbid: u8,
    pub vout: u16,
    pub value_sel: u8,
    pub fee: u8,
    pub to_cp: u8,
    pub htlcs: Vec<HSel>,
    /// target commitment number: 1 (new) or 0 (retry of the initial one)
    pub retry0: bool,
    pub phase2: bool,
    pub mutation: Mutation,
    /// Some(e): wire group: the channel is opened through the vls-protocol-signer handlers
    /// (NewChannel, SetupChannel with channel-type encoding e, see proto.rs) and commitment 0 is
    /// requested with SignRemoteCommitmentTx2; the signature must be over the BOLT-3 transaction of
    /// the channel type that was negotiated on the wire
    #[serde(default)]
    pub wire: Option<u8>,
    /// the channel gets a permanent id (different from its initial id) at setup and the signer is
    /// restarted from the store between commitment 0 and the request under test; the request then
    /// addresses the channel by its permanent id
    #[serde(default)]
    pub perm_restart: bool,
    /// API group: the signer runs with OnchainValidatorFactory (vlsd's default) and the channel's
    /// funding transaction is confirmed on the tracker's chain
    #[serde(default)]
    pub onchain: bool,
    /// API group, raw entry point: the node runs with the operator filter [policy-*: warn] (every
    /// rule is only logged, so a transaction that is not the canonical one is not refused); the
    /// signature must then still be over the rebuilt BOLT-3 transaction and never over the
    /// transaction the caller supplied
    #[serde(default)]
    pub permissive: bool,
    /// API group, commitment 1: the peer announces one of OUR per-commitment points (holder
    /// commitment 0's, which it knows) as the point of its commitment, right after the signer
    /// worked with that point on the holder side (validation of holder commitment 0)
    #[serde(default)]
    pub peer_reuses_holder_point: bool,
}

fn hsel_strat() -> impl Strategy<Value = HSel> {
    (any::<bool>(), 0u8..4, 0u8..6, 0u8..4).prop_map(|(offered, h, amt, cltv)| HSel { offered, h, amt, cltv })
}

fn mutation_strat() -> impl Strategy<Value = Mutation> {
    let o = || any::<u16>();
    prop_oneof![
        6 => Just(Mutation::None),
        1 => prop_oneof![Just(1u8), Just(3u8), Just(0u8)].prop_map(Mutation::Version),
        1 => prop_oneof![Just(1i8), Just(-1i8)].prop_map(Mutation::LockTimeDelta),
        1 => any::<u32>().prop_map(Mutation::LockTimeRandom),
        1 => prop_oneof![Just(1i8), Just(-1i8)].prop_map(Mutation::SequenceDelta),
        1 => any::<u32>().prop_map(Mutation::SequenceRandom),
        1 => (0u8..32).prop_map(Mutation::OutpointTxidByte),
        1 => any::<u16>().prop_map(Mutation::OutpointVout),
        1 => Just(Mutation::ExtraInput),
        3 => (o(), prop_oneof![Just(1i32), Just(-1i32), Just(1000i32), Just(-1000i32), Just(330i32)]).prop_map(|(out, delta)| Mutation::ValueDelta { out, delta }),
        1 => o().prop_map(|out| Mutation::ValueBig { out }),
        2 => (o(), o()).prop_map(|(out, byte)| Mutation::ScriptByte { out, byte }),
        2 => (o(), o()).prop_map(|(a, b)| Mutation::SwapOutputs { a, b }),
        1 => o().prop_map(|out| Mutation::DuplicateOutput { out }),
        2 => o().prop_map(|out| Mutation::DropOutput { out }),
        1 => (400u32..100_000).prop_map(|value| Mutation::AddForeignOutput { value }),
        2 => (o(), o()).prop_map(|(a, b)| Mutation::SwapWitscripts { a, b }),
        1 => Just(Mutation::DropWitscript),
        2 => (o(), o()).prop_map(|(out, byte)| Mutation::WitscriptByte { out, byte }),
        1 => o().prop_map(|out| Mutation::EmptyWitscript { out }),
        2 => prop_oneof![Just(1i16), Just(-1i16), Just(500i16)].prop_map(Mutation::ArgFeerateDelta),
        1 => prop_oneof![Just(1i8), Just(-1i8)].prop_map(Mutation::ArgNumberOther),
        1 => Just(Mutation::ArgPointOther),
        1 => Just(Mutation::ArgDropHtlc),
        1 => hsel_strat().prop_map(Mutation::ArgAddHtlc),
        2 => (o(), prop_oneof![Just(1i16), Just(-1i16), Just(1000i16)]).prop_map(|(i, delta)| Mutation::ArgHtlcAmount { i, delta }),
        2 => (o(), prop_oneof![Just(1i8), Just(-1i8)]).prop_map(|(i, delta)| Mutation::ArgHtlcCltv { i, delta }),
        1 => o().prop_map(|i| Mutation::ArgHtlcSwapDirection { i }),
    ]
}

fn mutation_name(m: &Mutation) -> &'static str {
    match m {
        Mutation::None => "none",
        Mutation::Version(_) => "version",
        Mutation::LockTimeDelta(_) | Mutation::LockTimeRandom(_) => "locktime",
        Mutation::SequenceDelta(_) | Mutation::SequenceRandom(_) => "sequence",
        Mutation::OutpointTxidByte(_) | Mutation::OutpointVout(_) => "outpoint",
        Mutation::ExtraInput => "extra-input",
        Mutation::ValueDelta { .. } | Mutation::ValueBig { .. } => "output-value",
        Mutation::ScriptByte { .. } => "output-script",
        Mutation::SwapOutputs { .. } => "swap-outputs",
        Mutation::DuplicateOutput { .. } => "duplicate-output",
        Mutation::DropOutput { .. } => "drop-output",
        Mutation::AddForeignOutput { .. } => "add-output",
        Mutation::SwapWitscripts { .. } | Mutation::DropWitscript | Mutation::WitscriptByte { .. } | Mutation::EmptyWitscript { .. } => "witscript",
        Mutation::ArgFeerateDelta(_) => "arg-feerate",
        Mutation::ArgNumberOther(_) => "arg-number",
        Mutation::ArgPointOther => "arg-point",
        Mutation::ArgDropHtlc | Mutation::ArgAddHtlc(_) | Mutation::ArgHtlcAmount { .. } | Mutation::ArgHtlcCltv { .. } | Mutation::ArgHtlcSwapDirection { .. } => "arg-htlcs",
    }
}

const AMTS: [u64; 6] = [10_000, 10_000, 25_000, 400_000, 3_000, 1_200];
const CLTVS: [u32; 4] = [1_000, 1_010, 1_010, 2_000];
const FEERATES: [u32; 3] = [253, 1000, 5000];
fn mk_htlc(s: &HSel) -> Htlc {
    Htlc { h: s.h, sat: AMTS[s.amt as usize % 6], cltv: CLTVS[s.cltv as usize % 4] }
}

pub struct C04;

struct Args {
    n: u64,
    point: PublicKey,
    feerate: u32,
    content: Content,
}

impl C04 {
    fn sign1(&self, w: &World, ci: usize, tx: &Transaction, ws: &[Vec<u8>], a: &Args) -> Out<Signature> {
        let (cp_offered, cp_received) = (to_info2(&a.content.received), to_info2(&a.content.offered));
        let point = a.point;
        let (n, feerate) = (a.n, a.feerate);
        w.with_chan(ci, |ch| ch.sign_counterparty_commitment_tx(tx, ws, &point, n, feerate, cp_offered.clone(), cp_received.clone()))
    }
}

impl C04 {
    /// Wire group: open the channel through the protocol handlers and request commitment 0.
    fn run_wire(&self, case: &Case, enc: u8, st: &mut CaseStats, ctx: &Ctx) -> Result<(), Violation> {
        use crate::props::proto::{Negotiation, ProtoWorld, To};
        use vls_protocol::model::PubKey;
        use vls_protocol::msgs::{self, Message};
        let mut pw = ProtoWorld::new(WorldCfg::default_testnet(), 6, Negotiation::SignerCap);
        pw.channel_type_encoding = enc;
        pw.check_setup = false;
        let value = [3_000_000u64, 100_000, 16_000_000][case.value_sel as usize % 3];
        let spec = ChanSpec {
            dbid: case.dbid as u64 + 1,
            peer: case.peer,
            anchors: case.anchors,
            outbound: case.outbound,
            value_sat: value,
            push_msat: 0,
            holder_delay: case.holder_delay,
            cp_delay: case.cp_delay,
            funding_vout: case.vout as u32,
        };
        let ci = match pw.new_stub(&spec) {
            Out::Ok(i) => i,
            _ => return Ok(()),
        };
        let r = pw.setup_chan(ci);
        st.class(format!("wire:enc{}:setup:{}", enc, r.tag()));
        if !r.is_ok() {
            return Ok(());
        }
        let secp = pw.secp.clone();
        let c0 = finish_content(case.anchors, value, FEERATES[case.fee as usize % 3], 0, vec![], vec![]);
        let p0 = pw.chans[ci].cp.point(&secp, 0);
        let msg = Message::SignRemoteCommitmentTx2(msgs::SignRemoteCommitmentTx2 {
            remote_per_commitment_point: PubKey(p0.serialize()),
            commitment_number: 0,
            feerate: c0.feerate,
            to_local_value_sat: c0.to_holder,
            to_remote_value_sat: c0.to_cp,
            htlcs: vls_protocol::serde_bolt::Array(vec![]),
        });
        let rep = pw.request(To::Chan(ci), msg);
        st.class(format!("wire:enc{}:sign:{}", enc, rep.tag()));
        let Out::Ok(rep) = rep else { return Ok(()) };
        let Some(rep) = rep.as_any().downcast_ref::<msgs::SignCommitmentTxWithHtlcsReply>() else {
            return ctx.report(st, Violation::new("C04:wire:unexpected-reply", "SignRemoteCommitmentTx2 was not answered with SignCommitmentTxWithHtlcsReply".to_string()));
        };
        let sig = match Signature::from_compact(&rep.signature.signature.0) {
            Ok(s) => s,
            Err(_) => return ctx.report(st, Violation::new("C04:wire:malformed-signature", "reply signature is not a compact ECDSA signature".to_string())),
        };
        // reference: the BOLT-3 transaction of the channel type that was sent on the wire
        let chan = &pw.chans[ci];
        let reftx = chan.ref_cp_commitment(&secp, 0, &p0, &c0);
        let canonical = reftx.trust().built_transaction().transaction.clone();
        if secp.verify_ecdsa(&chan.commitment_sighash(&canonical), &sig, &chan.holder_pubkeys.funding_pubkey).is_err() {
            return ctx.report(st, Violation::new(
                "C04:wire:commit-sig-not-over-reference-tx",
                format!("{:?}: channel opened over the wire (channel-type encoding {}), the signature for commitment 0 does not verify against the BOLT-3 transaction of the negotiated channel type", case, enc),
            ));
        }
        st.nontrivial_shape(("wire", enc, case.anchors, case.outbound, case.fee % 3));
        st.sample = Some(json!({"case": case, "wire": enc}));

        // commitment 1 with the case's HTLCs; amounts go over the wire in millisatoshi and need
        // not be whole satoshis (BOLT-3 rounds an HTLC output down)
        let payee = PublicKey::from_secret_key(&secp, &SecretKey::from_slice(&[5u8; 32]).unwrap());
        for h in 0u8..4 {
            pw.node().add_keysend(payee, phash(h), 20_000_000_000).expect("keysend");
        }
        let to_cp = [0u64, 20_000, value / 4][case.to_cp as usize % 3];
        let mut budget = value.saturating_sub(to_cp + 20_000);
        let (mut o, mut r): (Vec<Htlc>, Vec<Htlc>) = (vec![], vec![]);
        for hs in case.htlcs.iter() {
            let mut h = mk_htlc(hs);
            if h.sat > budget {
                continue;
            }
            budget -= h.sat;
            if hs.offered {
                h.h &= 1;
                o.push(h);
            } else {
                h.h = (h.h & 1) | 2;
                r.push(h);
            }
        }
        let c1 = finish_content(case.anchors, value, FEERATES[case.fee as usize % 3], to_cp, o, r);
        let subs = [0u64, 500, 1, 999];
        let mut wire_htlcs = vec![];
        let mut any_sub = false;
        for (list, side) in [(&c1.offered, vls_protocol::model::Htlc::LOCAL), (&c1.received, vls_protocol::model::Htlc::REMOTE)] {
            for (k, h) in list.iter().enumerate() {
                let sub = subs[(k + case.dbid as usize) % 4];
                any_sub |= sub != 0;
                wire_htlcs.push(vls_protocol::model::Htlc { side, amount: h.sat * 1000 + sub, payment_hash: vls_protocol::model::Sha256(phash(h.h).0), ctlv_expiry: h.cltv });
            }
        }
        let chan = &pw.chans[ci];
        let p1 = chan.cp.point(&secp, 1);
        let msg = Message::SignRemoteCommitmentTx2(msgs::SignRemoteCommitmentTx2 {
            remote_per_commitment_point: PubKey(p1.serialize()),
            commitment_number: 1,
            feerate: c1.feerate,
            to_local_value_sat: c1.to_holder,
            to_remote_value_sat: c1.to_cp,
            htlcs: vls_protocol::serde_bolt::Array(wire_htlcs),
        });
        let rep = pw.request(To::Chan(ci), msg);
        st.class(format!("wire:enc{}:sign1:{}", enc, rep.tag()));
        let Out::Ok(rep) = rep else { return Ok(()) };
        let Some(rep) = rep.as_any().downcast_ref::<msgs::SignCommitmentTxWithHtlcsReply>() else {
            return ctx.report(st, Violation::new("C04:wire:unexpected-reply", "SignRemoteCommitmentTx2 was not answered with SignCommitmentTxWithHtlcsReply".to_string()));
        };
        let chan = &pw.chans[ci];
        let reftx = chan.ref_cp_commitment(&secp, 1, &p1, &c1);
        let canonical = reftx.trust().built_transaction().transaction.clone();
        let sig_ok = Signature::from_compact(&rep.signature.signature.0).map(|s| secp.verify_ecdsa(&chan.commitment_sighash(&canonical), &s, &chan.holder_pubkeys.funding_pubkey).is_ok()).unwrap_or(false);
        if !sig_ok {
            return ctx.report(st, Violation::new(
                "C04:wire:commit-sig-not-over-reference-tx:with-htlcs",
                format!("{:?}: the signature for commitment 1 ({} HTLCs, amounts in msat {}) does not verify against the BOLT-3 transaction of the request", case, c1.offered.len() + c1.received.len(), if any_sub { "not all whole satoshis" } else { "whole satoshis" }),
            ));
        }
        let holder_htlc_pub = lightning_signer::lightning::ln::channel_keys::HtlcKey::from_basepoint(&secp, &chan.holder_pubkeys.htlc_basepoint, &p1).to_public_key();
        let shs = chan.htlc_sighashes(&reftx, false, chan.htlc_sighash_type());
        if shs.len() != rep.htlc_signatures.0.len() {
            return ctx.report(st, Violation::new("C04:wire:htlc-sig-count", format!("{:?}: {} HTLC signatures for {} HTLCs", case, rep.htlc_signatures.0.len(), shs.len())));
        }
        for (k, ((_, m), s)) in shs.iter().zip(rep.htlc_signatures.0.iter()).enumerate() {
            let ok = Signature::from_compact(&s.signature.0).map(|s| secp.verify_ecdsa(m, &s, &holder_htlc_pub).is_ok()).unwrap_or(false);
            if !ok {
                return ctx.report(st, Violation::new("C04:wire:htlc-sig-not-over-reference-tx", format!("{:?}: HTLC signature {} of commitment 1 does not verify against the reference HTLC transaction", case, k)));
            }
        }
        if !shs.is_empty() {
            st.class(if any_sub { "wire:sign1:htlcs-with-sub-satoshi-amounts" } else { "wire:sign1:htlcs-whole-satoshis" });
            st.nontrivial_shape(("wire1", enc, case.anchors, case.outbound, shs.len().min(3), any_sub));
        }

        // the raw-transaction request for the same commitment (a retry): the canonical transaction,
        // or a transaction field with one mutation next to an untouched PSBT of the canonical one
        let ws = witscripts(chan, &secp, &reftx, false);
        let mk_htlcs = || {
            let mut v = vec![];
            for (list, side) in [(&c1.offered, vls_protocol::model::Htlc::LOCAL), (&c1.received, vls_protocol::model::Htlc::REMOTE)] {
                for h in list.iter() {
                    v.push(vls_protocol::model::Htlc { side, amount: h.sat * 1000, payment_hash: vls_protocol::model::Sha256(phash(h.h).0), ctlv_expiry: h.cltv });
                }
            }
            vls_protocol::serde_bolt::Array(v)
        };
        let which = case.dbid % 4;
        let (sighash1, funding_pk, remote_fk) = (chan.commitment_sighash(&canonical), chan.holder_pubkeys.funding_pubkey, chan.setup.counterparty_points.funding_pubkey);
        let mut sent = canonical.clone();
        let mname = match which {
            0 => "canonical",
            1 => {
                sent.lock_time = lightning_signer::bitcoin::absolute::LockTime::from_consensus(sent.lock_time.to_consensus_u32() ^ 1);
                "locktime"
            }
            2 => {
                sent.input[0].sequence = lightning_signer::bitcoin::Sequence(sent.input[0].sequence.0 ^ 1);
                "sequence"
            }
            _ => {
                let last = sent.output.len() - 1;
                sent.output[last].value = sent.output[last].value + lightning_signer::bitcoin::Amount::from_sat(1);
                "output-value"
            }
        };
        let msg = Message::SignRemoteCommitmentTx(msgs::SignRemoteCommitmentTx {
            tx: vls_protocol::serde_bolt::WithSize(sent),
            psbt: vls_protocol::serde_bolt::WithSize(crate::props::proto::psbt_with_witscripts(&canonical, &ws)),
            remote_funding_key: PubKey(remote_fk.serialize()),
            remote_per_commitment_point: PubKey(p1.serialize()),
            option_static_remotekey: true,
            commitment_number: 1,
            htlcs: mk_htlcs(),
            feerate: c1.feerate,
        });
        let rep = pw.request(To::Chan(ci), msg);
        st.class(format!("wire:phase1:{}:{}", mname, rep.tag()));
        if let Out::Ok(rep) = rep {
            if which != 0 {
                return ctx.report(st, Violation::new(
                    format!("C04:wire:phase1:accepted-noncanonical-transaction:{}", mname),
                    format!("{:?}: SignRemoteCommitmentTx whose transaction field differs from the canonical commitment ({}) next to a PSBT of the canonical one was answered with a signature", case, mname),
                ));
            }
            let ok = rep.as_any().downcast_ref::<msgs::SignTxReply>().and_then(|r| Signature::from_compact(&r.signature.signature.0).ok()).map(|s| secp.verify_ecdsa(&sighash1, &s, &funding_pk).is_ok()).unwrap_or(false);
            if !ok {
                return ctx.report(st, Violation::new("C04:wire:phase1:commit-sig-not-over-reference-tx", format!("{:?}: the signature returned for the canonical transaction does not verify against it", case)));
            }
        }
        st.nontrivial_shape(("wire-phase1", enc, mname, case.anchors, shs.len().min(2)));
        Ok(())
    }
}

impl Prop for C04 {
    type Case = Case;
    fn id(&self) -> &'static str {
        "C04"
    }
    fn rule(&self) -> String {
        "product of channel setups (static-remotekey / anchors, inbound/outbound, contest delays incl. policy edges 4/5/144/2016, 4x256 \
         counterparty key sets, funding vout 0..65535, 3 channel values) x contents (3 fee rates, 3 to-counterparty values, 0-4 HTLCs from \
         4 hashes x 6 amounts incl. duplicates and near-dust values x 4 expiries incl. equal-amount/different-expiry) x request kind: \
         semantic (phase-2) request, or raw-transaction (phase-1) request carrying the canonical transaction with at most one mutation out \
         of 28 operators on the serialized transaction (version, locktime, sequence, outpoint, extra input, output value/script, \
         swap/duplicate/drop/add output), on the witness scripts, or on the accompanying arguments (fee rate, number, point, HTLC list). \
         Oracles: (i) every returned signature verifies under the channel's funding key / derived HTLC key with the channel type's sighash \
         flag against the harness-built BOLT-3 transaction; (ii) phase-1 acceptance implies the supplied transaction is byte-identical to \
         the canonical transaction for the content read off it (to-local/to-remote values by reference script) and the supplied \
         arguments; (iii) after a phase-2 acceptance, phase-1 with the canonical transaction is accepted with the identical signature. \
         Non-trivial: accepted cases with >=1 HTLC, and mutated phase-1 cases; distinct by (setup class, content shape, mutation operator, result)."
            .into()
    }
    fn assumptions(&self) -> Vec<String> {
        vec![
            "reference commitment transactions come from LDK's CommitmentTransaction builder fed directly from the generated setup (not through Channel::make_*); HTLC transactions from LDK build_htlc_transaction; sighashes from rust-bitcoin".into(),
            "funding output index <= 65535 (BOLT-2 wire limit)".into(),
        ]
    }
    fn cases(&self, tier: Tier) -> u32 {
        tier.pick(1500, 12_000)
    }
    fn strategy(&self, _tier: Tier) -> BoxedStrategy<Case> {
        let delay = prop_oneof![Just(4u16), Just(5u16), Just(6u16), Just(144u16), Just(2016u16), 4u16..2017];
        (
            (any::<bool>(), any::<bool>(), delay.clone(), delay, 0u8..4, any::<u8>(), prop_oneof![Just(0u16), Just(1u16), Just(65535u16), any::<u16>()]),
            (0u8..3, 0u8..3, 0u8..3, proptest::collection::vec(hsel_strat(), 0..5)),
            (prop::bool::weighted(0.1), prop::bool::weighted(0.3), mutation_strat(), prop_oneof![12 => Just(None), 1 => Just(Some(0u8)), 1 => Just(Some(1u8))], prop::bool::weighted(0.15), prop::bool::weighted(0.35), prop::bool::weighted(0.2), prop::bool::weighted(0.2)),
        )
            .prop_map(|((anchors, outbound, holder_delay, cp_delay, peer, dbid, vout), (value_sel, fee, to_cp, htlcs), (retry0, phase2, mutation, wire, perm_restart, onchain, permissive, reuse))| Case {
                peer_reuses_holder_point: reuse && !retry0 && wire.is_none(),
                permissive: permissive && !phase2 && wire.is_none(),
                onchain: onchain && wire.is_none(),
                anchors, outbound, holder_delay, cp_delay, peer, dbid, vout, value_sel, fee, to_cp, htlcs, retry0, phase2, mutation, wire, perm_restart,
            })
            .boxed()
    }
    fn min_nontrivial(&self, tier: Tier) -> usize {
        tier.pick(300, 2000)
    }

    fn run(&self, case: &Case, st: &mut CaseStats, ctx: &Ctx) -> Result<(), Violation> {
        if let Some(enc) = case.wire {
            return self.run_wire(case, enc, st, ctx);
        }
        let mut cfg = WorldCfg::default_testnet();
        if case.permissive {
            use lightning_signer::policy::filter::{FilterResult, FilterRule, PolicyFilter};
            cfg.policy.filter.merge(PolicyFilter { rules: vec![FilterRule { tag: "policy-".to_string(), is_prefix: true, action: FilterResult::Warn }] });
            st.class("permissive_filter");
        }
        let mut w = if case.onchain { World::new_onchain(cfg) } else { World::new(cfg) };
        st.class(if case.onchain { "onchain-factory" } else { "simple-factory" });
        let value = [3_000_000u64, 100_000, 16_000_000][case.value_sel as usize % 3];
        let spec = ChanSpec {
            dbid: case.dbid as u64 + 1,
            peer: case.peer,
            anchors: case.anchors,
            outbound: case.outbound,
            value_sat: value,
            push_msat: 0,
            holder_delay: case.holder_delay,
            cp_delay: case.cp_delay,
            funding_vout: case.vout as u32,
        };
        let ci = if case.perm_restart {
            let ci = match w.new_stub(&spec) {
                Out::Ok(i) => i,
                o => panic!("new_stub failed: {}", o.err_msg()),
            };
            w.chans[ci].perm_id = Some(lightning_signer::channel::ChannelId::new(&[0x70, 0x65, 0x72, 0x6d, case.dbid, case.peer, 1, 2, 3]));
            let ftx = if case.onchain { Some(crate::chainpool::funding_tx_for(&mut w, ci)) } else { None };
            match w.setup_chan(ci) {
                Out::Ok(()) => {}
                o => panic!("setup_chan failed: {}", o.err_msg()),
            }
            if let Some(ftx) = &ftx {
                crate::chainpool::confirm_tx(&mut w, ftx, 1);
            }
            st.class("perm_id_and_restart");
            ci
        } else if case.onchain {
            crate::chainpool::open_confirmed(&mut w, &spec).0
        } else {
            w.open(&spec)
        };
        let payee = PublicKey::from_secret_key(&w.secp, &SecretKey::from_slice(&[5u8; 32]).unwrap());
        for h in 0u8..4 {
            w.node.add_keysend(payee, phash(h), 20_000_000_000).expect("keysend");
        }
        let chan = &w.chans[ci];
        let secp = &w.secp;
        // commitment 0: simple content
        let c0 = finish_content(case.anchors, value, 1000, 0, vec![], vec![]);
        let p0 = chan.cp.point(secp, 0);
        let r0 = w.with_chan(ci, |ch| ch.sign_counterparty_commitment_tx_phase2(&p0, 0, c0.feerate, c0.to_holder, c0.to_cp, vec![], vec![]));
        if !r0.is_ok() {
            st.class(format!("setup-refused:{}", short_err(&r0.err_msg())));
            return Ok(());
        }
        if case.perm_restart {
            let r = w.restart();
            if !r.is_ok() {
                st.class("restart_failed");
                return Ok(());
            }
        }
        let chan = &w.chans[ci];
        let secp = &w.secp;
        // target request
        let (n, content) = if case.retry0 {
            (0u64, c0.clone())
        } else {
            // offered and received HTLCs use disjoint payment hashes: a payment routed back
            // through the same channel would bring in the node-level routing rules (C06)
            let to_cp = [0u64, 20_000, value / 4][case.to_cp as usize % 3];
            let mut budget = value.saturating_sub(to_cp + 20_000);
            let mut o: Vec<Htlc> = vec![];
            let mut r: Vec<Htlc> = vec![];
            for hs in case.htlcs.iter() {
                let mut h = mk_htlc(hs);
                if h.sat > budget {
                    continue;
                }
                budget -= h.sat;
                if hs.offered {
                    h.h &= 1;
                    o.push(h);
                } else {
                    h.h = (h.h & 1) | 2;
                    r.push(h);
                }
            }
            (1u64, finish_content(case.anchors, value, FEERATES[case.fee as usize % 3], to_cp, o, r))
        };
        let point = if case.peer_reuses_holder_point && !case.retry0 {
            let signed = chan.cp_sign_holder(secp, 0, &c0, SigKind::Valid);
            let r = w.with_chan(ci, |ch| ch.validate_holder_commitment_tx_phase2(0, c0.feerate, c0.to_holder, c0.to_cp, vec![], vec![], &signed.commit_sig, &signed.htlc_sigs).map(|_| ()));
            st.class(format!("peer_reuses_holder_point:validate-holder-0:{}", r.tag()));
            chan.holder_point(secp, 0)
        } else {
            chan.cp.point(secp, n)
        };
        let reftx = chan.ref_cp_commitment(secp, n, &point, &content);
        let canonical = reftx.trust().built_transaction().transaction.clone();
        let canon_ws = witscripts(chan, secp, &reftx, false);
        let nh = content.offered.len() + content.received.len();
        let setup_class = (case.anchors, case.outbound, case.vout == 0, case.value_sel % 3);
        let htlc_key_pub = PublicKey::from_secret_key(
            secp,
            &derive_private_key(secp, &point, &{
                // holder's htlc base secret is not ours to know: verify with the derived *public* key instead
                SecretKey::from_slice(&[1u8; 32]).unwrap()
            }),
        );
        let _ = htlc_key_pub;
        let holder_htlc_pub = lightning_signer::lightning::ln::channel_keys::HtlcKey::from_basepoint(secp, &chan.holder_pubkeys.htlc_basepoint, &point).to_public_key();

        if case.phase2 {
            let (cp_offered, cp_received) = (to_info2(&content.received), to_info2(&content.offered));
            let res = w.with_chan(ci, |ch| ch.sign_counterparty_commitment_tx_phase2(&point, n, content.feerate, content.to_holder, content.to_cp, cp_offered.clone(), cp_received.clone()));
            st.class(format!("phase2:{}", res.tag()));
            if std::env::var("VERIF_ERRCLASS").is_ok() && !res.is_ok() {
                st.class(format!("E:phase2:{}", short_err(&res.err_msg())));
            }
            st.sample = Some(json!({"case": case, "n": n, "content": content, "result": res.tag()}));
            if let Out::Ok((sig, hsigs)) = res {
                // (i) commitment signature over the reference transaction
                if secp.verify_ecdsa(&chan.commitment_sighash(&canonical), &sig, &chan.holder_pubkeys.funding_pubkey).is_err() {
                    return ctx.report(st, Violation::new("C04:phase2:commit-sig-not-over-reference-tx", format!("{:?}: commitment signature does not verify against the reference transaction", case)));
                }
                let shs = chan.htlc_sighashes(&reftx, false, chan.htlc_sighash_type());
                if shs.len() != hsigs.len() {
                    return ctx.report(st, Violation::new("C04:phase2:htlc-sig-count", format!("{:?}: {} HTLC signatures for {} HTLCs", case, hsigs.len(), shs.len())));
                }
                for (k, ((_, m), s)) in shs.iter().zip(hsigs.iter()).enumerate() {
                    if secp.verify_ecdsa(m, s, &holder_htlc_pub).is_err() {
                        return ctx.report(st, Violation::new("C04:phase2:htlc-sig-not-over-reference-tx", format!("{:?}: HTLC signature {} does not verify against the reference HTLC transaction", case, k)));
                    }
                }
                // (iii) phase-1 with the canonical transaction: accepted, identical signature
                let a = Args { n, point, feerate: content.feerate, content: content.clone() };
                let r1 = self.sign1(&w, ci, &canonical, &canon_ws, &a);
                match r1 {
                    Out::Ok(sig1) => {
                        if sig1 != sig {
                            return ctx.report(st, Violation::new("C04:phase1-phase2-signature-differs", format!("{:?}: phase-1 signature on the canonical transaction differs from the phase-2 signature", case)));
                        }
                        st.class("phase2-then-phase1:same-signature");
                    }
                    other => {
                        return ctx.report(st, Violation::new(
                            "C04:phase1-refuses-canonical-after-phase2",
                            format!("{:?}: phase-2 accepted the content but phase-1 refused the canonical transaction: {}", case, other.err_msg()),
                        ));
                    }
                }
                if nh >= 1 {
                    st.nontrivial_shape(("p2", setup_class, nh, content.offered.len(), case.fee % 3));
                }
            }
            return Ok(());
        }

        // phase-1 with at most one mutation
        let mut tx = canonical.clone();
        let mut ws = canon_ws.clone();
        let mut a = Args { n, point, feerate: content.feerate, content: content.clone() };
        let nout = tx.output.len();
        let oi = |sel: u16| pick_idx(sel, nout);
        let mut applicable = true;
        match &case.mutation {
            Mutation::None => {}
            Mutation::Version(v) => tx.version = Version(*v as i32),
            Mutation::LockTimeDelta(d) => tx.lock_time = LockTime::from_consensus(tx.lock_time.to_consensus_u32().wrapping_add(*d as i32 as u32)),
            Mutation::LockTimeRandom(v) => tx.lock_time = LockTime::from_consensus(*v),
            Mutation::SequenceDelta(d) => tx.input[0].sequence = Sequence(tx.input[0].sequence.0.wrapping_add(*d as i32 as u32)),
            Mutation::SequenceRandom(v) => tx.input[0].sequence = Sequence(*v),
            Mutation::OutpointTxidByte(b) => {
                let mut t = tx.input[0].previous_output.txid.to_byte_array();
                t[*b as usize % 32] ^= 1;
                tx.input[0].previous_output.txid = Txid::from_byte_array(t);
            }
            Mutation::OutpointVout(v) => {
                if tx.input[0].previous_output.vout == *v as u32 {
                    applicable = false;
                }
                tx.input[0].previous_output.vout = *v as u32;
            }
            Mutation::ExtraInput => {
                let i = tx.input[0].clone();
                tx.input.push(i);
            }
            Mutation::ValueDelta { out, delta } => {
                if nout == 0 { applicable = false; } else {
                    let i = oi(*out);
                    let v = tx.output[i].value.to_sat() as i64 + *delta as i64;
                    if v < 0 { applicable = false; } else { tx.output[i].value = Amount::from_sat(v as u64); }
                }
            }
            Mutation::ValueBig { out } => {
                if nout == 0 { applicable = false; } else { let i = oi(*out); tx.output[i].value = Amount::from_sat(20_999_999 * 100_000_000); }
            }
            Mutation::ScriptByte { out, byte } => {
                if nout == 0 { applicable = false; } else {
                    let i = oi(*out);
                    let mut b = tx.output[i].script_pubkey.to_bytes();
                    let l = b.len();
                    b[pick_idx(*byte, l)] ^= 1;
                    tx.output[i].script_pubkey = ScriptBuf::from_bytes(b);
                }
            }
            Mutation::SwapOutputs { a: x, b: y } => {
                if nout < 2 { applicable = false; } else {
                    let (i, j) = (oi(*x), oi(*y));
                    if i == j || tx.output[i] == tx.output[j] { applicable = false; }
                    tx.output.swap(i, j);
                    ws.swap(i, j);
                }
            }
            Mutation::DuplicateOutput { out } => {
                if nout == 0 { applicable = false; } else { let i = oi(*out); let o = tx.output[i].clone(); tx.output.insert(i, o); let s = ws[i].clone(); ws.insert(i, s); }
            }
            Mutation::DropOutput { out } => {
                if nout == 0 { applicable = false; } else { let i = oi(*out); tx.output.remove(i); ws.remove(i); }
            }
            Mutation::AddForeignOutput { value } => {
                tx.output.push(TxOut { value: Amount::from_sat(*value as u64), script_pubkey: ScriptBuf::from_bytes(vec![0x00, 0x14, 1, 2, 3, 4, 5, 6, 7, 8, 9, 10, 11, 12, 13, 14, 15, 16, 17, 18, 19, 20]) });
                ws.push(vec![]);
            }
            Mutation::SwapWitscripts { a: x, b: y } => {
                if nout < 2 { applicable = false; } else { let (i, j) = (oi(*x), oi(*y)); if ws[i] == ws[j] { applicable = false; } ws.swap(i, j); }
            }
            Mutation::DropWitscript => { if ws.pop().is_none() { applicable = false; } }
            Mutation::WitscriptByte { out, byte } => {
                if nout == 0 { applicable = false; } else {
                    let i = oi(*out);
                    if ws[i].is_empty() { applicable = false; } else { let l = ws[i].len(); ws[i][pick_idx(*byte, l)] ^= 1; }
                }
            }
            Mutation::EmptyWitscript { out } => {
                if nout == 0 { applicable = false; } else { let i = oi(*out); if ws[i].is_empty() { applicable = false; } ws[i] = vec![]; }
            }
            Mutation::ArgFeerateDelta(d) => a.feerate = (a.feerate as i64 + *d as i64).max(0) as u32,
            Mutation::ArgNumberOther(d) => {
                let v = n as i64 + *d as i64;
                if v < 0 { applicable = false; } else { a.n = v as u64; }
            }
            Mutation::ArgPointOther => a.point = chan.cp.point(secp, n + 7),
            Mutation::ArgDropHtlc => {
                if !a.content.offered.is_empty() { a.content.offered.remove(0); } else if !a.content.received.is_empty() { a.content.received.remove(0); } else { applicable = false; }
            }
            Mutation::ArgAddHtlc(h) => { if h.offered { a.content.offered.push(mk_htlc(h)); } else { a.content.received.push(mk_htlc(h)); } }
            Mutation::ArgHtlcAmount { i, delta } => {
                if nh == 0 { applicable = false; } else {
                    let k = pick_idx(*i, nh);
                    let h = if k < a.content.offered.len() { &mut a.content.offered[k] } else { let k2 = k - a.content.offered.len(); &mut a.content.received[k2] };
                    h.sat = (h.sat as i64 + *delta as i64).max(1) as u64;
                }
            }
            Mutation::ArgHtlcCltv { i, delta } => {
                if nh == 0 { applicable = false; } else {
                    let k = pick_idx(*i, nh);
                    let h = if k < a.content.offered.len() { &mut a.content.offered[k] } else { let k2 = k - a.content.offered.len(); &mut a.content.received[k2] };
                    h.cltv = (h.cltv as i64 + *delta as i64).max(1) as u32;
                }
            }
            Mutation::ArgHtlcSwapDirection { i } => {
                if nh == 0 { applicable = false; } else {
                    let k = pick_idx(*i, nh);
                    if k < a.content.offered.len() { let h = a.content.offered.remove(k); a.content.received.push(h); } else { let k2 = k - a.content.offered.len(); let h = a.content.received.remove(k2); a.content.offered.push(h); }
                }
            }
        }
        let mname = mutation_name(&case.mutation);
        if !applicable {
            st.class(format!("phase1:{}:not-applicable", mname));
            return Ok(());
        }
        let res = self.sign1(&w, ci, &tx, &ws, &a);
        st.class(format!("phase1:{}:{}", mname, res.tag()));
        if std::env::var("VERIF_ERRCLASS").is_ok() && !res.is_ok() {
            st.class(format!("E:phase1:{}:{}", mname, short_err(&res.err_msg())));
        }
        st.sample = Some(json!({"case": case, "n": n, "content": content, "mutation": mname, "result": res.tag()}));
        match res {
            Out::Ok(sig) => {
                // the content the supplied bytes commit to, read off the transaction
                let keys = chan.cp_txkeys(secp, &a.point);
                let to_local_spk = get_revokeable_redeemscript(&keys.revocation_key, chan.setup.holder_selected_contest_delay, &keys.broadcaster_delayed_payment_key).to_p2wsh();
                let to_remote_spk = if chan.setup.is_anchors() {
                    lightning_signer::lightning::ln::chan_utils::get_to_countersignatory_with_anchors_redeemscript(&chan.holder_pubkeys.payment_point).to_p2wsh()
                } else {
                    ScriptBuf::new_p2wpkh(&bitcoin::CompressedPublicKey(chan.holder_pubkeys.payment_point).wpubkey_hash())
                };
                let to_cp_val: u64 = tx.output.iter().filter(|o| o.script_pubkey == to_local_spk).map(|o| o.value.to_sat()).sum();
                let to_holder_val: u64 = tx.output.iter().filter(|o| o.script_pubkey == to_remote_spk).map(|o| o.value.to_sat()).sum();
                let implied = Content { feerate: a.feerate, to_holder: to_holder_val, to_cp: to_cp_val, offered: a.content.offered.clone(), received: a.content.received.clone() };
                let canon2 = chan.ref_cp_commitment(secp, a.n, &a.point, &implied);
                let canon2_tx = canon2.trust().built_transaction().transaction.clone();
                if case.permissive && serialize(&canon2_tx) != serialize(&tx) {
                    // nothing is refused under this filter; what is signed is the rebuilt
                    // transaction, which the supplied one is not
                    st.class(format!("permissive:phase1:{}:accepted-noncanonical", mname));
                    if secp.verify_ecdsa(&chan.commitment_sighash(&tx), &sig, &chan.holder_pubkeys.funding_pubkey).is_ok() {
                        return ctx.report(st, Violation::new(
                            format!("C04:phase1:permissive:signature-over-supplied-transaction:{}", mname),
                            format!("{:?}: under a log-only policy filter the returned signature verifies against the supplied transaction, which is not the BOLT-3 transaction of the channel for its content. supplied={}", case, hex::encode(serialize(&tx))),
                        ));
                    }
                    st.nontrivial_shape(("p1-permissive", setup_class, nh.min(2), mname));
                    return Ok(());
                }
                if serialize(&canon2_tx) != serialize(&tx) {
                    return ctx.report(st, Violation::new(
                        format!("C04:phase1-accepted-noncanonical:{}", mname),
                        format!("{:?}: accepted a transaction that is not the canonical one for the content read off it. supplied={} canonical={}", case, hex::encode(serialize(&tx)), hex::encode(serialize(&canon2_tx))),
                    ));
                }
                if secp.verify_ecdsa(&chan.commitment_sighash(&tx), &sig, &chan.holder_pubkeys.funding_pubkey).is_err() {
                    return ctx.report(st, Violation::new(
                        format!("C04:phase1-signature-not-over-supplied-canonical:{}", mname),
                        format!("{:?}: signature does not verify against the accepted canonical transaction", case),
                    ));
                }
                if nh >= 1 || !matches!(case.mutation, Mutation::None) {
                    st.nontrivial_shape(("p1-ok", setup_class, nh, mname));
                }
            }
            _ => {
                if !matches!(case.mutation, Mutation::None) {
                    st.nontrivial_shape(("p1-refused", setup_class, nh.min(2), mname));
                }
            }
        }
        Ok(())
    }
}
