//! Protocol-level execution path of the holder-commitment history machine (C01, C02).
//!
//! The histories of `holder.rs` (`Op`) are issued as wire-protocol messages to the real
//! `vls-protocol-signer` handlers (`InitHandler` -> `RootHandler` / `ChannelHandler`), with the
//! protocol version 4, 5 or 6 negotiated through `HsmdInit` (or `HsmdInit2`, which pins 4):
//!   * version < 5: `ValidateCommitmentTx(2)` validates and immediately revokes the predecessor,
//!     the old secret travels in the reply; `RevokeCommitmentTx` is refused;
//!   * version >= 5: revocation is the separate `RevokeCommitmentTx`;
//!   * version < 6: `GetPerCommitmentPoint(n)` also returns the secret of n-2.
//! The oracle is the ghost ledger of holder.rs, unchanged: every reply is serialised and every
//! 32-byte window of it is matched against the channel's true BOLT-3 secrets; holder signatures
//! in replies are attributed by verification against the harness-built transactions.
//!
//! The signer is built the way vlsd builds it: `HandlerBuilder::new(..).max_protocol_version(..)
//! .build()` over the in-memory KVV persister; a restart builds a second handler from a copy of
//! the store alone (restore path of `HandlerBuilder::build`) and negotiates the same version.
//! Every request crosses the wire encoding (`as_vec` / `msgs::from_vec`) before it is handled.

use crate::props::holder::*;
use crate::world::*;
use lightning_signer::bitcoin;
use lightning_signer::lightning;

use bitcoin::blockdata::constants::genesis_block;
use bitcoin::hashes::Hash;
use bitcoin::psbt::Psbt;
use bitcoin::secp256k1::ecdsa::Signature;
use bitcoin::secp256k1::{All, PublicKey, Secp256k1, SecretKey};
use bitcoin::sighash::EcdsaSighashType;
use bitcoin::{OutPoint, ScriptBuf, Txid};
use lightning::ln::chan_utils::ChannelPublicKeys;
use lightning::ln::channel_keys::{DelayedPaymentBasepoint, HtlcBasepoint, RevocationBasepoint};
use lightning_signer::channel::{ChannelId, ChannelSetup, ChannelSlot, CommitmentType};
use lightning_signer::node::{Node, NodeServices};
use lightning_signer::persist::Persist;
use lightning_signer::policy::simple_validator::SimpleValidatorFactory;
use lightning_signer::policy::validator::ValidatorFactory;
use lightning_signer::prelude::Arc;
use lightning_signer::util::clock::ManualClock;
use lightning_signer::util::status::Status;
use lightning_signer::util::test_utils::FixedStartingTimeFactory;
use std::collections::BTreeMap;
use std::time::Duration;
use vls_persist::kvv::memory::MemoryKVVStore;
use vls_persist::kvv::{JsonFormat, KVVPersister, KVVStore, KVV};
use vls_protocol::model::{self, Basepoints, BitcoinSignature, DisclosedSecret, PubKey};
use vls_protocol::msgs::{self, DeBolt, Message, SerBolt};
use vls_protocol::psbt::PsbtWrapper;
use vls_protocol::serde_bolt::{Array, Octets, WireString, WithSize};
use vls_protocol_signer::approver::PositiveApprover;
use vls_protocol_signer::handler::{ChannelHandler, Error as HError, Handler, HandlerBuilder, RootHandler};
use vls_protocol_signer::util::commitment_type_to_channel_type;

pub const VERSIONS: [u32; 3] = [4, 5, 6];
const SIGNER_ID: [u8; 16] = [3u8; 16];

pub type Reply = Box<dyn SerBolt>;

/// One request to a handler: refusal and panic are told apart as at API level.
fn pcall(f: impl FnOnce() -> Result<Reply, HError>) -> Out<Reply> {
    call(|| {
        f().map_err(|e| match e {
            HError::Signing(s) | HError::Temporary(s) => s,
            HError::Protocol(p) => Status::invalid_argument(format!("protocol error: {:?}", p)),
        })
    })
}

fn pk(p: &PublicKey) -> PubKey {
    PubKey(p.serialize())
}

fn bsig(s: &Signature, flag: EcdsaSighashType) -> BitcoinSignature {
    BitcoinSignature { signature: model::Signature(s.serialize_compact()), sighash: flag as u8 }
}

/// How the version is capped during the handshake (both ways must yield the same version).
#[derive(Clone, Copy, Debug, PartialEq, Eq)]
pub enum Negotiation {
    /// signer started with `max_protocol_version(v)`, node offers the default maximum
    SignerCap,
    /// signer started with the default maximum, node offers `hsm_wire_max_version = v`
    NodeCap,
    /// LDK-style `HsmdInit2` (pins version 4)
    Init2,
}

pub struct ProtoWorld {
    /// start-up configuration given to HandlerBuilder at every (re)start
    pub startup_allowlist: Vec<String>,
    pub decline_unknown: bool,
    pub version: u32,
    pub negotiation: Negotiation,
    pub cfg: WorldCfg,
    pub secp: Secp256k1<All>,
    pub clock: Arc<ManualClock>,
    pub vfactory: Arc<dyn ValidatorFactory>,
    pub store: Arc<MemPersister>,
    pub root: RootHandler,
    pub chans: Vec<Chan>,
    /// one channel handler per channel, as vlsd keeps one per client connection
    pub handlers: Vec<ChannelHandler>,
    pub restarts: u32,
    pub requests: u64,
    /// how SetupChannel encodes the channel type: 0 = the project's own encoder
    /// (`commitment_type_to_channel_type`, sets the legacy anchor bit next to the zero-fee one),
    /// 1 = the minimal BOLT-9 set ({12} static-remotekey, {12, 22} zero-fee anchors)
    pub channel_type_encoding: u8,
    /// compare the signer's ChannelSetup with the intended one after SetupChannel (harness
    /// precondition of C01/C02); C04's wire group turns it off and judges by signatures instead
    pub check_setup: bool,
    /// SetupChannel.local_shutdown_wallet_index (the upfront script itself is taken from the
    /// channel's intended setup)
    pub shutdown_wallet_index: Option<u32>,
}

/// Where a request is sent.
#[derive(Clone, Copy)]
pub enum To {
    Root,
    Chan(usize),
}

fn services(vfactory: &Arc<dyn ValidatorFactory>, clock: &Arc<ManualClock>, store: &Arc<MemPersister>, trusted_oracles: &[PublicKey]) -> NodeServices {
    NodeServices {
        validator_factory: vfactory.clone(),
        starting_time_factory: FixedStartingTimeFactory::new(1, 1),
        persister: store.clone() as Arc<dyn Persist>,
        clock: clock.clone(),
        // as vlsd passes its configured TXO oracle keys (none unless the world is configured with some)
        trusted_oracle_pubkeys: trusted_oracles.to_vec(),
    }
}

/// Build an InitHandler like vlsd and run the handshake; the negotiated version is asserted on
/// the reply (`hsm_version`, and the RevokeCommitmentTx capability that is advertised exactly
/// from version 5 on).
fn build_root(
    cfg: &WorldCfg,
    vfactory: &Arc<dyn ValidatorFactory>,
    clock: &Arc<ManualClock>,
    store: &Arc<MemPersister>,
    version: u32,
    negotiation: Negotiation,
    startup_allowlist: &[String],
    decline_unknown: bool,
) -> Result<RootHandler, Status> {
    let signer_max = match negotiation {
        Negotiation::SignerCap => version,
        Negotiation::NodeCap | Negotiation::Init2 => msgs::DEFAULT_MAX_PROTOCOL_VERSION,
    };
    let mut init = HandlerBuilder::new(cfg.network, 0, services(vfactory, clock, store, &cfg.trusted_oracles), cfg.seed)
        .approver(if decline_unknown { Arc::new(vls_protocol_signer::approver::NegativeApprover()) as Arc<dyn vls_protocol_signer::approver::Approve> } else { Arc::new(PositiveApprover()) })
        .allowlist(startup_allowlist.to_vec())
        .max_protocol_version(signer_max)
        .build()
        .map_err(|e| match e {
            HError::Signing(s) | HError::Temporary(s) => s,
            HError::Protocol(p) => Status::internal(format!("protocol error: {:?}", p)),
        })?;
    let msg = match negotiation {
        Negotiation::Init2 => {
            assert_eq!(version, 4, "HsmdInit2 pins protocol version 4");
            Message::HsmdInit2(msgs::HsmdInit2 {
                derivation_style: 0,
                network_name: WireString(cfg.network.to_string().into_bytes()),
                dev_seed: None,
                dev_allowlist: Array(vec![]),
            })
        }
        _ => Message::HsmdInit(msgs::HsmdInit {
            key_version: model::Bip32KeyVersion { pubkey_version: 0x0488b21e, privkey_version: 0x0488ade4 },
            chain_params: genesis_block(cfg.network).block_hash(),
            encryption_key: None,
            dev_privkey: None,
            dev_bip32_seed: None,
            dev_channel_secrets: None,
            dev_channel_secrets_shaseed: None,
            hsm_wire_min_version: msgs::MIN_PROTOCOL_VERSION,
            hsm_wire_max_version: if negotiation == Negotiation::NodeCap { version } else { msgs::DEFAULT_MAX_PROTOCOL_VERSION },
        }),
    };
    let msg = msgs::from_vec(msg.inner().as_vec()).expect("init message survives the wire");
    let (done, reply) = init.handle(msg).map_err(|e| Status::internal(format!("handshake: {:?}", e)))?;
    assert!(done, "handshake not complete");
    let reply = reply.expect("handshake reply");
    match negotiation {
        Negotiation::Init2 => {
            assert!(reply.as_any().downcast_ref::<msgs::HsmdInit2Reply>().is_some(), "expected HsmdInit2Reply");
        }
        _ => {
            let r = reply.as_any().downcast_ref::<msgs::HsmdInitReplyV4>().expect("expected HsmdInitReplyV4");
            assert_eq!(r.hsm_version, version, "negotiated protocol version");
            let has_revoke = r.hsm_capabilities.iter().any(|c| *c == msgs::RevokeCommitmentTx::TYPE as u32);
            assert_eq!(has_revoke, version >= msgs::PROTOCOL_VERSION_REVOKE, "RevokeCommitmentTx capability vs version");
        }
    }
    Ok(init.into())
}

impl ProtoWorld {
    pub fn new(cfg: WorldCfg, version: u32, negotiation: Negotiation) -> ProtoWorld {
        Self::new_configured(cfg, version, negotiation, vec![], false)
    }

    /// As `new`, with the start-up configuration vlsd passes to `HandlerBuilder`: the initial
    /// allowlist ("only used if node is new") and whether unknown destinations are declined
    /// (NegativeApprover) or approved (PositiveApprover).  A restart uses the same configuration.
    pub fn new_configured(cfg: WorldCfg, version: u32, negotiation: Negotiation, startup_allowlist: Vec<String>, decline_unknown: bool) -> ProtoWorld {
        assert!(VERSIONS.contains(&version));
        let vfactory: Arc<dyn ValidatorFactory> = Arc::new(SimpleValidatorFactory::new_with_policy(cfg.policy.clone()));
        let store: Arc<MemPersister> = Arc::new(KVVPersister(MemoryKVVStore::new(SIGNER_ID), JsonFormat));
        let clock = Arc::new(ManualClock::new(Duration::from_secs(cfg.now_secs)));
        let root = build_root(&cfg, &vfactory, &clock, &store, version, negotiation, &startup_allowlist, decline_unknown).expect("new signer");
        let mut w = ProtoWorld {
            startup_allowlist,
            decline_unknown,
            version,
            negotiation,
            cfg,
            secp: Secp256k1::new(),
            clock,
            vfactory,
            store,
            root,
            chans: vec![],
            handlers: vec![],
            restarts: 0,
            requests: 0,
            channel_type_encoding: 0,
            check_setup: true,
            shutdown_wallet_index: None,
        };
        w.assert_version_behaviour();
        w
    }

    pub fn node(&self) -> &Arc<Node> {
        self.root.node()
    }


    /// Behavioural confirmation of the negotiated version on a channel that does not exist:
    /// below version 5 RevokeCommitmentTx is refused because of the version (before any
    /// channel lookup), from version 5 on it is refused because the channel is unknown.
    fn assert_version_behaviour(&mut self) {
        let h = self.root.for_new_client(99, PubKey(peer_id(9)), 999_999);
        let r = pcall(|| h.handle(Message::RevokeCommitmentTx(msgs::RevokeCommitmentTx { commitment_number: 0 })));
        let by_version = r.err_msg().contains("hsmd_protocol_version");
        assert!(r.is_err(), "RevokeCommitmentTx on an unknown channel must be refused");
        assert_eq!(by_version, self.version < msgs::PROTOCOL_VERSION_REVOKE, "channel handler protocol version {}: {}", self.version, r.err_msg());
    }

    /// Send one request: it is serialised and parsed back (the wire), then handled.
    pub fn request(&mut self, to: To, msg: Message) -> Out<Reply> {
        let bytes = msg.inner().as_vec();
        let msg = msgs::from_vec(bytes).expect("well-formed request survives the wire");
        self.requests += 1;
        match to {
            To::Root => {
                let root = &self.root;
                pcall(|| root.handle(msg))
            }
            To::Chan(ci) => {
                let h = &self.handlers[ci];
                pcall(|| h.handle(msg))
            }
        }
    }

    fn make_setup(&self, spec: &ChanSpec) -> (ChannelSetup, CpKeys) {
        // same conventions as World::make_setup
        let cp = CpKeys::derive(spec.peer, spec.dbid);
        let mut txid = [0u8; 32];
        txid[0] = spec.peer;
        txid[1..9].copy_from_slice(&spec.dbid.to_le_bytes());
        txid[31] = 0x77;
        let setup = ChannelSetup {
            is_outbound: spec.outbound,
            channel_value_sat: spec.value_sat,
            push_value_msat: spec.push_msat,
            funding_outpoint: OutPoint { txid: Txid::from_slice(&txid).unwrap(), vout: spec.funding_vout },
            holder_selected_contest_delay: spec.holder_delay,
            holder_shutdown_script: None,
            counterparty_points: cp.pubkeys(&self.secp),
            counterparty_selected_contest_delay: spec.cp_delay,
            counterparty_shutdown_script: None,
            commitment_type: if spec.anchors { CommitmentType::AnchorsZeroFeeHtlc } else { CommitmentType::StaticRemoteKey },
        };
        (setup, cp)
    }

    fn holder_seed(&self, id0: &ChannelId) -> [u8; 32] {
        // ghost knowledge for the oracle only (recognising the channel's true secrets)
        let slot = self.node().get_channel(id0).expect("channel slot");
        let g = slot.lock().unwrap();
        match &*g {
            ChannelSlot::Stub(s) => s.keys.commitment_seed,
            ChannelSlot::Ready(c) => c.keys.commitment_seed,
        }
    }

    /// NewChannel + GetChannelBasepoints on the root handler.
    pub fn new_stub(&mut self, spec: &ChanSpec) -> Out<usize> {
        let pid = PubKey(peer_id(spec.peer));
        let r = self.request(To::Root, Message::NewChannel(msgs::NewChannel { peer_id: PubKey(pid.0), dbid: spec.dbid }));
        match r {
            Out::Ok(rep) => assert!(rep.as_any().downcast_ref::<msgs::NewChannelReply>().is_some()),
            Out::Err(e) => return Out::Err(e),
            Out::Panic(p) => return Out::Panic(p),
        }
        let r = self.request(To::Root, Message::GetChannelBasepoints(msgs::GetChannelBasepoints { node_id: PubKey(pid.0), dbid: spec.dbid }));
        let rep = match r {
            Out::Ok(rep) => rep,
            Out::Err(e) => return Out::Err(e),
            Out::Panic(p) => return Out::Panic(p),
        };
        let bp = rep.as_any().downcast_ref::<msgs::GetChannelBasepointsReply>().expect("GetChannelBasepointsReply");
        let key = |p: &PubKey| PublicKey::from_slice(&p.0).expect("basepoint");
        let holder_pubkeys = ChannelPublicKeys {
            funding_pubkey: key(&bp.funding),
            revocation_basepoint: RevocationBasepoint(key(&bp.basepoints.revocation)),
            payment_point: key(&bp.basepoints.payment),
            delayed_payment_basepoint: DelayedPaymentBasepoint(key(&bp.basepoints.delayed_payment)),
            htlc_basepoint: HtlcBasepoint(key(&bp.basepoints.htlc)),
        };
        let id0 = ChannelId::new_from_peer_id_and_oid(&pid.0, spec.dbid);
        let holder_seed = self.holder_seed(&id0);
        let (setup, cp) = self.make_setup(spec);
        self.chans.push(Chan { id0, spec: spec.clone(), setup, cp, holder_pubkeys, holder_seed, is_ready: false, perm_id: None });
        let ci = self.chans.len() - 1;
        self.handlers.push(self.root.for_new_client(ci as u64 + 1, PubKey(pid.0), spec.dbid));
        Out::Ok(ci)
    }

    /// SetupChannel on the channel handler.
    /// SetupChannel through a channel handler for a (peer, dbid) that was never announced with
    /// NewChannel (or whose stub is gone): the signer answers "channel does not exist".  `bad`: 0 a
    /// well-formed setup, 1 a holder contest delay out of range, 2 a counterparty delay out of range.
    pub fn setup_unannounced(&mut self, spec: &ChanSpec, bad: u8) -> Out<()> {
        let (mut setup, _cp) = self.make_setup(spec);
        match bad % 3 {
            1 => setup.holder_selected_contest_delay = 3000,
            2 => setup.counterparty_selected_contest_delay = 3000,
            _ => {}
        }
        let msg = self.setup_msg(&setup);
        let h = self.root.for_new_client(900 + spec.dbid, PubKey(peer_id(spec.peer)), spec.dbid);
        let bytes = msg.inner().as_vec();
        let msg = msgs::from_vec(bytes).expect("well-formed request survives the wire");
        self.requests += 1;
        crate::props::proto::unit(pcall(|| h.handle(msg)))
    }

    pub fn setup_chan(&mut self, ci: usize) -> Out<()> {
        let s = self.chans[ci].setup.clone();
        let msg = self.setup_msg(&s);
        self.setup_chan_with(ci, msg)
    }

    fn setup_msg(&self, s: &ChannelSetup) -> Message {
        let cpp = &s.counterparty_points;
        Message::SetupChannel(msgs::SetupChannel {
            is_outbound: s.is_outbound,
            channel_value: s.channel_value_sat,
            push_value: s.push_value_msat,
            funding_txid: s.funding_outpoint.txid,
            funding_txout: s.funding_outpoint.vout as u16,
            to_self_delay: s.holder_selected_contest_delay,
            local_shutdown_script: Octets(s.holder_shutdown_script.as_ref().map(|x| x.as_bytes().to_vec()).unwrap_or_default()),
            local_shutdown_wallet_index: self.shutdown_wallet_index,
            remote_basepoints: Basepoints {
                revocation: pk(&cpp.revocation_basepoint.0),
                payment: pk(&cpp.payment_point),
                htlc: pk(&cpp.htlc_basepoint.0),
                delayed_payment: pk(&cpp.delayed_payment_basepoint.0),
            },
            remote_funding_pubkey: pk(&cpp.funding_pubkey),
            remote_to_self_delay: s.counterparty_selected_contest_delay,
            remote_shutdown_script: Octets(vec![]),
            channel_type: Octets(if self.channel_type_encoding == 0 {
                commitment_type_to_channel_type(s.commitment_type)
            } else {
                // feature bits as they appear on the wire (big endian): bit 12, plus bit 22 for
                // zero-fee anchors
                match s.commitment_type {
                    CommitmentType::AnchorsZeroFeeHtlc => vec![0x40, 0x10, 0x00],
                    _ => vec![0x10, 0x00],
                }
            }),
        })
    }

    fn setup_chan_with(&mut self, ci: usize, msg: Message) -> Out<()> {
        let s = self.chans[ci].setup.clone();
        match self.request(To::Chan(ci), msg) {
            Out::Ok(rep) => {
                assert!(rep.as_any().downcast_ref::<msgs::SetupChannelReply>().is_some());
                self.chans[ci].is_ready = true;
                let id0 = self.chans[ci].id0.clone();
                self.chans[ci].holder_seed = self.holder_seed(&id0);
                // the signer's view of the setup must be the one the reference builders use
                let got = self.node().with_channel(&id0, |c| Ok(c.setup.clone())).expect("ready channel");
                if self.check_setup {
                    assert_eq!(got, s, "SetupChannel conveyed the intended setup");
                }
                Out::Ok(())
            }
            Out::Err(e) => Out::Err(e),
            Out::Panic(p) => Out::Panic(p),
        }
    }

    pub fn open(&mut self, spec: &ChanSpec) -> usize {
        let ci = match self.new_stub(spec) {
            Out::Ok(i) => i,
            o => panic!("NewChannel failed: {}", o.err_msg()),
        };
        match self.setup_chan(ci) {
            Out::Ok(()) => {}
            o => panic!("SetupChannel failed: {}", o.err_msg()),
        }
        ci
    }

    pub fn store_dump(&self) -> Vec<(String, u64, Vec<u8>)> {
        self.store
            .0
            .get_prefix("")
            .unwrap()
            .map(|k| {
                let (k, (v, val)) = k.into_inner();
                (k, v, val)
            })
            .collect()
    }

    /// Restart: a second signer is built from a copy of the store alone (HandlerBuilder takes
    /// its restore path) and the same protocol version is negotiated again.
    pub fn restart(&mut self) -> Out<()> {
        let dump = self.store_dump();
        let (cfg, vf, clock, version, negotiation) = (self.cfg.clone(), self.vfactory.clone(), self.clock.clone(), self.version, self.negotiation);
        let (sal, decl) = (self.startup_allowlist.clone(), self.decline_unknown);
        let r = call(move || {
            let ms = MemoryKVVStore::new(SIGNER_ID);
            ms.put_batch(dump.into_iter().map(|(k, v, val)| KVV(k, (v, val))).collect()).expect("copy store");
            let store: Arc<MemPersister> = Arc::new(KVVPersister(ms, JsonFormat));
            let root = build_root(&cfg, &vf, &clock, &store, version, negotiation, &sal, decl)?;
            Ok((root, store))
        });
        match r {
            Out::Ok((root, store)) => {
                self.root = root;
                self.store = store;
                self.handlers = self
                    .chans
                    .iter()
                    .enumerate()
                    .map(|(ci, c)| self.root.for_new_client(ci as u64 + 1, PubKey(peer_id(c.spec.peer)), c.spec.dbid))
                    .collect();
                self.restarts += 1;
                self.assert_version_behaviour();
                Out::Ok(())
            }
            Out::Err(e) => Out::Err(e),
            Out::Panic(p) => Out::Panic(p),
        }
    }
}

impl World {
    /// A `World` around the signer of a `ProtoWorld`: the same `Node` (the one the root handler
    /// serves), store, clock and validator factory, so that the API-level helpers of `World` /
    /// `chainpool` (channel preparation, views) and protocol messages to `pw.root` act on one
    /// signer.  The channel tables of the two are independent (`pw.chans` stays as it is).
    /// After `pw.restart()` call [`World::rebind_proto`].
    pub fn from_proto(pw: &ProtoWorld) -> World {
        World {
            cfg: pw.cfg.clone(),
            secp: Secp256k1::new(),
            node: pw.node().clone(),
            store: pw.store.clone(),
            cloud: None,
            clock: pw.clock.clone(),
            vfactory: pw.vfactory.clone(),
            chans: vec![],
            restarts: 0,
            fault: std::sync::Arc::new(FaultSwitch::default()),
            backup: None,
            redb: None,
        }
    }

    /// Follow a restart of the `ProtoWorld` (`ProtoWorld::restart`: a second signer built by
    /// `HandlerBuilder` from a copy of the store): continue on its node and store.
    pub fn rebind_proto(&mut self, pw: &ProtoWorld) {
        self.node = pw.node().clone();
        self.store = pw.store.clone();
        self.restarts += 1;
    }
}

// ---------------------------------------------------------------------------------------------
// message builders

pub fn htlcs_msg(c: &Content) -> Array<model::Htlc> {
    // the handler reads side LOCAL as offered by the holder and REMOTE as received
    let mut v = vec![];
    for (list, side) in [(&c.offered, model::Htlc::LOCAL), (&c.received, model::Htlc::REMOTE)] {
        for h in list.iter() {
            v.push(model::Htlc { side, amount: h.sat * 1000, payment_hash: model::Sha256(phash(h.h).0), ctlv_expiry: h.cltv });
        }
    }
    Array(v)
}

/// SignRemoteCommitmentTx2 for counterparty commitment `n` with the given content (holder's view).
pub fn sign_remote2_msg(point: &PublicKey, n: u64, c: &Content) -> Message {
    Message::SignRemoteCommitmentTx2(msgs::SignRemoteCommitmentTx2 {
        remote_per_commitment_point: pk(point),
        commitment_number: n,
        feerate: c.feerate,
        to_local_value_sat: c.to_holder,
        to_remote_value_sat: c.to_cp,
        htlcs: htlcs_msg(c),
    })
}

/// Ok/Err/Panic of a request whose reply content does not matter.
pub fn unit(r: Out<Reply>) -> Out<()> {
    match r {
        Out::Ok(_) => Out::Ok(()),
        Out::Err(e) => Out::Err(e),
        Out::Panic(p) => Out::Panic(p),
    }
}

/// PSBT of a commitment transaction carrying the output witscripts, the shape
/// `extract_psbt_witscripts` reads (an output without a witscript has none).
pub fn psbt_with_witscripts(tx: &bitcoin::Transaction, ws: &[Vec<u8>]) -> PsbtWrapper {
    let mut psbt = Psbt::from_unsigned_tx(tx.clone()).expect("unsigned tx");
    assert_eq!(psbt.outputs.len(), ws.len());
    for (o, w) in psbt.outputs.iter_mut().zip(ws.iter()) {
        if !w.is_empty() {
            o.witness_script = Some(ScriptBuf::from(w.clone()));
        }
    }
    PsbtWrapper { inner: psbt }
}

pub fn validate_msg(chan: &Chan, secp: &Secp256k1<All>, n: u64, content: &Content, signed: &CpSigned, phase1: bool) -> Message {
    let flag = chan.htlc_sighash_type();
    let signature = bsig(&signed.commit_sig, EcdsaSighashType::All);
    let htlc_signatures = Array(signed.htlc_sigs.iter().map(|s| bsig(s, flag)).collect());
    if phase1 {
        let tx = signed.tx.trust().built_transaction().transaction.clone();
        let ws = witscripts(chan, secp, &signed.tx, true);
        Message::ValidateCommitmentTx(msgs::ValidateCommitmentTx {
            psbt: WithSize(psbt_with_witscripts(&tx, &ws)),
            tx: WithSize(tx),
            htlcs: htlcs_msg(content),
            commitment_number: n,
            feerate: content.feerate,
            signature,
            htlc_signatures,
        })
    } else {
        Message::ValidateCommitmentTx2(msgs::ValidateCommitmentTx2 {
            commitment_number: n,
            feerate: content.feerate,
            to_local_value_sat: content.to_holder,
            to_remote_value_sat: content.to_cp,
            htlcs: htlcs_msg(content),
            signature,
            htlc_signatures,
        })
    }
}

// ---------------------------------------------------------------------------------------------
// the machine

pub struct ProtoMachine {
    pub w: ProtoWorld,
    pub ci: usize,
    pub stub: usize,
    pub g: Ghost,
    pub dead: bool,
    /// table of the channel's true secrets (ghost knowledge), grown on demand: secret -> number
    secrets: BTreeMap<[u8; 32], u64>,
    secrets_upto: u64,
    /// C10's wire group: observe the signer's state and store around every message; a refused
    /// message that changed something is recorded in `refusal_diffs` (message name, error, paths)
    pub watch_refusals: bool,
    pub refusal_diffs: Vec<(&'static str, String, Vec<String>)>,
    pub refusals_watched: u64,
}

pub fn setup_proto(anchors: bool, outbound: bool, version: u32) -> ProtoMachine {
    // both ways of capping the version are used; HsmdInit2 (LDK) is the third way to get 4
    let negotiation = match (version, anchors, outbound) {
        (4, true, true) => Negotiation::Init2,
        (_, _, true) => Negotiation::SignerCap,
        _ => Negotiation::NodeCap,
    };
    let mut w = ProtoWorld::new(WorldCfg::default_testnet(), version, negotiation);
    let mut spec = ChanSpec::basic(1);
    spec.anchors = anchors;
    spec.outbound = outbound;
    let ci = w.open(&spec);
    let mut stub_spec = ChanSpec::basic(2);
    stub_spec.anchors = anchors;
    let stub = w.new_stub(&stub_spec).ok().expect("stub");
    // approvals so that offered HTLCs are not refused for lack of an invoice
    let payee = PublicKey::from_secret_key(&w.secp, &SecretKey::from_slice(&[5u8; 32]).unwrap());
    for h in 0u8..4 {
        let r = w.request(
            To::Root,
            Message::PreapproveKeysend(msgs::PreapproveKeysend { destination: pk(&payee), payment_hash: model::Sha256(phash(h).0), amount_msat: 2_000_000_000 }),
        );
        let ok = match r {
            Out::Ok(rep) => rep.as_any().downcast_ref::<msgs::PreapproveKeysendReply>().map(|r| r.result).unwrap_or(false),
            _ => false,
        };
        assert!(ok, "keysend preapproval");
    }
    ProtoMachine { w, ci, stub, g: Ghost::new(), dead: false, secrets: BTreeMap::new(), secrets_upto: 0, watch_refusals: false, refusal_diffs: vec![], refusals_watched: 0 }
}

/// What one reply contained.
#[derive(Default)]
struct Seen {
    /// true secrets of the channel found in the serialised reply (commitment numbers)
    secrets: Vec<u64>,
    /// a secret-typed field was present (whatever its value)
    typed_secret: bool,
    /// a secret-typed field was present and is none of the channel's secrets 0..=next+4
    typed_unrecognised: bool,
    /// holder funding signature carried by the reply
    signature: Option<Signature>,
}

fn typed_secret_of(rep: &Reply) -> Option<[u8; 32]> {
    let a = rep.as_any();
    let d: Option<&DisclosedSecret> = if let Some(r) = a.downcast_ref::<msgs::ValidateCommitmentTxReply>() {
        r.old_commitment_secret.as_ref()
    } else if let Some(r) = a.downcast_ref::<msgs::RevokeCommitmentTxReply>() {
        Some(&r.old_commitment_secret)
    } else if let Some(r) = a.downcast_ref::<msgs::GetPerCommitmentPointReply>() {
        r.secret.as_ref()
    } else {
        None
    };
    d.map(|s| s.0)
}

impl ProtoMachine {
    fn chan_state<T>(&self, f: impl FnOnce(&lightning_signer::channel::Channel) -> T) -> Option<T> {
        // ghost read; after a panic inside the signer its locks may be poisoned
        let id0 = self.w.chans[self.ci].id0.clone();
        let node = self.w.node().clone();
        call(move || node.with_channel(&id0, |c| Ok(f(c)))).ok()
    }

    pub fn next_num(&self) -> u64 {
        self.chan_state(|c| c.enforcement_state.next_holder_commit_num).unwrap_or(0)
    }

    /// the parts of the enforcement state a holder-commitment request may change
    fn holder_state(&self) -> String {
        self.chan_state(|c| {
            let e = &c.enforcement_state;
            format!("{} {:?} {:?} {}", e.next_holder_commit_num, e.next_holder_commit_info, e.current_holder_commit_info, e.channel_closed)
        })
        .unwrap_or_default()
    }

    fn num(base: u64, d: i8) -> Option<u64> {
        let v = base as i64 + d as i64;
        if v < 0 {
            None
        } else {
            Some(v as u64)
        }
    }

    fn grow_secrets(&mut self, upto: u64) {
        let chan = &self.w.chans[self.ci];
        while self.secrets_upto <= upto {
            self.secrets.insert(chan.holder_secret(self.secrets_upto), self.secrets_upto);
            self.secrets_upto += 1;
        }
    }

    /// Scan one reply of the ready channel: every 32-byte window of the serialised reply is
    /// matched against the true secrets 0..=next+4 (this covers every secret-typed field and any
    /// other 32-byte field); the typed secret field is matched as well.
    fn scan(&mut self, rep: &Reply) -> Seen {
        let upto = self.next_num() + 4;
        self.grow_secrets(upto);
        let mut seen = Seen::default();
        let bytes = rep.as_vec();
        let mut found = vec![];
        if bytes.len() >= 32 {
            for wdw in bytes.windows(32) {
                if let Some(n) = self.secrets.get(wdw) {
                    if *n <= upto && !found.contains(n) {
                        found.push(*n);
                    }
                }
            }
        }
        if let Some(s) = typed_secret_of(rep) {
            seen.typed_secret = true;
            match self.secrets.get(&s[..]) {
                Some(n) if *n <= upto => {
                    if !found.contains(n) {
                        found.push(*n);
                    }
                }
                _ => seen.typed_unrecognised = true,
            }
        }
        seen.secrets = found;
        if let Some(r) = rep.as_any().downcast_ref::<msgs::SignCommitmentTxReply>() {
            seen.signature = Signature::from_compact(&r.signature.signature.0).ok();
        }
        seen
    }

    /// Send a request to the ready channel (or the root) and enter the secrets the reply shows
    /// into the ledger (Revoked) and into `so.disclosed`.  Returns the outcome and what was seen
    /// (a signature is attributed by the caller, which knows the requested number).
    fn exchange(&mut self, i: usize, to: To, name: &'static str, msg: Message, so: &mut StepOut) -> (Out<()>, Seen) {
        // which commitment number the point in the reply belongs to
        let point_num: Option<u64> = match (&to, &msg) {
            (To::Chan(c), Message::ValidateCommitmentTx(m)) if *c == self.ci => Some(m.commitment_number + 1),
            (To::Chan(c), Message::ValidateCommitmentTx2(m)) if *c == self.ci => Some(m.commitment_number + 1),
            (To::Chan(c), Message::RevokeCommitmentTx(m)) if *c == self.ci => m.commitment_number.checked_add(2),
            (To::Chan(c), Message::GetPerCommitmentPoint(m)) if *c == self.ci => Some(m.commitment_number),
            (To::Chan(c), Message::GetPerCommitmentPoint2(m)) if *c == self.ci => Some(m.commitment_number),
            _ => None,
        };
        let before = if self.watch_refusals { Some((crate::props::unionm::observe(self.w.node()), self.w.store_dump())) } else { None };
        let r = self.w.request(to, msg);
        if let (Some((b, dump_b)), Out::Err(e)) = (&before, &r) {
            self.refusals_watched += 1;
            let a = crate::props::unionm::observe(self.w.node());
            let mut diffs = crate::props::unionm::snap_diffs(b, &a);
            if diffs.is_empty() {
                let dump_a = self.w.store_dump();
                if *dump_b != dump_a {
                    let changed: Vec<String> = dump_a.iter().filter(|e| !dump_b.contains(e)).map(|e| e.0.split('/').take(1).collect::<Vec<_>>().join("/")).collect();
                    diffs.push(format!("store({})", changed.first().cloned().unwrap_or_default()));
                    // detail for the message: version and first differing position of the first changed entry
                    if let Some(ea) = dump_a.iter().find(|e| !dump_b.contains(e)) {
                        let detail = match dump_b.iter().find(|e| e.0 == ea.0) {
                            Some(eb) => {
                                let pos = ea.2.iter().zip(eb.2.iter()).position(|(x, y)| x != y).unwrap_or(ea.2.len().min(eb.2.len()));
                                let lo = pos.saturating_sub(60);
                                if ea.2 == eb.2 {
                                    format!("version {} -> {}, value unchanged (the entry was rewritten)", eb.1, ea.1)
                                } else {
                                    format!("version {} -> {}, value differs at byte {}: before ...{}... after ...{}...", eb.1, ea.1, pos, String::from_utf8_lossy(&eb.2[lo..(pos + 40).min(eb.2.len())]), String::from_utf8_lossy(&ea.2[lo..(pos + 40).min(ea.2.len())]))
                                }
                            }
                            None => "new entry".to_string(),
                        };
                        diffs.push(detail);
                    }
                }
            }
            if !diffs.is_empty() {
                self.refusal_diffs.push((name, crate::props::holder::short_err(&e.message().to_string()), diffs));
            }
        }
        if let (Out::Ok(rep), Some(n)) = (&r, point_num) {
            let a = rep.as_any();
            let p: Option<[u8; 33]> = if let Some(x) = a.downcast_ref::<msgs::ValidateCommitmentTxReply>() {
                Some(x.next_per_commitment_point.0)
            } else if let Some(x) = a.downcast_ref::<msgs::RevokeCommitmentTxReply>() {
                Some(x.next_per_commitment_point.0)
            } else if let Some(x) = a.downcast_ref::<msgs::GetPerCommitmentPointReply>() {
                Some(x.point.0)
            } else if let Some(x) = a.downcast_ref::<msgs::GetPerCommitmentPoint2Reply>() {
                Some(x.point.0)
            } else {
                None
            };
            if let Some(p) = p {
                let want = self.w.chans[self.ci].holder_point(&self.w.secp, n).serialize();
                if p != want && so.point_mismatch.is_none() {
                    so.point_mismatch = Some(format!("{} (protocol v{}): the reply carries {} as per-commitment point {} but the channel's point {} is {}", name, self.w.version, hex::encode(p), n, n, hex::encode(want)));
                }
            }
        }
        so.notes.push(format!("msg:v{}:{}:{}", self.w.version, name, r.tag()));
        match r {
            Out::Ok(rep) => {
                let seen = self.scan(&rep);
                for n in seen.secrets.iter() {
                    self.g.revoked.entry(*n).or_insert(i);
                    if !so.disclosed.contains(n) {
                        so.disclosed.push(*n);
                    }
                }
                if !seen.secrets.is_empty() {
                    so.notes.push(format!("msg:v{}:{}:secret-in-reply", self.w.version, name));
                }
                if seen.typed_unrecognised {
                    // visible in the histogram: a secret-typed field that is not one of the
                    // channel's secrets up to next+4 (the API-level table has the same bound)
                    so.notes.push(format!("msg:v{}:{}:typed-secret-unrecognised", self.w.version, name));
                }
                (Out::Ok(()), seen)
            }
            Out::Err(e) => (Out::Err(e), Seen::default()),
            Out::Panic(p) => {
                self.dead = true;
                (Out::Panic(p), Seen::default())
            }
        }
    }

    fn note_sig(&mut self, i: usize, n: u64, sig: &Signature, so: &mut StepOut) {
        let next = self.next_num();
        let (sn, _matched) = note_signature_in(&self.w.chans[self.ci], &self.w.secp, &mut self.g, next, i, n, sig);
        so.signed = Some(sn);
    }

    /// ValidateCommitmentTx / ValidateCommitmentTx2 for number n.
    fn do_validate(&mut self, i: usize, n: u64, content: Content, sig: SigKind, phase1: bool, so: &mut StepOut) {
        let v = self.w.version;
        let next = self.next_num();
        let chan = &self.w.chans[self.ci];
        let signed = chan.cp_sign_holder(&self.w.secp, n, &content, sig);
        let msg = validate_msg(chan, &self.w.secp, n, &content, &signed, phase1);
        let before = self.holder_state();
        let name = if phase1 { "ValidateCommitmentTx" } else { "ValidateCommitmentTx2" };
        let (res, _seen) = self.exchange(i, To::Chan(self.ci), name, msg, so);
        so.tag = res.tag();
        so.err = short_err(&res.err_msg());
        let after_next = self.next_num();
        // Was the validation itself accepted?  With an Ok reply: yes.  With a refusal the
        // request is a combined one below version 5 (validate, then revoke) and for number 0
        // (validate, then activate): the validation was accepted and stored iff the pending
        // holder commitment changed (ghost read of the enforcement state).
        let mut accepted = res.is_ok();
        if res.is_err() {
            so.notes.push(format!("atomicity:v{}:refused-validate-checked", v));
            let after = self.holder_state();
            if after != before {
                accepted = true;
                // triage finding only (C10-style atomicity of a combined request), not a verdict
                so.notes.push(format!("finding:v{}:refused-validate-changed-holder-state", v));
            }
        }
        if accepted {
            self.g.accepted_contents.entry(n).or_default().push(content.clone());
            if signed.all_valid {
                self.g.accepted_valid.insert(n);
            } else {
                so.accepted_invalid_sig = true;
            }
            if n == next {
                if after_next == n + 1 {
                    // combined request: n became the current commitment
                    self.g.current = Some(content);
                    self.g.pending = None;
                } else {
                    self.g.pending = Some((n, content));
                }
            }
        }
    }

    /// RevokeCommitmentTx{k} asks for revoke_previous_holder_commitment(k + 1): the API-level
    /// request revoke(n) is the message with k = n - 1.
    fn do_revoke(&mut self, i: usize, n: u64, so: &mut StepOut) {
        if n == 0 {
            so.notes.push("nomsg:revoke(0)".into());
            return;
        }
        let next = self.next_num();
        let (res, _seen) = self.exchange(i, To::Chan(self.ci), "RevokeCommitmentTx", Message::RevokeCommitmentTx(msgs::RevokeCommitmentTx { commitment_number: n - 1 }), so);
        so.tag = res.tag();
        so.err = short_err(&res.err_msg());
        if res.is_ok() && n == next {
            if let Some((pn, pc)) = self.g.pending.take() {
                if pn == n && self.next_num() == n + 1 {
                    self.g.current = Some(pc);
                } else {
                    self.g.pending = Some((pn, pc));
                }
            }
        }
    }

    fn step_inner(&mut self, i: usize, op: &Op) -> StepOut {
        let v = self.w.version;
        let next = self.next_num();
        let mut so = StepOut::new();
        let ci = self.ci;
        match op {
            Op::Validate { d, c, sig, phase1 } => {
                so.kind = "validate";
                let Some(n) = Self::num(next, *d) else { return so };
                let content = resolve_content_for(&self.w.chans[ci], &self.g, n, c);
                self.do_validate(i, n, content, *sig, *phase1, &mut so);
            }
            Op::Revoke { d } => {
                so.kind = "revoke";
                let Some(n) = Self::num(next, *d) else { return so };
                self.do_revoke(i, n, &mut so);
            }
            Op::Activate => {
                // no activation message: commitment 0 is activated by its validation request
                so.kind = "activate";
                let content = resolve_content_for(&self.w.chans[ci], &self.g, 0, &CSel::Same);
                self.do_validate(i, 0, content, SigKind::Valid, false, &mut so);
            }
            Op::GetPoint { d } => {
                so.kind = "get_point";
                let Some(n) = Self::num(next, *d) else { return so };
                let (r1, _) = self.exchange(i, To::Chan(ci), "GetPerCommitmentPoint", Message::GetPerCommitmentPoint(msgs::GetPerCommitmentPoint { commitment_number: n }), &mut so);
                so.tag = r1.tag();
                if self.dead {
                    return so;
                }
                let (r2, _) = self.exchange(i, To::Chan(ci), "GetPerCommitmentPoint2", Message::GetPerCommitmentPoint2(msgs::GetPerCommitmentPoint2 { commitment_number: n }), &mut so);
                if r2.is_panic() {
                    so.tag = "panic";
                }
            }
            Op::GetSecret { d } | Op::SecretOrNone { d } => {
                // no message asks for a secret by number: the old protocol's point request for
                // n+2 is the request that returns secret n
                so.kind = if matches!(op, Op::GetSecret { .. }) { "get_secret" } else { "secret_or_none" };
                let Some(n) = Self::num(next, *d) else { return so };
                let (r, _) = self.exchange(i, To::Chan(ci), "GetPerCommitmentPoint", Message::GetPerCommitmentPoint(msgs::GetPerCommitmentPoint { commitment_number: n + 2 }), &mut so);
                so.tag = r.tag();
            }
            Op::CheckFuture { d, right } => {
                so.kind = "check_future";
                let Some(n) = Self::num(next, *d) else { return so };
                let sec = if *right { self.w.chans[ci].holder_secret(n) } else { [7u8; 32] };
                let (r, _) = self.exchange(i, To::Chan(ci), "CheckFutureSecret", Message::CheckFutureSecret(msgs::CheckFutureSecret { commitment_number: n, secret: DisclosedSecret(sec) }), &mut so);
                so.tag = r.tag();
            }
            Op::SignHolder { d } => {
                so.kind = "sign_holder";
                let Some(n) = Self::num(next.saturating_sub(1), *d) else { return so };
                let (r, seen) = self.exchange(i, To::Chan(ci), "SignLocalCommitmentTx2", Message::SignLocalCommitmentTx2(msgs::SignLocalCommitmentTx2 { commitment_number: n }), &mut so);
                so.tag = r.tag();
                if let Some(sig) = seen.signature {
                    self.note_sig(i, n, &sig, &mut so);
                }
            }
            Op::SignRecovery => {
                // no recovery message: the closest is CLN's SignCommitmentTx (root handler) for
                // the current commitment
                so.kind = "sign_recovery";
                let n = next.saturating_sub(1);
                let content = resolve_content_for(&self.w.chans[ci], &self.g, n, &CSel::Same);
                self.do_sign_commitment_tx(i, n, &content, &mut so);
            }
            Op::SignRedundant { d, c } => {
                // the redundant request carries the commitment again: CLN's SignCommitmentTx
                so.kind = "sign_redundant";
                let Some(n) = Self::num(next.saturating_sub(1), *d) else { return so };
                let content = resolve_content_for(&self.w.chans[ci], &self.g, n, c);
                self.do_sign_commitment_tx(i, n, &content, &mut so);
            }
            Op::StubProbe { n } => {
                so.kind = "stub_probe";
                self.do_stub_probe(*n as u64, &mut so);
            }
            Op::Advance { c, phase1 } => {
                // the protocol's normal step.  Below version 5 and for number 0 it is a single
                // request; from version 5 on ValidateCommitmentTx then RevokeCommitmentTx.
                let mut a = self.step_inner(i, &Op::Validate { d: 0, c: c.clone(), sig: SigKind::Valid, phase1: *phase1 });
                a.req = "validate";
                if self.dead {
                    return a;
                }
                if v < msgs::PROTOCOL_VERSION_REVOKE || next == 0 {
                    a.kind = "advance";
                    return a;
                }
                let mut b = self.step_inner(i, &Op::Revoke { d: 0 });
                b.req = "revoke";
                b.kind = "advance";
                b.accepted_invalid_sig = a.accepted_invalid_sig;
                if b.point_mismatch.is_none() {
                    b.point_mismatch = a.point_mismatch.clone();
                }
                let mut notes = a.notes;
                notes.extend(b.notes.drain(..));
                b.notes = notes;
                for n in a.disclosed {
                    if !b.disclosed.contains(&n) {
                        b.disclosed.push(n);
                    }
                }
                return b;
            }
            Op::StorageFault => {
                // the protocol world has its own persister: not injected here
                so.kind = "storage-fault";
                so.tag = "skip";
            }
            Op::Restart => {
                so.kind = "restart";
                let r = self.w.restart();
                so.tag = r.tag();
                if !r.is_ok() {
                    self.dead = true;
                }
            }
        }
        so
    }

    /// CLN's SignCommitmentTx on the root handler: carries the transaction (non-zero locktime,
    /// else the handler takes it for a mutual close), its PSBT and the commitment number.
    fn do_sign_commitment_tx(&mut self, i: usize, n: u64, content: &Content, so: &mut StepOut) {
        let chan = &self.w.chans[self.ci];
        let ctx = chan.ref_holder_commitment(&self.w.secp, n, content);
        let tx = ctx.trust().built_transaction().transaction.clone();
        assert_ne!(tx.lock_time.to_consensus_u32(), 0);
        let ws = witscripts(chan, &self.w.secp, &ctx, true);
        let msg = Message::SignCommitmentTx(msgs::SignCommitmentTx {
            peer_id: PubKey(peer_id(chan.spec.peer)),
            dbid: chan.spec.dbid,
            psbt: WithSize(psbt_with_witscripts(&tx, &ws)),
            tx: WithSize(tx),
            remote_funding_key: pk(&chan.setup.counterparty_points.funding_pubkey),
            commitment_number: n,
        });
        let (r, seen) = self.exchange(i, To::Root, "SignCommitmentTx", msg, so);
        so.tag = r.tag();
        if let Some(sig) = seen.signature {
            self.note_sig(i, n, &sig, so);
        }
    }

    /// Every secret-bearing (and signing) message sent to the handler of a channel that is still
    /// a stub.  Any secret-typed field in a reply, or any true secret of the stub's seed
    /// anywhere in a reply, is a disclosure (sentinel number u64::MAX).
    fn do_stub_probe(&mut self, n: u64, so: &mut StepOut) {
        let si = self.stub;
        let v = self.w.version;
        let stub_secrets: Vec<[u8; 32]> = (0..=n + 6).map(|k| self.w.chans[si].holder_secret(k)).collect();
        let content = {
            let chan = &self.w.chans[si];
            finish_content(chan.spec.anchors, chan.setup.channel_value_sat, 1000, 0, vec![], vec![])
        };
        let vmsg = {
            let chan = &self.w.chans[si];
            let signed = chan.cp_sign_holder(&self.w.secp, n, &content, SigKind::Valid);
            validate_msg(chan, &self.w.secp, n, &content, &signed, false)
        };
        let msgs_: Vec<(&'static str, Message)> = vec![
            ("GetPerCommitmentPoint", Message::GetPerCommitmentPoint(msgs::GetPerCommitmentPoint { commitment_number: n })),
            ("GetPerCommitmentPoint", Message::GetPerCommitmentPoint(msgs::GetPerCommitmentPoint { commitment_number: n + 2 })),
            ("GetPerCommitmentPoint2", Message::GetPerCommitmentPoint2(msgs::GetPerCommitmentPoint2 { commitment_number: n })),
            ("RevokeCommitmentTx", Message::RevokeCommitmentTx(msgs::RevokeCommitmentTx { commitment_number: n })),
            ("ValidateCommitmentTx2", vmsg),
            ("SignLocalCommitmentTx2", Message::SignLocalCommitmentTx2(msgs::SignLocalCommitmentTx2 { commitment_number: n })),
            ("CheckFutureSecret", Message::CheckFutureSecret(msgs::CheckFutureSecret { commitment_number: n, secret: DisclosedSecret(stub_secrets[n as usize]) })),
        ];
        let mut any_ok = false;
        let mut leaked = false;
        for (name, m) in msgs_ {
            let r = self.w.request(To::Chan(si), m);
            so.notes.push(format!("msg:v{}:stub:{}:{}", v, name, r.tag()));
            match r {
                Out::Ok(rep) => {
                    any_ok = true;
                    if typed_secret_of(&rep).is_some() {
                        leaked = true;
                    }
                    let bytes = rep.as_vec();
                    if bytes.len() >= 32 && bytes.windows(32).any(|w| stub_secrets.iter().any(|s| &s[..] == w)) {
                        leaked = true;
                    }
                }
                Out::Err(_) => {}
                Out::Panic(_) => {
                    so.notes.push(format!("msg:v{}:stub:{}:PANIC", v, name));
                }
            }
        }
        so.tag = if any_ok { "ok" } else { "err" };
        if leaked {
            so.disclosed = vec![u64::MAX];
        }
    }
}

impl HistoryMachine for ProtoMachine {
    fn step(&mut self, i: usize, op: &Op) -> StepOut {
        let mut so = self.step_inner(i, op);
        if so.req.is_empty() {
            so.req = so.kind;
        }
        so
    }
    fn next(&self) -> u64 {
        self.next_num()
    }
    fn is_dead(&self) -> bool {
        self.dead
    }
    fn ghost(&self) -> &Ghost {
        &self.g
    }
    fn restarts(&self) -> u32 {
        self.w.restarts
    }
}
