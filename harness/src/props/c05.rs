//! C05 — accepted commitments satisfy every mandatory policy bound.
//!
//! accepted ⇒ ref_ok(policy, setup, chain, n, content): the reference predicate is written
//! from the property statement in 128-bit arithmetic; over-refusal is never a violation.

use crate::engine::*;
use crate::props::c05chain;
use crate::props::holder::short_err;
use crate::world::*;
use lightning_signer::bitcoin::secp256k1::{PublicKey, SecretKey};
use lightning_signer::bitcoin::Network;
use lightning_signer::channel::CommitmentType;
use lightning_signer::policy::filter::{FilterRule, PolicyFilter};
use lightning_signer::policy::onchain_validator::OnchainValidatorFactory;
use lightning_signer::policy::simple_validator::{make_default_simple_policy, SimplePolicy, SimpleValidatorFactory};
use lightning_signer::policy::validator::ValidatorFactory;
use proptest::prelude::*;
use serde::{Deserialize, Serialize};
use serde_json::json;
use std::sync::Arc;

/// a value chosen relative to a bound
#[derive(Clone, Debug, Serialize, Deserialize, PartialEq, Eq, Hash)]
pub enum Rel {
    Zero,
    Minus1,
    At,
    Plus1,
    Half,
    Double,
    Abs(u64),
}

impl Rel {
    fn of(&self, bound: u64) -> u64 {
        match self {
            Rel::Zero => 0,
            Rel::Minus1 => bound.saturating_sub(1),
            Rel::At => bound,
            Rel::Plus1 => bound.saturating_add(1),
            Rel::Half => bound / 2,
            Rel::Double => bound.saturating_mul(2),
            Rel::Abs(v) => *v,
        }
    }
    fn tag(&self) -> u8 {
        match self {
            Rel::Zero => 0,
            Rel::Minus1 => 1,
            Rel::At => 2,
            Rel::Plus1 => 3,
            Rel::Half => 4,
            Rel::Double => 5,
            Rel::Abs(_) => 6,
        }
    }
}

fn delay_rel_strat() -> impl Strategy<Value = Rel> {
    prop_oneof![12 => Just(Rel::At), 1 => Just(Rel::Minus1), 1 => Just(Rel::Plus1), 1 => Just(Rel::Zero), 1 => Just(Rel::Double)]
}

fn rel_strat() -> impl Strategy<Value = Rel> {
    prop_oneof![1 => Just(Rel::Zero), 3 => Just(Rel::Minus1), 4 => Just(Rel::At), 3 => Just(Rel::Plus1), 2 => Just(Rel::Half), 1 => Just(Rel::Double)]
}

#[derive(Clone, Debug, Serialize, Deserialize, PartialEq, Eq, Hash)]
pub struct Pol {
    pub min_delay: u16,
    pub max_delay: u16,
    pub max_channel_size_sat: u64,
    pub max_htlcs: u16,
    pub max_htlc_value_sat: u64,
    pub min_feerate: u32,
    pub max_feerate: u32,
    pub use_chain_state: bool,
    pub onchain: bool,
    /// exact tag demoted to a warning (explicit rule), if any
    pub warn_tag: Option<u8>,
}

const TAGS: [&str; 8] = [
    "policy-commitment-fee-range",
    "policy-commitment-outputs-trimmed",
    "policy-commitment-htlc-count-limit",
    "policy-commitment-htlc-inflight-limit",
    "policy-commitment-htlc-cltv-range",
    "policy-commitment-first-no-htlcs",
    "policy-commitment-initial-funding-value",
    "policy-funding-max",
];

#[derive(Clone, Debug, Serialize, Deserialize, PartialEq, Eq, Hash)]
pub struct HGen {
    pub offered: bool,
    pub h: u8,
    /// value relative to this HTLC's trim limit, or absolute
    pub val: Rel,
    pub cltv: CltvSel,
}

#[derive(Clone, Debug, Serialize, Deserialize, PartialEq, Eq, Hash)]
pub enum CltvSel {
    Mid,
    LowMinus1,
    Low,
    High,
    HighPlus1,
    MaxMinus1,
    Max,
    Zero,
    /// an in-range distance plus k * 2^16 blocks (far outside the window; catches arithmetic on
    /// the distance in a narrower type)
    MidPlusWrap16(u8),
    /// already expired: d blocks below the current height
    Past(u8),
}

#[derive(Clone, Debug, Serialize, Deserialize, PartialEq, Eq, Hash)]
pub enum FeeSel {
    /// fee = floor(rate * weight / 1000) for rate relative to min/max
    RateMin(Rel),
    RateMax(Rel),
    /// arithmetic candidates: rate = k * 2^32 + r
    Rate2Pow32 { k: u8, r: u32 },
    /// fee such that fee*1000 wraps u64
    WrapU64 { r: u32 },
    /// negative fee: outputs exceed the channel value by d
    Negative(u32),
}

#[derive(Clone, Debug, Serialize, Deserialize, PartialEq, Eq, Hash)]
pub enum Entry {
    HolderPhase2,
    HolderPhase1,
    CpPhase2,
    CpPhase1,
}

#[derive(Clone, Debug, Serialize, Deserialize)]
pub struct Case {
    pub pol: Pol,
    pub ctype: u8,
    pub outbound: bool,
    pub holder_delay: Rel,
    pub holder_delay_of_max: bool,
    pub cp_delay: Rel,
    pub cp_delay_of_max: bool,
    pub value: ValueSel,
    pub push: Rel,
    /// request: commitment number 0 or 1
    pub n1: bool,
    pub entry: Entry,
    /// to-counterparty / minor output relative to the dust limit (354)
    pub minor: Rel,
    pub minor_is_holder: bool,
    pub fee: FeeSel,
    pub feerate_arg: u32,
    pub htlcs: Vec<HGen>,
    /// add HTLCs until the count is max_htlcs + this (when small)
    pub count_rel: Option<Rel>,
    /// scale HTLC values so that the sum is max_htlc_value relative
    pub inflight_rel: Option<Rel>,
    /// blocks connected between NewChannel and SetupChannel, and between SetupChannel and the
    /// request: the height HTLC expiries are measured against is the tip's at the request
    #[serde(default)]
    pub blocks: (u8, u8),
}

#[derive(Clone, Debug, Serialize, Deserialize, PartialEq, Eq, Hash)]
pub enum ValueSel {
    Normal,
    MaxSize(Rel),
    Big10,
    Pow40,
    Pow63,
    NearMax,
}

fn pol_strat() -> impl Strategy<Value = Pol> {
    (
        prop_oneof![Just(4u16), Just(5u16), Just(144u16)],
        prop_oneof![Just(2u16), Just(900u16), Just(2016u16)],
        prop_oneof![3 => Just(1_000_000_001u64), 1 => Just(100_000u64), 2 => Just(1u64 << 40), 1 => Just(u64::MAX)],
        prop_oneof![1 => Just(0u16), 2 => Just(1u16), 2 => Just(2u16), 2 => Just(3u16), 6 => Just(1000u16)],
        prop_oneof![1 => Just(0u64), 2 => Just(10_000u64), 2 => Just(50_000u64), 6 => Just(16_777_216u64), 2 => Just(1u64 << 40)],
        prop_oneof![1 => Just(0u32), 3 => Just(253u32), 1 => Just(1000u32)],
        prop_oneof![1 => Just(0u32), 1 => Just(5000u32), 3 => Just(333_333u32), 1 => Just(u32::MAX)],
        any::<bool>(),
        prop::bool::weighted(0.15),
        prop_oneof![9 => Just(None), 1 => (0u8..8).prop_map(Some)],
    )
        .prop_map(|(min_delay, dmax, max_channel_size_sat, max_htlcs, max_htlc_value_sat, min_feerate, maxf, use_chain_state, onchain, warn_tag)| Pol {
            min_delay,
            max_delay: if dmax == 2 { min_delay + 2 } else { dmax.max(min_delay) },
            max_channel_size_sat,
            max_htlcs,
            max_htlc_value_sat,
            min_feerate,
            max_feerate: if maxf == 0 { min_feerate } else { maxf.max(min_feerate) },
            use_chain_state,
            onchain,
            warn_tag,
        })
}

fn cltv_strat() -> impl Strategy<Value = CltvSel> {
    prop_oneof![
        6 => Just(CltvSel::Mid), 1 => Just(CltvSel::LowMinus1), 1 => Just(CltvSel::Low), 1 => Just(CltvSel::High), 1 => Just(CltvSel::HighPlus1),
        1 => Just(CltvSel::MaxMinus1), 1 => Just(CltvSel::Max), 1 => Just(CltvSel::Zero),
        1 => (1u8..4).prop_map(CltvSel::MidPlusWrap16), 1 => prop_oneof![Just(1u8), Just(2u8), Just(144u8)].prop_map(CltvSel::Past),
    ]
}

fn hgen_strat() -> impl Strategy<Value = HGen> {
    (any::<bool>(), 0u8..4, prop_oneof![3 => rel_strat(), 3 => Just(Rel::Abs(10_000)), 1 => Just(Rel::Abs(5_000_000))], cltv_strat())
        .prop_map(|(offered, h, val, cltv)| HGen { offered, h, val, cltv })
}

fn fee_strat() -> impl Strategy<Value = FeeSel> {
    prop_oneof![
        5 => rel_strat().prop_map(FeeSel::RateMin),
        5 => rel_strat().prop_map(FeeSel::RateMax),
        3 => Just(FeeSel::RateMin(Rel::Abs(1000))),
        3 => (1u8..4, prop_oneof![Just(0u32), Just(253u32), Just(1000u32), Just(333_333u32), any::<u32>()]).prop_map(|(k, r)| FeeSel::Rate2Pow32 { k, r }),
        1 => any::<u32>().prop_map(|r| FeeSel::WrapU64 { r }),
        1 => (1u32..100_000).prop_map(FeeSel::Negative),
    ]
}

fn value_strat() -> impl Strategy<Value = ValueSel> {
    prop_oneof![
        12 => Just(ValueSel::Normal), 3 => rel_strat().prop_map(ValueSel::MaxSize), 2 => Just(ValueSel::Big10), 2 => Just(ValueSel::Pow40),
        1 => Just(ValueSel::Pow63), 1 => Just(ValueSel::NearMax),
    ]
}

fn entry_strat() -> impl Strategy<Value = Entry> {
    prop_oneof![3 => Just(Entry::HolderPhase2), 2 => Just(Entry::HolderPhase1), 3 => Just(Entry::CpPhase2), 2 => Just(Entry::CpPhase1)]
}

fn ctype_of(i: u8) -> CommitmentType {
    match i % 16 {
        0 => CommitmentType::Legacy,
        1 => CommitmentType::Anchors,
        2..=8 => CommitmentType::StaticRemoteKey,
        _ => CommitmentType::AnchorsZeroFeeHtlc,
    }
}

fn make_policy(p: &Pol) -> SimplePolicy {
    let mut pol = make_default_simple_policy(Network::Testnet);
    pol.min_delay = p.min_delay;
    pol.max_delay = p.max_delay;
    pol.max_channel_size_sat = p.max_channel_size_sat;
    pol.max_htlcs = p.max_htlcs as usize;
    pol.max_htlc_value_sat = p.max_htlc_value_sat;
    pol.min_feerate_per_kw = p.min_feerate;
    pol.max_feerate_per_kw = p.max_feerate;
    pol.use_chain_state = p.use_chain_state;
    pol.filter = match p.warn_tag {
        Some(t) => PolicyFilter { rules: vec![FilterRule::new_warn(TAGS[t as usize % 8])] },
        None => PolicyFilter::default(),
    };
    pol
}

/// The reference predicate.  Returns the tags of every bound the accepted commitment breaks.
#[allow(clippy::too_many_arguments)]
fn ref_bounds(
    p: &Pol,
    zero_fee_htlc: bool,
    anchors: bool,
    outbound: bool,
    push_msat: u64,
    value_sat: u64,
    n: u64,
    height: u32,
    is_cp_commitment: bool,
    // from the broadcaster's point of view
    to_broadcaster: u64,
    to_countersigner: u64,
    offered: &[(u64, u32)],
    received: &[(u64, u32)],
    feerate_arg: u32,
    // value going to the counterparty of the node
    to_counterparty_of_node: u64,
) -> Vec<&'static str> {
    let mut bad = vec![];
    let nh = offered.len() + received.len();
    // fee
    let sum: u128 = to_broadcaster as u128 + to_countersigner as u128 + offered.iter().chain(received.iter()).map(|h| h.0 as u128).sum::<u128>();
    let weight: u128 = if anchors { 1124 } else { 724 } + 172 * nh as u128;
    if sum > value_sat as u128 {
        bad.push("policy-commitment-fee-range");
    } else {
        let fee = value_sat as u128 - sum;
        let rate_floor = fee * 1000 / weight;
        // the documented check uses the highest rate that can give rise to the fee, which
        // exceeds the floor by at most 2
        if (p.max_feerate != u32::MAX && rate_floor > p.max_feerate as u128) || rate_floor + 2 < p.min_feerate as u128 {
            bad.push("policy-commitment-fee-range");
        }
    }
    // dust
    if (to_broadcaster > 0 && to_broadcaster < 330) || (to_countersigner > 0 && to_countersigner < 330) {
        bad.push("policy-commitment-outputs-trimmed");
    }
    let off_lim: u128 = if zero_fee_htlc { 330 } else { 330 + feerate_arg as u128 * 663 / 1000 };
    let rcv_lim: u128 = if zero_fee_htlc { 330 } else { 330 + feerate_arg as u128 * 703 / 1000 };
    if offered.iter().any(|h| (h.0 as u128) < off_lim) || received.iter().any(|h| (h.0 as u128) < rcv_lim) {
        if !bad.contains(&"policy-commitment-outputs-trimmed") {
            bad.push("policy-commitment-outputs-trimmed");
        }
    }
    if nh > p.max_htlcs as usize {
        bad.push("policy-commitment-htlc-count-limit");
    }
    let hsum: u128 = offered.iter().chain(received.iter()).map(|h| h.0 as u128).sum();
    if hsum > p.max_htlc_value_sat as u128 {
        bad.push("policy-commitment-htlc-inflight-limit");
    }
    for h in offered.iter().chain(received.iter()) {
        let mut out = h.1 >= 500_000_000;
        if p.use_chain_state {
            if (h.1 as u64) < height as u64 + p.min_delay as u64 || (h.1 as u64) > height as u64 + p.max_delay as u64 {
                out = true;
            }
        }
        if out && !bad.contains(&"policy-commitment-htlc-cltv-range") {
            bad.push("policy-commitment-htlc-cltv-range");
        }
    }
    if n == 0 {
        if nh > 0 {
            bad.push("policy-commitment-first-no-htlcs");
        }
        if outbound && to_counterparty_of_node > push_msat / 1000 {
            bad.push("policy-commitment-initial-funding-value");
        }
    }
    if is_cp_commitment && value_sat > p.max_channel_size_sat {
        bad.push("policy-funding-max");
    }
    bad
}

/// A C05 case is either a bounds case (this module) or a chain history (`c05chain`).  Untagged:
/// a bounds case serialises exactly as before, so older replay files still load.
#[derive(Clone, Debug, Serialize, Deserialize)]
#[serde(untagged)]
pub enum Case5 {
    Bounds(Case),
    Chain(c05chain::Case),
    Wire(WireCase),
}

/// Wire group: an outbound channel opened through the protocol handlers with a push value, then
/// the initial commitments requested with a fundee's share at or above the push: the initial
/// commitment may give the fundee the pushed value and no more.
#[derive(Clone, Debug, Serialize, Deserialize)]
pub struct WireCase {
    pub wire_version: u8,
    pub anchors: bool,
    pub push_sat: u32,
    /// how much more than the push the fundee gets in the requested commitment 0
    pub over_sat: u32,
    /// request: counterparty commitment (SignRemoteCommitmentTx2) or holder commitment (ValidateCommitmentTx2)
    pub holder_side: bool,
}

pub struct C05;

impl Prop for C05 {
    type Case = Case5;
    fn id(&self) -> &'static str {
        "C05"
    }
    fn rule(&self) -> String {
        let bounds = "Bounds group (about 70 % of the cases): generated policy (delay range, max channel size up to 2^40/u64::MAX, HTLC count and in-flight limits incl. 0, fee-rate range incl. \
         0 and u32::MAX, chain-state use, simple or on-chain validator, optionally one exact tag demoted to a warning) x channel setup (all \
         four commitment types, both contest delays at bound-1/bound/bound+1 of min or max, channel value normal / around the maximum size / \
         1e10 / 2^40 / 2^63 / near u64::MAX, push value) x one commitment request (holder or counterparty, phase 1 or 2, number 0 or 1) whose \
         content puts each bounded quantity at bound-1/bound/bound+1: minor output around the dust limit, implied fee from a rate relative to \
         min/max or an arithmetic candidate (k*2^32+r per kw, fee*1000 wrapping u64, negative fee), HTLC values around their trim limit, HTLC \
         count around max_htlcs, in-flight sum around the limit, expiries around height+min/max delay and 500000000. Oracle: acceptance \
         (setup or commitment) implies the reference predicate written from the property statement in u128; a refusal is never judged. \
         Non-trivial: accepted requests with a quantity within +-1 of its bound or an arithmetic candidate; distinct by (entry, number, \
         which quantities at which side of their bound).";
        format!("{}  {}", bounds, c05chain::rule_text())
    }
    fn assumptions(&self) -> Vec<String> {
        let mut v: Vec<String> = vec![
            "dust limit taken as 330 sat (the weakest BOLT-3 value; the code uses 354 for main outputs) so the oracle never demands more than the property".into(),
            "implied fee rate compared with a tolerance of +2 per kw below the minimum (the documented check rounds the rate up)".into(),
            "bounds group: no blocks are connected, so with the on-chain validator every request for a number > 0 must be refused there; the confirmed, closed and reorged states are reached by the chain group".into(),
        ];
        v.extend(c05chain::assumptions());
        v
    }
    fn cases(&self, tier: Tier) -> u32 {
        tier.pick(4000, 30_000)
    }
    fn min_nontrivial(&self, tier: Tier) -> usize {
        tier.pick(200, 2000)
    }
    fn strategy(&self, tier: Tier) -> BoxedStrategy<Case5> {
        // debug knob: VERIF_C05_ONLY=chain|bounds restricts the generator to one group
        let bounds = bounds_strategy().prop_map(Case5::Bounds);
        let chain = c05chain::strategy(tier).prop_map(Case5::Chain);
        match std::env::var("VERIF_C05_ONLY").unwrap_or_default().as_str() {
            "chain" => chain.boxed(),
            "bounds" => bounds.boxed(),
            _ => {
                let wire = (4u8..7, any::<bool>(), prop_oneof![Just(0u32), Just(500u32), Just(1000u32), Just(20_000u32)], prop_oneof![2 => Just(0u32), 1 => Just(1u32), 1 => Just(999u32), 2 => Just(400_000u32)], any::<bool>())
                    .prop_map(|(wire_version, anchors, push_sat, over_sat, holder_side)| Case5::Wire(WireCase { wire_version, anchors, push_sat, over_sat, holder_side }));
                prop_oneof![14 => bounds, 6 => chain, 1 => wire].boxed()
            }
        }
    }

    fn fixed_cases(&self) -> Vec<Case5> {
        // debug knob (sensitivity runs): VERIF_C05_NOFIXED leaves the detection to the random histories
        if std::env::var("VERIF_C05_NOFIXED").is_ok() {
            return vec![];
        }
        c05chain::fixed_cases().into_iter().map(Case5::Chain).collect()
    }

    fn run(&self, case: &Case5, st: &mut CaseStats, ctx: &Ctx) -> Result<(), Violation> {
        match case {
            Case5::Bounds(c) => {
                st.class("group:bounds");
                run_bounds(c, st, ctx)
            }
            Case5::Chain(c) => {
                st.class("group:chain");
                c05chain::run(c, st, ctx)
            }
            Case5::Wire(c) => {
                st.class("group:wire");
                run_wire(c, st, ctx)
            }
        }
    }
}

fn run_wire(c: &WireCase, st: &mut CaseStats, ctx: &Ctx) -> Result<(), Violation> {
    use crate::props::holder::finish_content;
    use crate::props::proto::{validate_msg, Negotiation, ProtoWorld, To};
    use vls_protocol::model::PubKey;
    use vls_protocol::msgs::{self, Message};
    let version = 4 + (c.wire_version % 3) as u32;
    let mut pw = ProtoWorld::new(WorldCfg::default_testnet(), version, Negotiation::SignerCap);
    // judged by the signer's answers, not by a comparison of the stored setup
    pw.check_setup = false;
    let value = 1_000_000u64;
    let mut spec = ChanSpec::basic(1);
    spec.anchors = c.anchors;
    spec.outbound = true;
    spec.value_sat = value;
    spec.push_msat = c.push_sat as u64 * 1000;
    let ci = match pw.new_stub(&spec) {
        Out::Ok(i) => i,
        _ => return Ok(()),
    };
    let r = pw.setup_chan(ci);
    st.class(format!("wire:setup:{}", r.tag()));
    if !r.is_ok() {
        return Ok(());
    }
    let secp = pw.secp.clone();
    let to_cp = c.push_sat as u64 + c.over_sat as u64;
    let c0 = finish_content(c.anchors, value, 1000, to_cp, vec![], vec![]);
    let rep = if c.holder_side {
        let signed = pw.chans[ci].cp_sign_holder(&secp, 0, &c0, SigKind::Valid);
        let vm = validate_msg(&pw.chans[ci], &secp, 0, &c0, &signed, false);
        pw.request(To::Chan(ci), vm)
    } else {
        let p0 = pw.chans[ci].cp.point(&secp, 0);
        pw.request(To::Chan(ci), Message::SignRemoteCommitmentTx2(msgs::SignRemoteCommitmentTx2 {
            remote_per_commitment_point: PubKey(p0.serialize()),
            commitment_number: 0,
            feerate: c0.feerate,
            to_local_value_sat: c0.to_holder,
            to_remote_value_sat: c0.to_cp,
            htlcs: vls_protocol::serde_bolt::Array(vec![]),
        }))
    };
    let side = if c.holder_side { "holder" } else { "counterparty" };
    st.class(format!("wire:initial-{}:over{}:{}", side, if c.over_sat == 0 { "0" } else { "+" }, rep.tag()));
    st.sample = Some(json!({"wire": c, "result": rep.tag(), "err": rep.err_msg()}));
    if rep.is_ok() && c.over_sat > 0 {
        return ctx.report(st, Violation::new(
            format!("C05:wire:initial-commitment-overpays-fundee:{}", side),
            format!("channel opened over the wire (protocol v{}) with a push of {} sat; the initial {} commitment giving the fundee {} sat was accepted", version, c.push_sat, side, to_cp),
        ));
    }
    st.nontrivial_shape(("wire", c.holder_side, c.push_sat, c.over_sat, rep.is_ok(), c.anchors, version));
    Ok(())
}

fn bounds_strategy() -> BoxedStrategy<Case> {
        (
            (pol_strat(), any::<u8>(), any::<bool>(), delay_rel_strat(), any::<bool>(), delay_rel_strat(), any::<bool>(), value_strat()),
            (prop_oneof![4 => Just(Rel::Zero), 1 => Just(Rel::Abs(20_000_000)), 1 => Just(Rel::Abs(u64::MAX))], any::<bool>(), entry_strat()),
            (prop_oneof![3 => Just(Rel::Zero), 4 => rel_strat(), 2 => Just(Rel::Abs(20_000))], any::<bool>(), fee_strat(), prop_oneof![1 => Just(0u32), 1 => Just(253u32), 3 => Just(1000u32), 1 => Just(5000u32), 1 => Just(u32::MAX)]),
            (proptest::collection::vec(hgen_strat(), 0..4), prop_oneof![4 => Just(None), 1 => rel_strat().prop_map(Some)], prop_oneof![4 => Just(None), 1 => rel_strat().prop_map(Some)], (prop_oneof![3 => Just(0u8), 1 => Just(1u8), 1 => Just(5u8)], prop_oneof![3 => Just(0u8), 1 => Just(3u8)])),
        )
            .prop_map(|((pol, ctype, outbound, holder_delay, hdm, cp_delay, cdm, value), (push, n1, entry), (minor, minor_is_holder, fee, feerate_arg), (htlcs, count_rel, inflight_rel, blocks))| Case {
                blocks,
                pol, ctype, outbound, holder_delay, holder_delay_of_max: hdm, cp_delay, cp_delay_of_max: cdm, value, push, n1, entry, minor, minor_is_holder, fee, feerate_arg, htlcs, count_rel, inflight_rel,
            })
            .boxed()
}

fn run_bounds(case: &Case, st: &mut CaseStats, ctx: &Ctx) -> Result<(), Violation> {
    {
        let p = &case.pol;
        let policy = make_policy(p);
        let mut cfg = WorldCfg::default_testnet();
        cfg.policy = policy.clone();
        let simple = SimpleValidatorFactory::new_with_policy(policy);
        let vf: Arc<dyn ValidatorFactory> = if p.onchain { Arc::new(OnchainValidatorFactory::new_with_simple_factory(simple)) } else { Arc::new(simple) };
        let mut w = World::new_with_factory(cfg, vf);
        let ctype = ctype_of(case.ctype);
        let anchors = matches!(ctype, CommitmentType::Anchors | CommitmentType::AnchorsZeroFeeHtlc);
        let zero_fee = matches!(ctype, CommitmentType::AnchorsZeroFeeHtlc);
        let value: u64 = match &case.value {
            ValueSel::Normal => 3_000_000u64.min(p.max_channel_size_sat),
            ValueSel::MaxSize(r) => r.of(p.max_channel_size_sat).max(100_000),
            ValueSel::Big10 => 10_000_000_000,
            ValueSel::Pow40 => 1 << 40,
            ValueSel::Pow63 => 1 << 63,
            ValueSel::NearMax => u64::MAX / 1000 - 7,
        };
        let hd = case.holder_delay.of(if case.holder_delay_of_max { p.max_delay as u64 } else { p.min_delay as u64 }).min(65535) as u16;
        let cd = case.cp_delay.of(if case.cp_delay_of_max { p.max_delay as u64 } else { p.min_delay as u64 }).min(65535) as u16;
        let push_msat = case.push.of(0);
        let spec = ChanSpec { dbid: 1, peer: 1, anchors, outbound: case.outbound, value_sat: value, push_msat, holder_delay: hd, cp_delay: cd, funding_vout: 0 };
        let ci = match w.new_stub(&spec) {
            Out::Ok(i) => i,
            _ => return Ok(()),
        };
        w.chans[ci].setup.commitment_type = ctype;
        if case.blocks.0 > 0 {
            crate::chainpool::connect_empty_blocks(&mut w, case.blocks.0 as u32, 1);
            st.class("blocks_between_new_and_setup");
        }
        let setup_res = w.setup_chan(ci);
        st.class(format!("setup:{}", setup_res.tag()));
        let warn = p.warn_tag.map(|t| TAGS[t as usize % 8]);
        if setup_res.is_ok() {
            // setup accepted => safe type and both delays within policy
            let safe = matches!(ctype, CommitmentType::StaticRemoteKey | CommitmentType::AnchorsZeroFeeHtlc);
            let d_ok = |d: u16| d >= p.min_delay && d <= p.max_delay;
            if !safe {
                return ctx.report(st, Violation::new("C05:setup:accepted-unsafe-commitment-type", format!("setup accepted with {:?}", ctype)));
            }
            if !d_ok(hd) || !d_ok(cd) {
                return ctx.report(st, Violation::new("C05:setup:accepted-contest-delay-out-of-range", format!("setup accepted with delays holder_selected={} counterparty_selected={} policy [{},{}]", hd, cd, p.min_delay, p.max_delay)));
            }
            let edge = |d: u16| d == p.min_delay || d == p.max_delay;
            if edge(hd) || edge(cd) {
                st.nontrivial_shape(("setup", hd == p.min_delay, hd == p.max_delay, cd == p.min_delay, cd == p.max_delay, case.ctype % 16));
            }
        } else {
            // a refused setup must not leave a usable channel behind: no commitment may be
            // accepted for parameters that were refused, and the same setup stays refused
            let secp = w.secp.clone();
            let p0 = w.chans[ci].cp.point(&secp, 0);
            let w0 = if anchors { 1124u64 } else { 724 };
            let rate0 = (p.min_feerate as u64).max(1).min(p.max_feerate as u64);
            let c0 = Content { feerate: rate0 as u32, to_holder: value.saturating_sub(rate0 * w0 / 1000).saturating_sub(if anchors { 660 } else { 0 }), to_cp: 0, offered: vec![], received: vec![] };
            let r = w.with_chan(ci, |ch| ch.sign_counterparty_commitment_tx_phase2(&p0, 0, c0.feerate, c0.to_holder, c0.to_cp, vec![], vec![]));
            st.class(format!("after-refused-setup:cp-sign:{}", r.tag()));
            if r.is_ok() {
                return ctx.report(st, Violation::new(
                    "C05:commitment-accepted-for-refused-setup",
                    format!("setup was refused ({}) but a counterparty commitment was then signed for the channel: type {:?} delays holder_selected={} counterparty_selected={} policy [{},{}]", setup_res.err_msg(), ctype, hd, cd, p.min_delay, p.max_delay),
                ));
            }
            let again = w.setup_chan(ci);
            st.class(format!("after-refused-setup:retry:{}", again.tag()));
            if again.is_ok() {
                return ctx.report(st, Violation::new(
                    "C05:setup:refused-then-accepted-on-retry",
                    format!("setup was refused ({}) and the identical request was accepted on retry: type {:?} delays {} {}", setup_res.err_msg(), ctype, hd, cd),
                ));
            }
            st.nontrivial_shape(("setup-refused", case.ctype % 16, hd < p.min_delay, hd > p.max_delay, cd < p.min_delay, cd > p.max_delay));
            return Ok(());
        }
        if case.blocks.1 > 0 {
            crate::chainpool::connect_empty_blocks(&mut w, case.blocks.1 as u32, 2);
            st.class("blocks_after_setup");
        }
        let height = w.node.get_tracker().height();
        let payee = PublicKey::from_secret_key(&w.secp, &SecretKey::from_slice(&[5u8; 32]).unwrap());
        for h in 0u8..4 {
            let _ = w.node.add_keysend(payee, phash(h), u64::MAX / 8);
        }
        let is_cp = matches!(case.entry, Entry::CpPhase1 | Entry::CpPhase2);
        let n: u64 = if case.n1 { 1 } else { 0 };
        let secp = w.secp.clone();

        // reach number 1 with a plain valid commitment 0
        if case.n1 {
            let w0 = if anchors { 1124u64 } else { 724 };
            let rate0 = (p.min_feerate as u64).max(1).min(p.max_feerate as u64);
            let fee0 = rate0 * w0 / 1000 + if anchors { 0 } else { 0 };
            let c0 = Content { feerate: 1000, to_holder: value.saturating_sub(fee0), to_cp: 0, offered: vec![], received: vec![] };
            if is_cp {
                let p0 = w.chans[ci].cp.point(&secp, 0);
                let r = w.with_chan(ci, |ch| ch.sign_counterparty_commitment_tx_phase2(&p0, 0, c0.feerate, c0.to_holder, c0.to_cp, vec![], vec![]));
                if !r.is_ok() {
                    st.class(format!("cannot-reach-n1:{}", r.tag()));
                    return Ok(());
                }
            } else {
                let signed = match call(|| Ok(w.chans[ci].cp_sign_holder(&secp, 0, &c0, SigKind::Valid))) {
                    Out::Ok(s) => s,
                    _ => return Ok(()),
                };
                let r = w.with_chan(ci, |ch| {
                    ch.validate_holder_commitment_tx_phase2(0, c0.feerate, c0.to_holder, c0.to_cp, vec![], vec![], &signed.commit_sig, &signed.htlc_sigs)?;
                    ch.activate_initial_commitment()
                });
                if !r.is_ok() {
                    st.class(format!("cannot-reach-n1:{}", r.tag()));
                    return Ok(());
                }
            }
        }

        // --- build the content under test ---
        let off_lim = |fr: u32| if zero_fee { 354u64 } else { 330 + fr as u64 * 663 / 1000 };
        let rcv_lim = |fr: u32| if zero_fee { 354u64 } else { 330 + fr as u64 * 703 / 1000 };
        let cl = |c: &CltvSel| -> u32 {
            let lo = height.saturating_add(p.min_delay as u32);
            let hi = height.saturating_add(p.max_delay as u32);
            match c {
                CltvSel::Mid => lo + (hi - lo) / 2,
                CltvSel::LowMinus1 => lo.saturating_sub(1),
                CltvSel::Low => lo,
                CltvSel::High => hi,
                CltvSel::HighPlus1 => hi + 1,
                CltvSel::MaxMinus1 => 499_999_999,
                CltvSel::Max => 500_000_000,
                CltvSel::Zero => 0,
                CltvSel::MidPlusWrap16(k) => (lo + (hi - lo) / 2).saturating_add(*k as u32 * 65_536).min(499_999_999),
                CltvSel::Past(d) => height.saturating_sub(*d as u32),
            }
        };
        // HTLCs from the node's point of view (offered = outgoing)
        let mut hs: Vec<(bool, Htlc)> = vec![];
        for g in case.htlcs.iter() {
            // which limit applies depends on who broadcasts: offered-by-broadcaster uses the timeout weight
            let offered_by_broadcaster = g.offered != is_cp;
            let lim = if offered_by_broadcaster { off_lim(case.feerate_arg) } else { rcv_lim(case.feerate_arg) };
            let sat = match &g.val {
                Rel::Abs(v) => *v,
                r => r.of(lim),
            };
            hs.push((g.offered, Htlc { h: if g.offered { g.h & 1 } else { (g.h & 1) | 2 }, sat, cltv: cl(&g.cltv) }));
        }
        if let Some(r) = &case.count_rel {
            let target = r.of(p.max_htlcs as u64).min(6) as usize;
            // every second case fills up with identical HTLCs (equal parts of one payment): limits
            // count entries, not distinct entries
            let dup_fill = case.feerate_arg % 2 == 1;
            if dup_fill {
                st.class("filled_with_identical_htlcs");
            }
            while hs.len() < target {
                let k = hs.len() as u8;
                if dup_fill {
                    hs.push((true, Htlc { h: 0, sat: 20_000, cltv: cl(&CltvSel::Mid) }));
                } else {
                    hs.push((k % 2 == 0, Htlc { h: if k % 2 == 0 { 0 } else { 2 }, sat: 20_000 + k as u64, cltv: cl(&CltvSel::Mid) }));
                }
            }
            hs.truncate(target);
        }
        if let Some(r) = &case.inflight_rel {
            if !hs.is_empty() {
                let target = r.of(p.max_htlc_value_sat);
                let others: u64 = hs.iter().skip(1).map(|h| h.1.sat).fold(0u64, |a, b| a.saturating_add(b));
                hs[0].1.sat = target.saturating_sub(others);
            }
        }
        let offered: Vec<Htlc> = hs.iter().filter(|h| h.0).map(|h| h.1.clone()).collect();
        let received: Vec<Htlc> = hs.iter().filter(|h| !h.0).map(|h| h.1.clone()).collect();
        let nh = hs.len() as u64;
        let hsum: u64 = hs.iter().map(|h| h.1.sat).fold(0u64, |a, b| a.saturating_add(b));
        let minor = match &case.minor {
            Rel::Abs(v) => *v,
            r => r.of(354),
        };
        let weight = if anchors { 1124u64 } else { 724 } + 172 * nh;
        let (fee, arith): (Option<u64>, bool) = match &case.fee {
            FeeSel::RateMin(r) => (Some((r.of(p.min_feerate as u64) as u128 * weight as u128 / 1000).min(u64::MAX as u128) as u64), false),
            FeeSel::RateMax(r) => (Some((r.of(p.max_feerate as u64) as u128 * weight as u128 / 1000).min(u64::MAX as u128) as u64), false),
            FeeSel::Rate2Pow32 { k, r } => (Some((((*k as u128) << 32) + *r as u128) as u64 * weight / 1000 + 1), true),
            FeeSel::WrapU64 { r } => (Some(u64::MAX / 1000 + 1 + (*r as u64 % 1000) * weight / 1000), true),
            FeeSel::Negative(_) => (None, true),
        };
        let major = match (fee, &case.fee) {
            (Some(f), _) => match value.checked_sub(minor).and_then(|v| v.checked_sub(hsum)).and_then(|v| v.checked_sub(f)) {
                Some(m) => m,
                None => {
                    st.class("content-does-not-fit-channel-value");
                    return Ok(());
                }
            },
            (None, FeeSel::Negative(d)) => match value.checked_sub(minor).and_then(|v| v.checked_sub(hsum)).and_then(|v| v.checked_add(*d as u64)) {
                Some(m) => m,
                None => return Ok(()),
            },
            _ => unreachable!(),
        };
        let (to_holder, to_cp) = if case.minor_is_holder { (minor, major) } else { (major, minor) };
        let content = Content { feerate: case.feerate_arg, to_holder, to_cp, offered: offered.clone(), received: received.clone() };

        // --- issue the request ---
        let chan = &w.chans[ci];
        let res: Out<()> = match case.entry {
            Entry::HolderPhase2 | Entry::HolderPhase1 => {
                let signed = match call(|| Ok(chan.cp_sign_holder(&secp, n, &content, SigKind::Valid))) {
                    Out::Ok(s) => s,
                    _ => {
                        st.class("reference-builder-rejects-content");
                        return Ok(());
                    }
                };
                let (o, r) = (to_info2(&content.offered), to_info2(&content.received));
                if matches!(case.entry, Entry::HolderPhase2) {
                    w.with_chan(ci, |ch| ch.validate_holder_commitment_tx_phase2(n, content.feerate, content.to_holder, content.to_cp, o.clone(), r.clone(), &signed.commit_sig, &signed.htlc_sigs))
                } else {
                    let tx = signed.tx.trust().built_transaction().transaction.clone();
                    let ws = match call(|| Ok(witscripts(chan, &secp, &signed.tx, true))) {
                        Out::Ok(x) => x,
                        _ => return Ok(()),
                    };
                    w.with_chan(ci, |ch| ch.validate_holder_commitment_tx(&tx, &ws, n, content.feerate, o.clone(), r.clone(), &signed.commit_sig, &signed.htlc_sigs))
                }
            }
            Entry::CpPhase2 | Entry::CpPhase1 => {
                let point = chan.cp.point(&secp, n);
                let (cpo, cpr) = (to_info2(&content.received), to_info2(&content.offered));
                if matches!(case.entry, Entry::CpPhase2) {
                    w.with_chan(ci, |ch| ch.sign_counterparty_commitment_tx_phase2(&point, n, content.feerate, content.to_holder, content.to_cp, cpo.clone(), cpr.clone()).map(|_| ()))
                } else {
                    let reftx = match call(|| Ok(chan.ref_cp_commitment(&secp, n, &point, &content))) {
                        Out::Ok(t) => t,
                        _ => {
                            st.class("reference-builder-rejects-content");
                            return Ok(());
                        }
                    };
                    let tx = reftx.trust().built_transaction().transaction.clone();
                    let ws = match call(|| Ok(witscripts(chan, &secp, &reftx, false))) {
                        Out::Ok(x) => x,
                        _ => return Ok(()),
                    };
                    w.with_chan(ci, |ch| ch.sign_counterparty_commitment_tx(&tx, &ws, &point, n, content.feerate, cpo.clone(), cpr.clone()).map(|_| ()))
                }
            }
        };
        let ename = match case.entry {
            Entry::HolderPhase2 => "holder-phase2",
            Entry::HolderPhase1 => "holder-phase1",
            Entry::CpPhase2 => "cp-phase2",
            Entry::CpPhase1 => "cp-phase1",
        };
        st.class(format!("{}:n{}:{}", ename, n, res.tag()));
        if std::env::var("VERIF_ERRCLASS").is_ok() && !res.is_ok() {
            st.class(format!("E:{}:{}", ename, short_err(&res.err_msg())));
        }
        st.sample = Some(json!({"case": case, "value": value, "content": content, "height": height, "result": res.tag()}));
        if !res.is_ok() {
            return Ok(());
        }
        // --- accepted: evaluate the reference predicate ---
        let (tb, tc, ob, rb): (u64, u64, Vec<(u64, u32)>, Vec<(u64, u32)>) = if is_cp {
            (to_cp, to_holder, received.iter().map(|h| (h.sat, h.cltv)).collect(), offered.iter().map(|h| (h.sat, h.cltv)).collect())
        } else {
            (to_holder, to_cp, offered.iter().map(|h| (h.sat, h.cltv)).collect(), received.iter().map(|h| (h.sat, h.cltv)).collect())
        };
        let mut bad = ref_bounds(p, zero_fee, anchors, case.outbound, push_msat, value, n, height, is_cp, tb, tc, &ob, &rb, case.feerate_arg, to_cp);
        // phase-1 paths validate the channel size on holder commitments too; the property only
        // demands it for counterparty commitments
        if let Some(wt) = warn {
            bad.retain(|t| *t != wt);
        }
        if p.onchain && n > 0 {
            // no blocks were connected: the funding output is unconfirmed
            bad.push("policy-commitment-spends-active-utxo(unconfirmed-funding)");
        }
        if let Some(tag) = bad.first() {
            return ctx.report(st, Violation::new(
                format!("C05:{}:accepted-out-of-bounds:{}", ename, tag),
                format!("accepted although it breaks {:?}. policy={:?} type={:?} outbound={} value={} push_msat={} n={} height={} content={:?}", bad, p, ctype, case.outbound, value, push_msat, n, height, content),
            ));
        }
        // non-triviality: something within +-1 of a bound or an arithmetic candidate
        let near = |r: &Rel| matches!(r, Rel::Minus1 | Rel::At | Rel::Plus1);
        let fee_near = match &case.fee {
            FeeSel::RateMin(r) | FeeSel::RateMax(r) => near(r),
            _ => false,
        };
        let any_near = fee_near || arith || near(&case.minor) || case.count_rel.as_ref().map(near).unwrap_or(false) || case.inflight_rel.as_ref().map(near).unwrap_or(false)
            || case.htlcs.iter().any(|h| near(&h.val) || !matches!(h.cltv, CltvSel::Mid))
            || matches!(&case.value, ValueSel::MaxSize(r) if near(r));
        if any_near {
            st.class("accepted-at-a-bound-or-arithmetic-candidate");
            st.nontrivial_shape((ename, n, case.minor.tag(), format!("{:?}", case.fee).len(), nh, case.count_rel.as_ref().map(|r| r.tag()), case.inflight_rel.as_ref().map(|r| r.tag()), arith, p.use_chain_state));
        }
        Ok(())
    }
}
