//! C13 — the chain tracker follows only validated blocks and rejects atomically.
//!
//! Generator: histories of add / remove requests (compact, streamed, inline-block delivery) with
//! one injected fault each (plus independently varied attestation sets and difficulty bits) against
//! a real `ChainTracker<RecListener>` on regtest parameters, started at genesis, at synthetic tips
//! around the retarget boundary with a pre-filled header window (0..100), or at the mainnet /
//! testnet checkpoint (rejection paths only).
//!
//! Oracle: the harness knows by construction whether a request is valid:
//!   (1) `Ok` on a request with an injected fault that the property names
//!       => "C13:accepted-invalid:<link|pow|bits|retarget|proof|attestation|stream|prev-header>";
//!   (2) after any `Err` the full observable tracker state (tip, height, remembered headers, every
//!       listener's watch slot and the listener's own state incl. streamed-decode state) must equal
//!       the state before the request (before the first chunk for streamed delivery)
//!       => "C13:rejected-request-mutated-state:<add|remove|chunk-add|chunk-remove>:<changed>", where
//!       <changed> lists the components that differ (tip, height, headers, slot, listener-decode,
//!       listener) joined by '+'.  The injected fault is in the message, not in the signature: one
//!       root cause shows up under one signature whatever fault triggered the refusal, and a listed
//!       known finding cannot hide a different kind of damage;
//!   (3) a harness-valid request that is refused ("C13:valid-request-refused-after-rejection") or
//!       panics ("C13:valid-request-aborted-after-rejection") after an earlier rejection in the
//!       same history (state the snapshot cannot see, e.g. the tracker's private decode state).
//! A harness-valid request refused (or panicking) in a history without any earlier rejection is
//! treated as a harness modelling error (panic => INCONCLUSIVE), never as a violation.  A panic on
//! a request that is not harness-valid is neither acceptance nor refusal and ends the history.
//! After a *listed* known finding of kind (2)/(3) the history continues from a tracker restored
//! from the snapshot taken before the request (what the signer does after the handler's panic).
//!
//! Debug: VERIF_ERRCLASS=1 adds (fault, error) classes; VERIF_NO_FIXED=1 skips the fixed cases.

use crate::chainutil::*;
use crate::engine::*;
use lightning_signer::bitcoin::block::Header as BlockHeader;
use lightning_signer::bitcoin::hash_types::FilterHeader;
use lightning_signer::bitcoin::hashes::Hash;
use lightning_signer::bitcoin::key::Keypair;
use lightning_signer::bitcoin::secp256k1::PublicKey;
use lightning_signer::bitcoin::{Block, BlockHash, CompactTarget, Network, OutPoint, Target, Transaction, Txid};
use lightning_signer::chain::tracker::{ChainTracker, Headers};
use lightning_signer::policy::simple_validator::SimpleValidatorFactory;
use lightning_signer::policy::validator::ValidatorFactory;
use lightning_signer::txoo::proof::{ProofType, TxoProof};
use lightning_signer::txoo::SignedAttestation;
use proptest::prelude::*;
use serde::{Deserialize, Serialize};
use serde_json::json;
use std::collections::VecDeque;
use std::sync::Arc;

const DIFFCHANGE: u32 = 2016;
const MAX_WINDOW: usize = 100; // ChainTracker::MAX_REORG_SIZE without tracker_size_workaround
const HEIGHTS: [u32; 8] = [3, 2014, 2015, 2015, 2016, 4031, 6047, 150_000];
const WINDOWS: [usize; 8] = [0, 1, 2, 3, 6, 98, 99, 100];
const BURSTS: [usize; 7] = [1, 2, 3, 5, 10, 30, 101];

#[derive(Clone, Debug, Serialize, Deserialize, PartialEq)]
pub enum Start {
    /// `ChainTracker::from_genesis(Regtest)`: tip recorded with an all-zero filter header
    Genesis,
    /// synthetic regtest tip at HEIGHTS[height] with target max >> (2*diff) and WINDOWS[window]
    /// remembered headers (`ChainTracker::new` when the window is empty, `restore` otherwise);
    /// `zero_fh`: the tip is recorded without a filter header (the documented upgrade path)
    Synth { height: u8, diff: u8, window: u8, zero_fh: bool },
    /// `ChainTracker::for_network(Bitcoin | Testnet)`: nothing can be mined, rejections only
    Checkpoint { mainnet: bool },
}

#[derive(Clone, Debug, Serialize, Deserialize, PartialEq)]
pub enum Delivery {
    /// filter + SPV proof
    Compact,
    /// `block_chunk` calls (cut at the given byte offsets) + ExternalBlock proof
    Streamed { cuts: Vec<u16> },
    /// whole block inside the proof (refused by the tracker as unsupported)
    Inline,
}

#[derive(Clone, Debug, Serialize, Deserialize, PartialEq)]
pub enum Fault {
    None,
    /// add: previous-block hash is not the tip (0: grandparent, 1: unrelated)
    Link(u8),
    /// add: hash above the header's own target
    Pow,
    /// proof and attestations are for a sibling block
    ProofOtherBlock,
    /// attestations for height + 1
    ProofWrongHeight,
    /// attested filter header chained from another previous filter header (compact / inline)
    ProofWrongFilter,
    /// compact proof hides the transactions spending watched outpoints
    ProofOmitsSpend,
    /// streamed: the streamed block is a sibling of the block in the request
    StreamOtherBlock,
    /// remove: supplied previous block header is not the remembered one
    PrevHeader,
    /// remove: supplied previous filter header is not the remembered one
    PrevFilter,
    /// remove: supplied previous filter header is all zeroes (would select the upgrade bypass);
    /// only injected while a header is remembered
    PrevFilterZero,
}

/// Which oracles sign: trusted key i signs iff bit i of `mask`; `untrusted` extra signers;
/// `bad_sig`: the first attestation carries a signature made with a foreign key.
#[derive(Clone, Debug, Serialize, Deserialize, PartialEq)]
pub struct Att {
    pub mask: u8,
    pub untrusted: u8,
    pub bad_sig: bool,
    /// the last attestation of the list is repeated this many times (the same oracle's
    /// attestation listed more than once must still count as one oracle)
    #[serde(default)]
    pub dup: u8,
}

#[derive(Clone, Debug, Serialize, Deserialize, PartialEq)]
pub struct Content {
    /// selectors into the current forward watches: each selected outpoint is spent by one tx
    pub spend: Vec<u16>,
    /// a further tx in the same block spends output 0 of the first spending tx
    pub chain: bool,
    /// unrelated transactions
    pub noise: u8,
}

#[derive(Clone, Debug, Serialize, Deserialize, PartialEq)]
pub enum Op {
    Add { content: Content, delivery: Delivery, bits: i8, fault: Fault, att: Att },
    Remove { delivery: Delivery, fault: Fault, att: Att },
    /// BURSTS[n] valid compact adds
    AddBurst(u8),
    /// BURSTS[n] valid compact removes (stops at the first refusal)
    RemoveBurst(u8),
    /// snapshot + `ChainTracker::restore` (process restart)
    Restart,
}

#[derive(Clone, Debug, Serialize, Deserialize)]
pub struct Case {
    pub start: Start,
    pub oracles: u8,
    pub listeners: u8,
    pub allow_deep: bool,
    pub ops: Vec<Op>,
    /// Some((blocks, variant)): node-level scenario instead of the bare tracker: a real Node
    /// configured with one trusted oracle connects `blocks` attested blocks, is restarted from its
    /// store (variants 0, 1) and is then offered a block attested by an untrusted key only
    /// (variants 0, 2) or by the trusted oracle (variant 1)
    #[serde(default)]
    pub node_restore: Option<(u8, u8)>,
}

// ---------------------------------------------------------------------------------------------
// strategies

fn att_strat() -> impl Strategy<Value = Att> {
    prop_oneof![
        6 => (0u8..3).prop_map(|u| Att { mask: 7, untrusted: u, bad_sig: false, dup: 0 }),
        4 => (0u8..8, 0u8..3).prop_map(|(m, u)| Att { mask: m, untrusted: u, bad_sig: false, dup: 0 }),
        1 => (0u8..8, 0u8..3).prop_map(|(m, u)| Att { mask: m, untrusted: u, bad_sig: true, dup: 0 }),
        2 => (prop_oneof![Just(1u8), Just(2u8), Just(4u8), 0u8..8], 1u8..4).prop_map(|(m, d)| Att { mask: m, untrusted: 0, bad_sig: false, dup: d }),
    ]
}

fn delivery_strat() -> impl Strategy<Value = Delivery> {
    prop_oneof![
        6 => Just(Delivery::Compact),
        4 => proptest::collection::vec(any::<u16>(), 0..3).prop_map(|cuts| Delivery::Streamed { cuts }),
        1 => Just(Delivery::Inline),
    ]
}

fn content_strat() -> impl Strategy<Value = Content> {
    (proptest::collection::vec(any::<u16>(), 0..3), any::<bool>(), 0u8..3)
        .prop_map(|(spend, chain, noise)| Content { spend, chain, noise })
}

fn bits_strat() -> impl Strategy<Value = i8> {
    prop_oneof![7 => Just(0i8), 3 => -3i8..=3]
}

fn add_fault_strat() -> impl Strategy<Value = Fault> {
    prop_oneof![
        10 => Just(Fault::None),
        2 => (0u8..2).prop_map(Fault::Link),
        2 => Just(Fault::Pow),
        1 => Just(Fault::ProofOtherBlock),
        1 => Just(Fault::ProofWrongHeight),
        1 => Just(Fault::ProofWrongFilter),
        1 => Just(Fault::ProofOmitsSpend),
        1 => Just(Fault::StreamOtherBlock),
    ]
}

fn remove_fault_strat() -> impl Strategy<Value = Fault> {
    prop_oneof![
        8 => Just(Fault::None),
        2 => Just(Fault::PrevHeader),
        2 => Just(Fault::PrevFilter),
        1 => Just(Fault::PrevFilterZero),
        1 => Just(Fault::ProofOtherBlock),
        1 => Just(Fault::ProofWrongHeight),
        1 => Just(Fault::ProofWrongFilter),
        1 => Just(Fault::ProofOmitsSpend),
        1 => Just(Fault::StreamOtherBlock),
    ]
}

fn op_strat() -> impl Strategy<Value = Op> {
    prop_oneof![
        12 => (content_strat(), delivery_strat(), bits_strat(), add_fault_strat(), att_strat())
            .prop_map(|(content, delivery, bits, fault, att)| Op::Add { content, delivery, bits, fault, att }),
        7 => (delivery_strat(), remove_fault_strat(), att_strat())
            .prop_map(|(delivery, fault, att)| Op::Remove { delivery, fault, att }),
        2 => (0u8..BURSTS.len() as u8).prop_map(Op::AddBurst),
        1 => (0u8..BURSTS.len() as u8).prop_map(Op::RemoveBurst),
        1 => Just(Op::Restart),
    ]
}

fn start_strat() -> impl Strategy<Value = Start> {
    prop_oneof![
        3 => Just(Start::Genesis),
        10 => (0u8..HEIGHTS.len() as u8, 0u8..3, 0u8..WINDOWS.len() as u8, prop_oneof![5 => Just(false), 1 => Just(true)])
            .prop_map(|(height, diff, window, zero_fh)| Start::Synth { height, diff, window, zero_fh }),
        1 => any::<bool>().prop_map(|mainnet| Start::Checkpoint { mainnet }),
    ]
}

// ---------------------------------------------------------------------------------------------
// the world

struct World {
    tr: ChainTracker<RecListener>,
    att: Attestor,
    forger: Keypair,
    node_id: PublicKey,
    vf: Arc<dyn ValidatorFactory>,
    network: Network,
    allow_deep: bool,
    /// blocks known to the harness; the last one is the tip.  `fh` is the filter header the
    /// tracker recorded for the block.
    chain: Vec<Blk>,
    /// model of the number of remembered headers
    window: usize,
    salt: u32,
    unmineable: bool,
    // bookkeeping for the oracle
    any_rejection: bool,
    pending_nt: [bool; 2],
    nontrivial: bool,
    shape: Vec<(u8, &'static str, u8)>,
    /// ground truth kept by the harness: per accepted block, the outpoints a listener watched
    /// that the block spends (what a removal proof for that block has to account for)
    spent_watched: std::collections::BTreeMap<BlockHash, Vec<OutPoint>>,
}

/// What the harness knows about a request.
#[derive(Default)]
struct Verdict {
    /// reasons for which the property requires a refusal (signature class)
    must: Vec<&'static str>,
    /// reasons for which either outcome is acceptable
    either: Vec<&'static str>,
}

impl Verdict {
    fn class(&self) -> &'static str {
        self.must.first().or(self.either.first()).cloned().unwrap_or("none")
    }
    fn valid(&self) -> bool {
        self.must.is_empty() && self.either.is_empty()
    }
}

fn zero_fh(fh: &FilterHeader) -> bool {
    fh.to_byte_array().iter().all(|b| *b == 0)
}

fn other_fh() -> FilterHeader {
    FilterHeader::from_byte_array([0x5a; 32])
}

impl World {
    fn new(case: &Case) -> World {
        let att = Attestor::new(case.oracles.min(3) as usize, 2);
        let forger = Keypair::from_seckey_slice(&att.secp, &[0x77; 32]).unwrap();
        let node_id = Keypair::from_seckey_slice(&att.secp, &[0x99; 32]).unwrap().public_key();
        let vf: Arc<dyn ValidatorFactory> = Arc::new(SimpleValidatorFactory::new());
        let trusted = att.trusted_pubkeys();
        let (mut tr, chain, window, network, unmineable) = match &case.start {
            Start::Genesis => {
                let tr = ChainTracker::from_genesis(Network::Regtest, node_id, vf.clone(), trusted);
                let g = lightning_signer::bitcoin::blockdata::constants::genesis_block(Network::Regtest);
                (tr, vec![Blk { block: g, fh: FilterHeader::all_zeros(), height: 0 }], 0, Network::Regtest, false)
            }
            Start::Synth { height, diff, window, zero_fh } => {
                let h = HEIGHTS[(*height as usize).min(HEIGHTS.len() - 1)];
                let w = WINDOWS[(*window as usize).min(WINDOWS.len() - 1)].min(h as usize);
                let bits = shift_bits(CompactTarget::from_consensus(REGTEST_BITS), -2 * (*diff).min(2) as i8);
                // one more block than the window so that a deep reorg has a known parent
                let n = w + 2;
                let first = h + 1 - n as u32;
                let mut chain = synthetic_chain(n, first, bits, FilterHeader::from_byte_array([0x11; 32]), 1_000_000);
                if *zero_fh {
                    chain.last_mut().unwrap().fh = FilterHeader::all_zeros();
                }
                let tip = chain.last().unwrap().headers();
                let tr = if w == 0 {
                    ChainTracker::new(Network::Regtest, h, tip, node_id, vf.clone(), trusted).expect("synthetic tip is mined")
                } else {
                    let headers: VecDeque<Headers> =
                        chain[chain.len() - 1 - w..chain.len() - 1].iter().rev().map(|b| b.headers()).collect();
                    ChainTracker::restore(headers, tip, h, Network::Regtest, Default::default(), node_id, vf.clone(), trusted)
                };
                (tr, chain, w, Network::Regtest, false)
            }
            Start::Checkpoint { mainnet } => {
                let net = if *mainnet { Network::Bitcoin } else { Network::Testnet };
                let tr = ChainTracker::for_network(net, node_id, vf.clone(), trusted);
                let tip = tr.tip().clone();
                let blk = Blk { block: Block { header: tip.0, txdata: vec![] }, fh: tip.1, height: tr.height() };
                (tr, vec![blk], 0, net, true)
            }
        };
        tr.set_allow_deep_reorgs(case.allow_deep);
        for i in 0..case.listeners.min(2) {
            let key = OutPoint { txid: Txid::from_byte_array([0xAA; 32]), vout: i as u32 };
            tr.add_listener(RecListener::new(key), Default::default());
            tr.add_listener_watches(&key, [key].into_iter().collect());
        }
        World {
            tr,
            att,
            forger,
            node_id,
            vf,
            network,
            allow_deep: case.allow_deep,
            chain,
            window,
            salt: 1,
            unmineable,
            any_rejection: false,
            pending_nt: [false; 2],
            nontrivial: false,
            spent_watched: Default::default(),
            shape: vec![],
        }
    }

    fn next_salt(&mut self) -> u32 {
        self.salt += 1;
        self.salt
    }

    fn tip(&self) -> &Blk {
        self.chain.last().unwrap()
    }

    /// Build a block on `prev` (mined unless nothing can be mined on this network).
    fn mk_block(&self, prev: BlockHash, bits: CompactTarget, txs: Vec<Transaction>, want_pow: bool) -> Block {
        let root = merkle_root(&txs);
        let header = if self.unmineable { unmined(prev, root, bits, 0) } else { mine(prev, root, bits, 0, want_pow) };
        Block { header, txdata: txs }
    }

    /// A sibling: same parent, bits and transactions except for a fresh coinbase.
    fn sibling(&mut self, b: &Block) -> Block {
        let mut txs = b.txdata.clone();
        let s = self.next_salt();
        if txs.is_empty() {
            txs.push(coinbase(s));
        } else {
            txs[0] = coinbase(s);
        }
        self.mk_block(b.header.prev_blockhash, b.header.bits, txs, true)
    }

    /// The attestation list for (hash, height, fh) and the verdict contribution of the signer set.
    fn attest(
        &self,
        a: &Att,
        hash: BlockHash,
        height: u32,
        fh: FilterHeader,
        proof_checked: bool,
        v: &mut Verdict,
    ) -> Vec<(PublicKey, SignedAttestation)> {
        let n = self.att.trusted.len();
        let mut signers: Vec<(&Keypair, bool)> = vec![];
        for i in 0..n {
            if a.mask & (1 << i) != 0 {
                signers.push((&self.att.trusted[i], true));
            }
        }
        for i in 0..(a.untrusted as usize).min(self.att.untrusted.len()) {
            signers.push((&self.att.untrusted[i], false));
        }
        if signers.is_empty() {
            // a proof without any attestation cannot be expressed on the wire
            signers.push((&self.att.untrusted[0], false));
        }
        let mut good = signers.iter().filter(|(_, t)| *t).count();
        let mut out = vec![];
        for (i, (k, t)) in signers.iter().enumerate() {
            if i == 0 && a.bad_sig {
                out.push(self.att.sign(&self.forger, k, hash, height, fh));
                if *t {
                    good -= 1;
                }
            } else {
                out.push(self.att.sign(k, k, hash, height, fh));
            }
        }
        if a.dup > 0 {
            if let Some(last) = out.last().cloned() {
                for _ in 0..a.dup {
                    out.push(last.clone());
                }
            }
        }
        // "at least half of the trusted oracles" (distinct oracles: `good` does not count repeats)
        if 2 * good < n {
            if proof_checked {
                v.must.push("attestation");
            } else {
                v.either.push("bypass");
            }
        } else if a.bad_sig {
            v.either.push("bad-extra-signature");
        }
        out
    }

    fn restart(&mut self, snap: &Snap) {
        self.tr = snap.restore(self.node_id, self.vf.clone(), self.att.trusted_pubkeys());
        self.tr.set_allow_deep_reorgs(self.allow_deep);
    }
}

enum Flow {
    Continue,
    /// the case cannot usefully continue (panic inside the tracker, model lost)
    Stop,
}

/// Node-level scenario: a restart moves the tip by no block.  A test-network node created without
/// checkpoints follows the chain from the genesis block (what a signer that is still catching up,
/// or one started by a binary that carries a newer checkpoint, looks like: its height is below the
/// latest compiled-in checkpoint); after `blocks` validated and persisted blocks it is restarted
/// (`restarts` = 1 + variant % 3 times) from its store: height, tip, tip filter header and the
/// remembered headers must be what they were, and the next block must still connect.
fn run_node_position(blocks: u8, variant: u8, st: &mut CaseStats, ctx: &Ctx) -> Result<(), Violation> {
    use lightning_signer::util::test_utils::make_testnet_header;
    let mut cfg = crate::world::WorldCfg::default_testnet();
    cfg.no_checkpoints = true;
    let mut w = crate::world::World::new(cfg);
    let connect = |w: &crate::world::World| -> Result<(), String> {
        let node = w.node.clone();
        let mut tracker = node.get_tracker();
        let (header, proof) = make_testnet_header(tracker.tip(), tracker.height());
        tracker.add_block(header, proof).map_err(|e| format!("{:?}", e))?;
        node.get_persister().update_tracker(&node.get_id(), &tracker).map_err(|e| format!("{:?}", e))
    };
    if w.node.get_tracker().height() != 0 {
        st.class("node-position:not-at-genesis");
        return Ok(());
    }
    let blocks = blocks.max(1);
    for _ in 0..blocks {
        if let Err(e) = connect(&w) {
            st.class(format!("node-position:block-refused:{}", e.chars().take(30).collect::<String>()));
            return Ok(());
        }
    }
    let view = |w: &crate::world::World| {
        let t = w.node.get_tracker();
        (t.height(), t.tip().0.block_hash(), t.tip().1, t.headers().iter().map(|h| h.0.block_hash()).collect::<Vec<_>>())
    };
    let before = view(&w);
    let restarts = 1 + variant % 3;
    for _ in 0..restarts {
        if !w.restart().is_ok() {
            st.class("node-position:restart-failed");
            return Ok(());
        }
    }
    let after = view(&w);
    st.class(format!("node-position:blocks{}:restarts{}", blocks, restarts));
    st.nontrivial_shape(("node-position", blocks, restarts));
    if before != after {
        return ctx.report(st, Violation::new(
            "C13:tip-moved-without-a-block:node-restart",
            format!("a node that had validated {} block(s) from the genesis block was at height {} (tip {}); after {} restart(s) from its store it is at height {} (tip {}) although no block was added or removed", blocks, before.0, before.1, restarts, after.0, after.1),
        ));
    }
    if let Err(e) = connect(&w) {
        return ctx.report(st, Violation::new(
            "C13:valid-block-refused-after-node-restart",
            format!("after {} restart(s) at height {} the next valid block is refused: {}", restarts, before.0, e),
        ));
    }
    Ok(())
}

/// Node-level scenario: the oracle set a node validates blocks against must survive a restart.
/// `variant % 3`: 0 = restart, then a block attested by an untrusted key only; 1 = restart, then a
/// properly attested block; 2 = no restart, untrusted attestation.  `variant / 3 % 2 == 1`: wire
/// delivery: the signer is built (and rebuilt at the restart) by `HandlerBuilder` as vlsd builds
/// it, configured with the trusted oracle key, and every block is delivered as the chain follower
/// does (`chainpool::wire_add`: TipInfo, ForwardWatches, AddBlock messages to the root handler,
/// which persists the tracker itself).  The handler answers a refused block with a panic, which
/// is not an acceptance.
fn run_node_restore(blocks: u8, variant: u8, st: &mut CaseStats, ctx: &Ctx) -> Result<(), Violation> {
    if variant >= 6 {
        return run_node_position(blocks, variant - 6, st, ctx);
    }
    use crate::chainpool::{make_block, make_proof, regtest_cfg, wire_add_with, ChainSim, Deliver, WireLog};
    use crate::props::proto::{Negotiation, ProtoWorld};
    use lightning_signer::bitcoin::key::Keypair;
    use lightning_signer::bitcoin::secp256k1::{Secp256k1, SecretKey};
    use lightning_signer::txoo::proof::TxoProof;
    use lightning_signer::txoo::util::sign_attestation;
    let secp = Secp256k1::new();
    // chainpool::make_proof signs with this key
    let trusted = PublicKey::from_secret_key(&secp, &SecretKey::from_slice(&[2u8; 32]).unwrap());
    let mut cfg = regtest_cfg();
    cfg.trusted_oracles = vec![trusted];
    let wire = variant / 3 % 2 == 1;
    // the same attestation signed by a key the node does not trust
    let forge = |mut proof: TxoProof| -> TxoProof {
        let kp = Keypair::from_secret_key(&secp, &SecretKey::from_slice(&[0x55u8; 32]).unwrap());
        let pk = PublicKey::from_secret_key(&secp, &SecretKey::from_slice(&[0x55u8; 32]).unwrap());
        let att = proof.attestations[0].1.attestation.clone();
        proof.attestations = vec![(pk, sign_attestation(att, &kp, &secp))];
        proof
    };
    let restarted = variant % 3 != 2;
    let untrusted = variant % 3 != 1;
    // Ok(()) accepted, Err((aborted, text)) refused / aborted
    let res: Result<(), (bool, String)>;
    if wire {
        let mut pw = ProtoWorld::new(cfg, 6, Negotiation::SignerCap);
        let mut sim = ChainSim::new(lightning_signer::bitcoin::Network::Regtest);
        let mut log = WireLog::default();
        let mut connect = |pw: &ProtoWorld, sim: &mut ChainSim, untrusted: bool, salt: u64| -> Result<(), (bool, String)> {
            let block = make_block(&sim.tip_header(), sim.height() + 1, salt, vec![]);
            let prev_fh = sim.tip_filter_header();
            let d = wire_add_with(&pw.root, &block, &prev_fh, false, 0, &mut log, |p| if untrusted { forge(p) } else { p });
            match d {
                Deliver::Ok => {
                    sim.push(block, vec![]);
                    Ok(())
                }
                Deliver::Refused(e) => Err((false, e)),
                Deliver::Panic(p) => Err((true, p)),
            }
        };
        for k in 0..blocks.max(1) {
            if let Err((_, e)) = connect(&pw, &mut sim, false, k as u64) {
                panic!("harness: attested block refused by a fresh node (wire): {}", e);
            }
        }
        if restarted {
            let r = pw.restart();
            if !r.is_ok() {
                st.class("node-restore:restart-failed");
                return Ok(());
            }
        }
        res = connect(&pw, &mut sim, untrusted, 99);
        drop(connect);
        for c in log.classes() {
            st.class(format!("node-restore:{}", c));
        }
    } else {
        let mut w = crate::world::World::new(cfg);
        let connect = |w: &crate::world::World, untrusted: bool, salt: u64| -> Result<(), String> {
            let node = w.node.clone();
            let mut tracker = node.get_tracker();
            let height = tracker.height() + 1;
            let block = make_block(&tracker.tip().0, height, salt, vec![]);
            let (txids, outpoints) = tracker.get_all_forward_watches();
            let mut proof = make_proof(&block, &tracker.tip().1, height, &txids, &outpoints, false);
            if untrusted {
                proof = forge(proof);
            }
            match tracker.add_block(block.header, proof) {
                Ok(()) => {
                    node.get_persister().update_tracker(&node.get_id(), &tracker).map_err(|e| format!("{:?}", e))?;
                    Ok(())
                }
                Err(e) => Err(format!("{:?}", e)),
            }
        };
        for k in 0..blocks.max(1) {
            if let Err(e) = connect(&w, false, k as u64) {
                panic!("harness: attested block refused by a fresh node: {}", e);
            }
        }
        if restarted {
            let r = w.restart();
            if !r.is_ok() {
                st.class("node-restore:restart-failed");
                return Ok(());
            }
        }
        res = connect(&w, untrusted, 99).map_err(|e| (false, e));
    }
    let outcome = match &res {
        Ok(()) => "accepted",
        Err((false, _)) => "refused",
        Err((true, _)) => "aborted",
    };
    st.class(format!(
        "node-restore:{}{}:{}:{}",
        if wire { "wire:" } else { "" },
        if restarted { "restarted" } else { "running" },
        if untrusted { "untrusted-attestation" } else { "trusted-attestation" },
        outcome
    ));
    if untrusted && res.is_ok() {
        return ctx.report(st, Violation::new(
            format!("C13:accepted-invalid:attestation:node-{}{}", if restarted { "after-restart" } else { "running" }, if wire { ":wire" } else { "" }),
            format!(
                "a node configured with one trusted oracle ({} blocks connected{}{}) accepted a block attested only by an untrusted key",
                blocks.max(1),
                if wire { " through AddBlock messages to a signer built by HandlerBuilder" } else { "" },
                if restarted { ", then restarted from its store" } else { "" }
            ),
        ));
    }
    if !untrusted && !res.is_ok() {
        // over-refusal is no violation of the property; recorded
        st.class("node-restore:trusted-attestation-not-accepted");
    }
    if wire {
        st.nontrivial_shape(("node-restore-wire", blocks.max(1), variant % 3, res.is_ok()));
    } else {
        st.nontrivial_shape(("node-restore", blocks.max(1), variant % 3, res.is_ok()));
    }
    Ok(())
}

pub struct C13;

impl C13 {
    /// Judge the outcome of one request.  `kind`: 0 add, 1 remove.  Returns Ok(true) if accepted.
    #[allow(clippy::too_many_arguments)]
    fn judge<T>(
        &self,
        w: &mut World,
        st: &mut CaseStats,
        ctx: &Ctx,
        kind: u8,
        streamed: bool,
        fine: &str,
        v: &Verdict,
        before: &Snap,
        nt_ok: bool,
        res: Res<T>,
    ) -> Result<Option<bool>, Violation> {
        let kname = if kind == 0 { "add" } else { "remove" };
        let kfull = match (kind, streamed) {
            (0, false) => "add",
            (0, true) => "chunk-add",
            (_, false) => "remove",
            (_, true) => "chunk-remove",
        };
        let class = v.class();
        match res {
            Res::Panic(m) => {
                let short: String = m.chars().take(48).collect();
                st.class(format!("{}:panic:{}:{}", kfull, class, short));
                if v.valid() {
                    if !w.any_rejection {
                        panic!("harness model: valid {} request panicked in a history without rejections: {}", kfull, m);
                    }
                    w.shape.push((kind, class, 2));
                    ctx.report(
                        st,
                        Violation::new(
                            "C13:valid-request-aborted-after-rejection",
                            format!(
                                "step {}: valid {} request at height {} panicked ({}) after an earlier rejected request left hidden state behind",
                                w.shape.len() - 1,
                                kfull,
                                before.height,
                                m
                            ),
                        ),
                    )?;
                    st.class("restarted_after_known_finding");
                    w.restart(before);
                    return Ok(Some(false));
                }
                Ok(None)
            }
            Res::Ok(_) => {
                st.class(format!("{}:ok:{}", kfull, class));
                st.class("accepted");
                w.shape.push((kind, class, 1));
                if let Some(m) = v.must.first() {
                    ctx.report(
                        st,
                        Violation::new(
                            format!("C13:accepted-invalid:{}", m),
                            format!(
                                "step {}: {} request ({}) with fault [{}] (must be refused: {:?}) was accepted at height {}",
                                w.shape.len() - 1,
                                kfull,
                                kname,
                                fine,
                                v.must,
                                before.height
                            ),
                        ),
                    )?;
                }
                if v.valid() && w.pending_nt[kind as usize] {
                    w.nontrivial = true;
                }
                Ok(Some(true))
            }
            Res::Err(e) => {
                let en = err_name(&e);
                st.class(format!("{}:err:{}", kfull, class));
                if std::env::var("VERIF_ERRCLASS").is_ok() {
                    st.class(format!("{}:err:{}:{}:{}", kfull, class, fine, en));
                }
                st.class("refused");
                w.shape.push((kind, class, 0));
                let after = Snap::take(&w.tr);
                if *before != after {
                    let (comps, detail) = before.diff(&after);
                    ctx.report(
                        st,
                        Violation::new(
                            format!("C13:rejected-request-mutated-state:{}:{}", kfull, comps.join("+")),
                            format!(
                                "step {}: {} request with fault [{}] refused with {:?} but the tracker state changed: {}",
                                w.shape.len() - 1,
                                kfull,
                                fine,
                                e,
                                detail.join("; ")
                            ),
                        ),
                    )?;
                    // known finding: carry on from the state before the request, as after a
                    // process restart from the last persisted tracker
                    st.class("restarted_after_known_finding");
                    w.restart(before);
                }
                if v.valid() {
                    if w.any_rejection {
                        ctx.report(
                            st,
                            Violation::new(
                                "C13:valid-request-refused-after-rejection",
                                format!(
                                    "step {}: valid {} request refused with {:?} after an earlier rejected request",
                                    w.shape.len() - 1,
                                    kfull,
                                    e
                                ),
                            ),
                        )?;
                    } else {
                        panic!(
                            "harness model: valid {} request refused with {:?} at height {} in a history without rejections",
                            kfull, e, before.height
                        );
                    }
                }
                w.any_rejection = true;
                if nt_ok {
                    w.pending_nt[kind as usize] = true;
                }
                Ok(Some(false))
            }
        }
    }

    #[allow(clippy::too_many_arguments)]
    fn do_add(
        &self,
        w: &mut World,
        st: &mut CaseStats,
        ctx: &Ctx,
        content: &Content,
        delivery: &Delivery,
        bits_shift: i8,
        fault: &Fault,
        att: &Att,
    ) -> Result<Flow, Violation> {
        let mut v = Verdict::default();
        let tip = w.tip().clone();
        let h_new = tip.height + 1;
        let prev_fh = tip.fh;
        let proof_checked = !zero_fh(&prev_fh);
        let (txid_watches, outpoints) = w.tr.get_all_forward_watches();
        let nt_ok = w.tr.headers().len() >= 2 && !outpoints.is_empty();
        let mut fine: Vec<String> = vec![];

        // transactions
        let s = w.next_salt();
        let mut txs = vec![coinbase(s)];
        let mut picked: Vec<OutPoint> = vec![];
        for sel in content.spend.iter() {
            if outpoints.is_empty() {
                break;
            }
            let o = outpoints[pick_idx(*sel, outpoints.len())];
            if !picked.contains(&o) {
                picked.push(o);
            }
        }
        for (i, o) in picked.iter().enumerate() {
            let s = w.next_salt();
            let tx = spend(*o, s);
            let id = tx.compute_txid();
            txs.push(tx);
            if i == 0 && content.chain {
                let s = w.next_salt();
                txs.push(spend(OutPoint { txid: id, vout: 0 }, s));
            }
        }
        for _ in 0..content.noise.min(2) {
            let s = w.next_salt();
            txs.push(spend(OutPoint { txid: Txid::from_byte_array([0xEE; 32]), vout: s }, s));
        }
        let spends_watched = !picked.is_empty();

        // header
        let mut bits = shift_bits(tip.block.header.bits, bits_shift);
        let boundary = h_new % DIFFCHANGE == 0;
        if bits != tip.block.header.bits {
            if w.network == Network::Testnet {
                v.either.push("testnet-bits");
            } else if !boundary {
                v.must.push("bits");
                fine.push(format!("bits*2^{} mid-period", bits_shift));
            } else {
                let t = Target::from_compact(bits);
                let chain_max = if w.network == Network::Regtest { regtest_max_target() } else { Target::MAX_ATTAINABLE_MAINNET };
                if bits_shift.abs() > 2 || t > chain_max {
                    v.must.push("retarget");
                    fine.push(format!("retarget*2^{} out of band", bits_shift));
                } else {
                    fine.push(format!("retarget*2^{} in band", bits_shift));
                    st.class("add:retarget_in_band_generated");
                }
            }
        } else {
            bits = tip.block.header.bits;
        }
        let mut prev_hash = tip.hash();
        if let Fault::Link(variant) = fault {
            prev_hash = if *variant == 0 && w.chain.len() >= 2 {
                w.chain[w.chain.len() - 2].hash()
            } else {
                BlockHash::from_byte_array([0x77; 32])
            };
            v.must.push("link");
            fine.push("link".into());
        }
        let want_pow = !matches!(fault, Fault::Pow);
        if !want_pow || w.unmineable {
            v.must.push("pow");
            fine.push("pow".into());
        }
        let block = w.mk_block(prev_hash, bits, txs, want_pow);
        let header = block.header;
        let true_fh = filter_header(&block, &prev_fh);

        // what the oracles attest, and for which block the proof is made
        let mut proof_block = block.clone();
        let (mut a_hash, mut a_height, mut a_fh) = (block.block_hash(), h_new, true_fh);
        let streamed_wanted = matches!(delivery, Delivery::Streamed { .. });
        let proof_fault = |v: &mut Verdict, fine: &mut Vec<String>, name: &str| {
            if proof_checked {
                v.must.push("proof");
            } else {
                v.either.push("bypass");
            }
            fine.push(name.to_string());
        };
        match fault {
            Fault::ProofOtherBlock => {
                proof_block = w.sibling(&block);
                a_hash = proof_block.block_hash();
                a_fh = filter_header(&proof_block, &prev_fh);
                proof_fault(&mut v, &mut fine, "proof-other-block");
            }
            Fault::ProofWrongHeight => {
                a_height = h_new + 1;
                proof_fault(&mut v, &mut fine, "proof-wrong-height");
            }
            Fault::ProofWrongFilter if !streamed_wanted => {
                a_fh = filter_header(&block, &other_fh());
                proof_fault(&mut v, &mut fine, "proof-wrong-filter-header");
            }
            _ => {}
        }
        let atts = w.attest(att, a_hash, a_height, a_fh, proof_checked, &mut v);
        if v.must.contains(&"attestation") || (v.either.contains(&"bypass") && fine.is_empty()) {
            fine.push(format!("att mask {:03b}/{} untrusted {} bad_sig {} dup {}", att.mask, w.att.trusted.len(), att.untrusted, att.bad_sig, att.dup));
        }

        // proof and delivery
        let mut stream: Option<(BlockHash, Vec<(u32, Vec<u8>)>)> = None;
        let mk_stream = |b: &Block, cuts: &[u16]| {
            let len = lightning_signer::bitcoin::consensus::serialize(b).len();
            let cuts: Vec<usize> = cuts.iter().map(|c| 1 + pick_idx(*c, len.saturating_sub(1))).collect();
            (b.block_hash(), chunks(b, &cuts))
        };
        let proof: TxoProof = match delivery {
            Delivery::Compact => {
                let p = if matches!(fault, Fault::ProofOmitsSpend) && spends_watched {
                    proof_fault(&mut v, &mut fine, "proof-omits-spend");
                    filter_proof_without_spv(atts, &proof_block)
                } else {
                    compact_proof(atts, &proof_block, &outpoints, &txid_watches)
                };
                if let ProofType::Block(_) = p.proof {
                    // filter false positive: production falls back to streaming the block
                    st.class("filter_false_positive_streamed_instead");
                    stream = Some(mk_stream(&block, &[]));
                    if matches!(fault, Fault::ProofWrongFilter) {
                        // an external proof carries no filter: the attested filter header cannot
                        // be checked on this path (as with a requested streamed delivery)
                        v.must.retain(|m| *m != "proof");
                        v.either.push("filter-header-unverifiable-when-streamed");
                    }
                    external_proof(p.attestations)
                } else {
                    p
                }
            }
            Delivery::Streamed { cuts } => {
                if matches!(fault, Fault::StreamOtherBlock) {
                    let sib = w.sibling(&block);
                    stream = Some(mk_stream(&sib, cuts));
                    v.must.push("stream");
                    fine.push("stream-other-block".into());
                } else {
                    stream = Some(mk_stream(&block, cuts));
                }
                external_proof(atts)
            }
            Delivery::Inline => {
                v.either.push("inline-block");
                inline_block_proof(atts, &proof_block)
            }
        };
        if fine.is_empty() {
            fine.push(v.class().to_string());
        }
        let fine = fine.join("+");
        st.class(format!("add_fault:{}", fine.split(' ').next().unwrap_or("")));

        // execute
        let before = Snap::take(&w.tr);
        let streamed = stream.is_some();
        if let Some((_, parts)) = stream.as_ref() {
            st.class(format!("streamed_chunks:{}", parts.len()));
        }
        let recorded_fh = proof.filter_header();
        let res = catch(|| {
            if let Some((hash, parts)) = stream {
                for (off, bytes) in parts {
                    w.tr.block_chunk(hash, off, &bytes)?;
                }
            }
            w.tr.add_block(header, proof)
        });
        match self.judge(w, st, ctx, 0, streamed, &fine, &v, &before, nt_ok, res)? {
            None => Ok(Flow::Stop),
            Some(false) => Ok(Flow::Continue),
            Some(true) => {
                if !picked.is_empty() {
                    w.spent_watched.insert(block.block_hash(), picked.clone());
                }
                w.chain.push(Blk { block, fh: recorded_fh, height: h_new });
                w.window = (w.window + 1).min(MAX_WINDOW);
                let t = w.tr.tip();
                if t.0 != header || t.1 != recorded_fh || w.tr.height() != h_new {
                    ctx.report(
                        st,
                        Violation::new(
                            "C13:accepted-wrong-tip:add",
                            format!("accepted add at height {} but tip/height are {} / {}", h_new, t.0.block_hash(), w.tr.height()),
                        ),
                    )?;
                    return Ok(Flow::Stop);
                }
                if w.tr.headers().len() != w.window {
                    panic!("harness model: window {} but tracker remembers {}", w.window, w.tr.headers().len());
                }
                Ok(Flow::Continue)
            }
        }
    }

    fn do_remove(
        &self,
        w: &mut World,
        st: &mut CaseStats,
        ctx: &Ctx,
        delivery: &Delivery,
        fault: &Fault,
        att: &Att,
    ) -> Result<Flow, Violation> {
        let mut v = Verdict::default();
        let mut fine: Vec<String> = vec![];
        let tipb = w.tip().clone();
        let (txid_watches, outpoints) = w.tr.get_all_reverse_watches();
        let nt_ok = w.tr.headers().len() >= 2 && !outpoints.is_empty();
        let streamed_wanted = matches!(delivery, Delivery::Streamed { .. });
        let deep = w.window == 0;
        if deep && !w.allow_deep {
            v.either.push("too-deep");
        }
        if tipb.block.txdata.is_empty() {
            // checkpoint tip: the block itself is unknown, nothing but a bogus request is possible
            let bogus = Headers(tipb.block.header, tipb.fh);
            if v.either.is_empty() {
                v.must.push("prev-header");
            }
            let mut vv = Verdict::default();
            let atts = w.attest(att, tipb.hash(), tipb.height, tipb.fh, true, &mut vv);
            let proof = filter_proof_without_spv(atts, &Block { header: tipb.block.header, txdata: vec![coinbase(0)] });
            let before = Snap::take(&w.tr);
            st.class("remove_fault:checkpoint-bogus");
            let res = catch(|| w.tr.remove_block(proof, bogus));
            return match self.judge(w, st, ctx, 1, false, "checkpoint-bogus", &v, &before, nt_ok, res)? {
                Some(false) => Ok(Flow::Continue),
                _ => Ok(Flow::Stop),
            };
        }
        // the parent as the harness knows it
        let parent: Option<Blk> = if w.chain.len() >= 2 { Some(w.chain[w.chain.len() - 2].clone()) } else { None };
        let mut fault = fault.clone();
        if parent.is_none() {
            // genesis: there is no parent; only a bogus previous header can be supplied
            fault = Fault::PrevHeader;
        }
        if deep && streamed_wanted && matches!(fault, Fault::PrevFilter) {
            // not verifiable by construction of the streamed path: do not inject
            fault = Fault::None;
        }
        if matches!(fault, Fault::PrevFilterZero) && (deep || parent.as_ref().map(|p| zero_fh(&p.fh)).unwrap_or(true)) {
            // deep reorg mode trusts the supplied headers by design; and if the remembered filter
            // header is itself all zeroes this is the correct argument
            fault = Fault::None;
        }
        let true_parent = parent.clone().map(|p| p.headers());
        let supplied: Headers = match (&fault, &parent) {
            (Fault::PrevHeader, Some(p)) => {
                let other = if w.chain.len() >= 3 {
                    w.chain[w.chain.len() - 3].block.header
                } else {
                    let s = w.next_salt();
                    w.mk_block(p.block.header.prev_blockhash, p.block.header.bits, vec![coinbase(s)], true).header
                };
                Headers(other, p.fh)
            }
            (Fault::PrevHeader, None) => {
                let s = w.next_salt();
                let b = w.mk_block(BlockHash::from_byte_array([0x33; 32]), tipb.block.header.bits, vec![coinbase(s)], true);
                Headers(b.header, other_fh())
            }
            (Fault::PrevFilter, Some(p)) => Headers(p.block.header, other_fh()),
            (Fault::PrevFilterZero, Some(p)) => Headers(p.block.header, FilterHeader::all_zeros()),
            (_, Some(p)) => p.headers(),
            (_, None) => unreachable!(),
        };
        if matches!(fault, Fault::PrevHeader | Fault::PrevFilter | Fault::PrevFilterZero) {
            if v.either.is_empty() {
                v.must.push("prev-header");
            }
            fine.push(
                match fault {
                    Fault::PrevHeader => "prev-header",
                    Fault::PrevFilter => "prev-filter-header",
                    _ => "prev-filter-header-zero",
                }
                .into(),
            );
        }
        let prev_fh = true_parent.as_ref().map(|h| h.1).unwrap_or(supplied.1);
        // the documented bypass is selected by the *remembered* previous filter header
        let proof_checked = !zero_fh(&prev_fh);
        let true_fh = filter_header(&tipb.block, &prev_fh);

        let mut proof_block = tipb.block.clone();
        let (mut a_hash, mut a_height, mut a_fh) = (tipb.hash(), tipb.height, true_fh);
        let too_deep = !v.either.is_empty();
        let proof_fault = |v: &mut Verdict, fine: &mut Vec<String>, name: &str| {
            if too_deep {
                // refused before anything is looked at
            } else if proof_checked {
                v.must.push("proof");
            } else {
                v.either.push("bypass");
            }
            fine.push(name.to_string());
        };
        match fault {
            Fault::ProofOtherBlock => {
                proof_block = w.sibling(&tipb.block);
                a_hash = proof_block.block_hash();
                a_fh = filter_header(&proof_block, &prev_fh);
                proof_fault(&mut v, &mut fine, "proof-other-block");
            }
            Fault::ProofWrongHeight => {
                a_height = tipb.height + 1;
                proof_fault(&mut v, &mut fine, "proof-wrong-height");
            }
            Fault::ProofWrongFilter if !streamed_wanted => {
                a_fh = filter_header(&tipb.block, &other_fh());
                proof_fault(&mut v, &mut fine, "proof-wrong-filter-header");
            }
            _ => {}
        }
        let mut va = Verdict::default();
        let atts = w.attest(att, a_hash, a_height, a_fh, proof_checked, &mut va);
        if !too_deep {
            if va.must.contains(&"attestation") {
                fine.push(format!("att mask {:03b}/{} untrusted {} bad_sig {} dup {}", att.mask, w.att.trusted.len(), att.untrusted, att.bad_sig, att.dup));
            }
            v.must.extend(va.must);
            v.either.extend(va.either);
        }

        // by the harness's own record of what the listeners watched when the block was connected
        // (the tracker's reverse watches are what is under test), or by the tracker's answer
        let spends_watched = w.spent_watched.get(&tipb.block.block_hash()).map_or(false, |v| !v.is_empty())
            || tipb.block.txdata.iter().any(|t| t.input.iter().any(|i| outpoints.contains(&i.previous_output)));
        let mut stream: Option<(BlockHash, Vec<(u32, Vec<u8>)>)> = None;
        let mk_stream = |b: &Block, cuts: &[u16]| {
            let len = lightning_signer::bitcoin::consensus::serialize(b).len();
            let cuts: Vec<usize> = cuts.iter().map(|c| 1 + pick_idx(*c, len.saturating_sub(1))).collect();
            (b.block_hash(), chunks(b, &cuts))
        };
        let proof: TxoProof = match delivery {
            Delivery::Compact => {
                let p = if matches!(fault, Fault::ProofOmitsSpend) && spends_watched {
                    proof_fault(&mut v, &mut fine, "proof-omits-spend");
                    filter_proof_without_spv(atts, &proof_block)
                } else {
                    compact_proof(atts, &proof_block, &outpoints, &txid_watches)
                };
                if let ProofType::Block(_) = p.proof {
                    st.class("filter_false_positive_streamed_instead");
                    stream = Some(mk_stream(&tipb.block, &[]));
                    v.either.push("streamed-remove");
                    if matches!(fault, Fault::ProofWrongFilter) {
                        v.must.retain(|m| *m != "proof");
                        v.either.push("filter-header-unverifiable-when-streamed");
                    }
                    external_proof(p.attestations)
                } else {
                    p
                }
            }
            Delivery::Streamed { cuts } => {
                if matches!(fault, Fault::StreamOtherBlock) {
                    let sib = w.sibling(&tipb.block);
                    stream = Some(mk_stream(&sib, cuts));
                    if !too_deep {
                        v.must.push("stream");
                    }
                    fine.push("stream-other-block".into());
                } else {
                    stream = Some(mk_stream(&tipb.block, cuts));
                    // see rule(): the tracker compares the streamed block with the *previous*
                    // block's hash, so a correct streamed removal is always refused
                    v.either.push("streamed-remove");
                }
                external_proof(atts)
            }
            Delivery::Inline => {
                v.either.push("inline-block");
                inline_block_proof(atts, &proof_block)
            }
        };
        if fine.is_empty() {
            fine.push(v.class().to_string());
        }
        let fine = fine.join("+");
        st.class(format!("remove_fault:{}", fine.split(' ').next().unwrap_or("")));
        st.class(format!("remove_at_window:{}", match w.window { 0 => "0", 1 => "1", 2..=97 => "2-97", 98 => "98", 99 => "99", _ => "100" }));

        let before = Snap::take(&w.tr);
        let streamed = stream.is_some();
        let res = catch(|| {
            if let Some((hash, parts)) = stream {
                for (off, bytes) in parts {
                    w.tr.block_chunk(hash, off, &bytes)?;
                }
            }
            w.tr.remove_block(proof, supplied.clone())
        });
        match self.judge(w, st, ctx, 1, streamed, &fine, &v, &before, nt_ok, res)? {
            None => Ok(Flow::Stop),
            Some(false) => Ok(Flow::Continue),
            Some(true) => {
                w.chain.pop();
                w.window = w.window.saturating_sub(1);
                if deep {
                    st.class("remove:deep_reorg_accepted");
                }
                let t = w.tr.tip();
                if t.0 != supplied.0 || t.1 != supplied.1 || w.tr.height() + 1 != tipb.height {
                    ctx.report(
                        st,
                        Violation::new(
                            "C13:accepted-wrong-tip:remove",
                            format!("accepted removal at height {} but tip/height are {} / {}", tipb.height, t.0.block_hash(), w.tr.height()),
                        ),
                    )?;
                    return Ok(Flow::Stop);
                }
                if w.chain.is_empty() {
                    return Ok(Flow::Stop);
                }
                // the model follows what the tracker recorded
                w.chain.last_mut().unwrap().fh = supplied.1;
                if w.tr.headers().len() != w.window {
                    panic!("harness model: window {} but tracker remembers {}", w.window, w.tr.headers().len());
                }
                Ok(Flow::Continue)
            }
        }
    }
}

const FULL_ATT: Att = Att { mask: 7, untrusted: 0, bad_sig: false, dup: 0 };

impl Prop for C13 {
    type Case = Case;
    fn id(&self) -> &'static str {
        "C13"
    }
    fn rule(&self) -> String {
        "histories (<=25 steps quick, <=40 thorough) of add/remove requests against ChainTracker<RecListener> (SimpleValidatorFactory, \
         0-3 trusted oracle keys, 0-2 listeners each watching one outpoint, allow_deep_reorgs on in 1/5), started at regtest genesis, at a \
         synthetic regtest tip (heights 3,2014,2015,2016,4031,6047,150000; target max>>0/2/4; header window 0,1,2,3,6,98,99,100; tip with or \
         without filter header) or at the mainnet/testnet checkpoint (nothing mineable: refusals only). Each request: block content \
         (spends of watched outpoints, in-block chain spend, noise), delivery compact / streamed (1-3 chunks) / inline block, bits \
         *2^-3..3, one fault (link, pow, proof for other block / height / filter header, proof hiding a spend, streamed sibling, wrong \
         supplied previous header / filter header) and an attestation signer set (subset of trusted keys, 0-2 untrusted, forged \
         signature); bursts of 1..101 valid adds/removes; restart through ChainTracker::restore. Oracle: accepted request with a fault \
         the property names; any Err must leave tip, height, remembered headers, every ListenSlot and every listener's own state \
         (incl. streamed decode state) equal to before the request; valid request refused after an earlier rejection. \
         Non-trivial: a rejection issued from a tracker with >=2 remembered headers and >=1 watch, followed by an accepted valid \
         request of the same kind. Distinct by (kind, fault class, result) sequence."
            .into()
    }
    fn assumptions(&self) -> Vec<String> {
        vec![
            "regtest proof-of-work only: accepted paths at mainnet/testnet difficulty are not generated (cannot be mined); those networks get refusals only; the testnet 20-minute rule is not exercised".into(),
            "retarget rule = the x4 band and chain maximum (the tracker does not recompute the target from timestamps, TODO(511) in tracker.rs); timestamps are all 0".into(),
            "listeners are RecListener (records everything, modelled after ChainMonitor's push protocol); real ChainMonitor state is C14's business".into(),
            "block_chunk sequences are protocol conformant (offsets contiguous from 0, one block at a time, external proof iff streamed); malformed streams panic by contract and are not generated".into(),
            "a proof always carries >=1 attestation and all attestations carry the same filter header (anything else cannot be decoded from the wire or panics in TxoProof::filter_header)".into(),
            "streamed delivery: the attested filter header is not checkable by construction (no filter in the proof), so a wrong filter header is only injected with compact/inline delivery; with allow_deep_reorgs and no remembered header, the supplied previous headers are trusted by design, so an all-zero or (streamed) wrong supplied filter header is not injected".into(),
            "either-outcome requests (not judged for acceptance): inline-block proofs (refused as unsupported), removal with no remembered header, proof faults on top of a tip without filter header (documented bypass), forged signature beside a sufficient trusted majority, correct streamed removals (the tracker compares the streamed hash with the previous block's hash, so they are always refused: over-refusal, recorded as class chunk-remove:err:streamed-remove)".into(),
            "tracker errors are observed at the ChainTracker API; vls-protocol-signer's handler turns every error except OrphanBlock into a panic (process restart from the last persisted tracker), which is how a known mutated-state finding is continued from".into(),
        ]
    }
    fn cases(&self, tier: Tier) -> u32 {
        tier.pick(2000, 20_000)
    }
    fn min_nontrivial(&self, tier: Tier) -> usize {
        tier.pick(500, 5000)
    }
    fn strategy(&self, tier: Tier) -> BoxedStrategy<Case> {
        let n = tier.pick(25usize, 40usize);
        (
            start_strat(),
            0u8..4,
            0u8..3,
            prop_oneof![4 => Just(false), 1 => Just(true)],
            proptest::collection::vec(op_strat(), 1..=n),
            prop_oneof![40 => Just(None), 1 => (1u8..4, 0u8..9).prop_map(Some)],
        )
            .prop_map(|(start, oracles, listeners, allow_deep, ops, node_restore)| {
                if node_restore.is_some() {
                    Case { start: Start::Genesis, oracles: 1, listeners: 0, allow_deep: false, ops: vec![], node_restore }
                } else {
                    Case { start, oracles, listeners, allow_deep, ops, node_restore }
                }
            })
            .boxed()
    }
    fn fixed_cases(&self) -> Vec<Case> {
        if std::env::var("VERIF_NO_FIXED").is_ok() {
            // sensitivity runs: random histories only
            return vec![];
        }
        let add = |fault: Fault, delivery: Delivery| Op::Add {
            content: Content { spend: vec![], chain: false, noise: 0 },
            delivery,
            bits: 0,
            fault,
            att: FULL_ATT,
        };
        let rem = |fault: Fault, delivery: Delivery| Op::Remove { delivery, fault, att: FULL_ATT };
        let synth = Start::Synth { height: 0, diff: 0, window: 3, zero_fh: false };
        vec![
            // refused removal (bad proof) then correct removal
            Case {
                node_restore: None,
                start: synth.clone(),
                oracles: 1,
                listeners: 1,
                allow_deep: false,
                ops: vec![rem(Fault::ProofWrongHeight, Delivery::Compact), rem(Fault::None, Delivery::Compact)],
            },
            // refused streamed add (orphan) then correct streamed add
            Case {
                node_restore: None,
                start: synth.clone(),
                oracles: 1,
                listeners: 1,
                allow_deep: false,
                ops: vec![
                    add(Fault::Link(1), Delivery::Streamed { cuts: vec![] }),
                    add(Fault::None, Delivery::Streamed { cuts: vec![] }),
                ],
            },
            // refused compact add then correct add, wrong previous header on removal then correct removal
            Case {
                node_restore: None,
                start: synth,
                oracles: 3,
                listeners: 2,
                allow_deep: false,
                ops: vec![
                    add(Fault::Pow, Delivery::Compact),
                    add(Fault::None, Delivery::Compact),
                    rem(Fault::PrevHeader, Delivery::Compact),
                    rem(Fault::None, Delivery::Compact),
                ],
            },
            // a listener with far more than a hundred spent outpoints it still watches in reverse:
            // 150 blocks each spending one watched outpoint, then the last twelve are taken off again,
            // each first with a proof that hides the spend (refused), then correctly
            Case {
                node_restore: None,
                start: Start::Synth { height: 0, diff: 0, window: 3, zero_fh: false },
                oracles: 1,
                listeners: 1,
                allow_deep: false,
                ops: {
                    let mut ops = vec![];
                    for _ in 0..150 {
                        ops.push(Op::Add { content: Content { spend: vec![0], chain: false, noise: 0 }, delivery: Delivery::Compact, bits: 0, fault: Fault::None, att: FULL_ATT });
                    }
                    for _ in 0..12 {
                        ops.push(rem(Fault::ProofOmitsSpend, Delivery::Compact));
                        ops.push(rem(Fault::None, Delivery::Compact));
                    }
                    ops
                },
            },
        ]
        .into_iter()
        // the node-level scenario in each of its variants (tracker API and wire delivery)
        .chain((0u8..7).map(|variant| Case { start: Start::Genesis, oracles: 1, listeners: 0, allow_deep: false, ops: vec![], node_restore: Some((2, variant)) }))
        .collect()
    }
    fn run(&self, case: &Case, st: &mut CaseStats, ctx: &Ctx) -> Result<(), Violation> {
        if let Some((blocks, variant)) = case.node_restore {
            return run_node_restore(blocks, variant, st, ctx);
        }
        let mut w = World::new(case);
        st.class(match &case.start {
            Start::Genesis => "start:genesis",
            Start::Synth { zero_fh: true, .. } => "start:synthetic_tip_without_filter_header",
            Start::Synth { .. } => "start:synthetic",
            Start::Checkpoint { .. } => "start:checkpoint",
        });
        st.class(format!("oracles:{}", w.att.trusted.len()));
        st.class(format!("listeners:{}", case.listeners.min(2)));
        if case.allow_deep {
            st.class("allow_deep_reorgs");
        }
        let mut executed = 0usize;
        'ops: for op in case.ops.iter() {
            executed += 1;
            let flow = match op {
                Op::Add { content, delivery, bits, fault, att } => self.do_add(&mut w, st, ctx, content, delivery, *bits, fault, att)?,
                Op::Remove { delivery, fault, att } => self.do_remove(&mut w, st, ctx, delivery, fault, att)?,
                Op::AddBurst(n) => {
                    let n = if w.unmineable { 1 } else { BURSTS[(*n as usize).min(BURSTS.len() - 1)] };
                    st.class("add_burst");
                    let c = Content { spend: vec![], chain: false, noise: 0 };
                    for _ in 0..n {
                        if let Flow::Stop = self.do_add(&mut w, st, ctx, &c, &Delivery::Compact, 0, &Fault::None, &FULL_ATT)? {
                            break 'ops;
                        }
                    }
                    Flow::Continue
                }
                Op::RemoveBurst(n) => {
                    let n = BURSTS[(*n as usize).min(BURSTS.len() - 1)];
                    st.class("remove_burst");
                    for _ in 0..n {
                        let refusals = w.shape.iter().filter(|s| s.2 == 0).count();
                        if let Flow::Stop = self.do_remove(&mut w, st, ctx, &Delivery::Compact, &Fault::None, &FULL_ATT)? {
                            break 'ops;
                        }
                        if w.shape.iter().filter(|s| s.2 == 0).count() > refusals {
                            break;
                        }
                    }
                    Flow::Continue
                }
                Op::Restart => {
                    let snap = Snap::take(&w.tr);
                    w.restart(&snap);
                    let again = Snap::take(&w.tr);
                    if snap != again {
                        // the restored tracker checks later proofs against another set of watched
                        // outpoints (or remembers another tip / header window) than the one that
                        // was persisted: blocks would be accepted or refused on other grounds than
                        // before the restart
                        let (names, d) = snap.diff(&again);
                        let comp: String = names.first().map(|c| c.to_string()).unwrap_or_default();
                        ctx.report(st, Violation::new(
                            format!("C13:restart-changed-tracker-state:{}", comp),
                            format!("a tracker restored from its persisted entry and listener entries differs from the persisted one in {:?}: later unspent-output proofs are checked against a different set of watched outpoints", d),
                        ))?;
                        break 'ops;
                    }
                    st.class("restart");
                    w.shape.push((2, "restart", 1));
                    Flow::Continue
                }
            };
            if let Flow::Stop = flow {
                break;
            }
        }
        st.class_n("ops_executed", executed as u64);
        if w.any_rejection {
            st.class("case_with_rejection");
        }
        if w.nontrivial {
            st.class("case_nontrivial");
            st.nontrivial_shape(&w.shape);
        }
        st.sample = Some(json!({ "case": case, "outcomes": w.shape.iter().map(|(k, c, r)| format!("{}:{}:{}", ["add", "remove", "restart"][*k as usize], c, ["err", "ok", "panic"][*r as usize])).collect::<Vec<_>>() }));
        Ok(())
    }
}

#[allow(unused)]
fn _t(_: BlockHeader) {}
