//! C19 — protocol messages survive the wire unchanged.
//!
//! G1 (structured): `build.rs` parses `vls-protocol/src/msgs.rs` + `model.rs` of the tree under
//! test and emits, for every variant of `enum Message`, a strategy producing a serialisable
//! value tree `V` and a builder `V -> Message` that only uses the public struct literals /
//! constructors.  The leaf strategies (integers with boundary values, fixed arrays, `Octets`,
//! `WireString`, transactions, PSBTs, proofs, ...) are the hand-written table below.
//! G2 (bytes, thorough tier): byte-level mutations of G1's encodings.
//!
//! Oracle: `m2 = msgs::from_vec(m.as_vec())` is `Ok`, the same message type,
//! `m2.as_vec() == m.as_vec()` and `Debug(m2) == Debug(m)`; the typed entry point
//! `<T as DeBolt>::from_vec` (used by the node side for replies) must agree.  For requests
//! carrying a streamed PSBT: decoded unsigned tx == source tx, per input the decoded
//! `witness_utxo` == the output the source PSBT designates, segwit flag == (the source PSBT
//! carries the full previous transaction for that input AND the designated output's script is
//! a BIP-141 witness program), every other PSBT field and every non-PSBT field unchanged.

use crate::engine::*;
use proptest::collection::vec as pvec;
use proptest::prelude::*;
use serde::{Deserialize, Serialize};
use serde_bolt::bitcoin;
use serde_bolt::{Array, ArrayBE, LargeOctets, Octets, WireString, WithSize};
use serde_json::json;
use std::collections::BTreeMap;
use std::panic::{catch_unwind, AssertUnwindSafe};
use std::sync::atomic::{AtomicU64, Ordering};

use bitcoin::absolute::LockTime;
use bitcoin::bip32::{ChildNumber, DerivationPath, Fingerprint};
use bitcoin::block::Header as BlockHeader;
use bitcoin::consensus::{deserialize, serialize};
use bitcoin::hashes::Hash;
use bitcoin::psbt::{Input, Output, Psbt};
use bitcoin::secp256k1::{PublicKey, Secp256k1, SecretKey};
use bitcoin::transaction::Version;
use bitcoin::{
    Amount, Block, BlockHash, OutPoint, ScriptBuf, Sequence, Transaction, TxIn, TxOut, Txid, Witness,
};
use txoo::bitcoin::hash_types::FilterHeader;
use txoo::proof::{ProofType, TxoProof};
use vls_protocol::model::*;
use vls_protocol::msgs::*;
use vls_protocol::psbt::{PsbtWrapper, StreamedPSBT};

/// The codec's own limit (`MAX_MESSAGE_SIZE` in msgs.rs is private): messages above it are
/// refused by `from_vec` by design, so they are outside the generated domain.
const MAX_MESSAGE_SIZE: usize = 128 * 1024;
/// budget used to size "the largest array that fits"
const ARRAY_BUDGET: usize = 100 * 1024;

// ---------------------------------------------------------------------------------------------
// serialisable value tree

mod hexbytes {
    use serde::{Deserialize, Deserializer, Serializer};
    pub fn serialize<S: Serializer>(v: &Vec<u8>, s: S) -> Result<S::Ok, S::Error> {
        s.serialize_str(&hex::encode(v))
    }
    pub fn deserialize<'de, D: Deserializer<'de>>(d: D) -> Result<Vec<u8>, D::Error> {
        let s = String::deserialize(d)?;
        hex::decode(s).map_err(serde::de::Error::custom)
    }
}

/// A field value.  `U` integers and booleans, `F` fixed-size byte arrays, `B` variable-length
/// bytes (also consensus-serialised transactions / PSBTs), `L` arrays, `O` options, `R` records
/// (struct fields in declaration order).
#[derive(Clone, Debug, Serialize, Deserialize, PartialEq, Eq, Hash)]
pub enum V {
    U(u64),
    F(#[serde(with = "hexbytes")] Vec<u8>),
    B(#[serde(with = "hexbytes")] Vec<u8>),
    L(Vec<V>),
    O(Option<Box<V>>),
    R(Vec<V>),
}

fn malformed(what: &str, v: &V) -> ! {
    let mut s = format!("{:?}", v);
    s.truncate(200);
    panic!("malformed C19 case: expected {}, found {}", what, s)
}

pub fn as_u(v: &V) -> u64 {
    match v {
        V::U(x) => *x,
        _ => malformed("integer", v),
    }
}
pub fn as_bytes(v: &V) -> &Vec<u8> {
    match v {
        V::B(x) => x,
        _ => malformed("bytes", v),
    }
}
pub fn as_fixed<const N: usize>(v: &V) -> [u8; N] {
    match v {
        V::F(x) if x.len() == N => {
            let mut a = [0u8; N];
            a.copy_from_slice(x);
            a
        }
        _ => malformed("fixed bytes", v),
    }
}
pub fn as_list(v: &V) -> &Vec<V> {
    match v {
        V::L(x) => x,
        _ => malformed("list", v),
    }
}
pub fn as_opt(v: &V) -> Option<&V> {
    match v {
        V::O(x) => x.as_deref(),
        _ => malformed("option", v),
    }
}
pub fn as_rec<'a>(v: &'a V, n: usize, name: &str) -> &'a Vec<V> {
    match v {
        V::R(x) if x.len() == n => x,
        _ => malformed(&format!("record {} with {} fields", name, n), v),
    }
}

/// non-trivial: at least one non-empty variable-length field or a present option
fn nontrivial(v: &V) -> bool {
    match v {
        V::U(_) | V::F(_) => false,
        V::B(b) => !b.is_empty(),
        V::L(l) => !l.is_empty(),
        V::O(o) => o.is_some(),
        V::R(r) => r.iter().any(nontrivial),
    }
}

fn bucket(n: usize) -> u8 {
    match n {
        0 => 0,
        1 => 1,
        2..=16 => 2,
        17..=255 => 3,
        256..=4095 => 4,
        4096..=65534 => 5,
        _ => 6,
    }
}

/// abstract shape: lengths bucketed, option presence, integers/fixed arrays ignored
fn shape(v: &V, out: &mut Vec<u8>) {
    match v {
        V::U(_) => out.push(0x10),
        V::F(_) => out.push(0x11),
        V::B(b) => {
            out.push(0x20);
            out.push(bucket(b.len()));
        }
        V::L(l) => {
            out.push(0x30);
            out.push(bucket(l.len()));
            for x in l.iter().take(3) {
                shape(x, out);
            }
            out.push(0x3f);
        }
        V::O(o) => match o {
            Some(x) => {
                out.push(0x41);
                shape(x, out);
            }
            None => out.push(0x40),
        },
        V::R(r) => {
            out.push(0x50);
            for x in r {
                shape(x, out);
            }
            out.push(0x5f);
        }
    }
}

// ---------------------------------------------------------------------------------------------
// generic combinators used by the generated code

/// generation parameters; `minimal` makes every leaf produce its smallest value (used for the
/// elements of "largest array that fits")
#[derive(Clone, Copy, Debug)]
pub struct P {
    pub minimal: bool,
}

pub fn rec(fields: Vec<BoxedStrategy<V>>) -> BoxedStrategy<V> {
    fields.prop_map(V::R).boxed()
}

pub fn opt(inner: BoxedStrategy<V>) -> BoxedStrategy<V> {
    prop_oneof![
        2 => Just(V::O(None)),
        3 => inner.prop_map(|x| V::O(Some(Box::new(x)))),
    ]
    .boxed()
}

/// arrays: empty / one / several / many / the largest count that fits the message size limit
/// (u16 count prefix: at most 65535)
pub fn arr(elem: &dyn Fn(&P) -> BoxedStrategy<V>, elem_min: usize, p: &P) -> BoxedStrategy<V> {
    if p.minimal {
        return Just(V::L(vec![])).boxed();
    }
    let e = elem(p);
    let max_fit = std::cmp::min(65535, ARRAY_BUDGET / std::cmp::max(1, elem_min));
    let min_elem = elem(&P { minimal: true });
    prop_oneof![
        28 => Just(V::L(vec![])),
        25 => pvec(e.clone(), 1..=1).prop_map(V::L),
        35 => pvec(e.clone(), 2..=4).prop_map(V::L),
        9 => pvec(e.clone(), 5..=40).prop_map(V::L),
        1 => pvec(e.clone(), 200..=400).prop_map(V::L),
        2 => (min_elem.clone(), 0usize..=2).prop_map(move |(x, d)| V::L(vec![x; max_fit - d])),
        2 => (min_elem, e, 0usize..=2).prop_map(move |(x, last, d)| {
            // maximal count, last element random
            let mut l = vec![x; max_fit - d - 1];
            l.push(last);
            V::L(l)
        }),
    ]
    .boxed()
}

pub fn fixed_bytes(n: usize, p: &P) -> BoxedStrategy<V> {
    if p.minimal {
        return Just(V::F(vec![0; n])).boxed();
    }
    prop_oneof![
        1 => Just(V::F(vec![0; n])),
        1 => Just(V::F(vec![0xff; n])),
        1 => Just(V::F((0..n).map(|i| i as u8 + 1).collect())),
        9 => pvec(any::<u8>(), n..=n).prop_map(V::F),
    ]
    .boxed()
}

fn pattern(len: usize, a: u8, b: u8) -> Vec<u8> {
    (0..len).map(|i| (i as u8).wrapping_mul(a | 1).wrapping_add(b)).collect()
}

/// variable-length bytes with a u16 length prefix: empty / 1 / small / medium / large / maximal
fn octets_bytes(max: usize) -> BoxedStrategy<Vec<u8>> {
    prop_oneof![
        20 => Just(vec![]),
        10 => pvec(any::<u8>(), 1..=1),
        45 => pvec(any::<u8>(), 2..=40),
        17 => pvec(any::<u8>(), 41..=300),
        5 => (301usize..=5000, any::<u8>(), any::<u8>()).prop_map(|(n, a, b)| pattern(n, a, b)),
        2 => (any::<u8>(), any::<u8>()).prop_map(move |(a, b)| pattern(max, a, b)),
        1 => (40_000usize..=65_534, any::<u8>(), any::<u8>()).prop_map(move |(n, a, b)| pattern(std::cmp::min(n, max), a, b)),
    ]
    .boxed()
}

// ---------------------------------------------------------------------------------------------
// leaf table (names are referenced by build.rs)

fn uint(bits: u32, p: &P) -> BoxedStrategy<V> {
    if p.minimal {
        return Just(V::U(0)).boxed();
    }
    let max: u64 = if bits == 64 { u64::MAX } else { (1u64 << bits) - 1 };
    let mut edges: Vec<u64> = vec![0, 1, 2, 0x7f, 0x80, 0xff, 0x100, 0x7fff, 0x8000, 0xffff, 0x1_0000, 0x7fff_ffff,
        0x8000_0000, 0xffff_ffff, 0x1_0000_0000, i64::MAX as u64, 1u64 << 63, u64::MAX - 1, u64::MAX,
        0x0102_0304_0506_0708, 0x0102_0304, 0x0102];
    edges.retain(|e| *e <= max);
    edges.push(max);
    edges.push(max - 1);
    prop_oneof![
        2 => proptest::sample::select(edges).prop_map(V::U),
        3 => (0u64..=max).prop_map(V::U),
    ]
    .boxed()
}

#[allow(non_snake_case)]
pub fn leaf_strat_u8(p: &P) -> BoxedStrategy<V> {
    uint(8, p)
}
#[allow(non_snake_case)]
pub fn leaf_strat_u16(p: &P) -> BoxedStrategy<V> {
    uint(16, p)
}
#[allow(non_snake_case)]
pub fn leaf_strat_u32(p: &P) -> BoxedStrategy<V> {
    uint(32, p)
}
#[allow(non_snake_case)]
pub fn leaf_strat_u64(p: &P) -> BoxedStrategy<V> {
    uint(64, p)
}
pub fn leaf_strat_bool(p: &P) -> BoxedStrategy<V> {
    if p.minimal {
        return Just(V::U(0)).boxed();
    }
    (0u64..=1).prop_map(V::U).boxed()
}
pub fn leaf_build_u8(v: &V) -> u8 {
    u8::try_from(as_u(v)).expect("u8 range")
}
pub fn leaf_build_u16(v: &V) -> u16 {
    u16::try_from(as_u(v)).expect("u16 range")
}
pub fn leaf_build_u32(v: &V) -> u32 {
    u32::try_from(as_u(v)).expect("u32 range")
}
pub fn leaf_build_u64(v: &V) -> u64 {
    as_u(v)
}
pub fn leaf_build_bool(v: &V) -> bool {
    as_u(v) != 0
}

#[allow(non_snake_case)]
pub fn leaf_strat_Octets(p: &P) -> BoxedStrategy<V> {
    if p.minimal {
        return Just(V::B(vec![])).boxed();
    }
    octets_bytes(65535).prop_map(V::B).boxed()
}
#[allow(non_snake_case)]
pub fn leaf_build_Octets(v: &V) -> Octets {
    Octets(as_bytes(v).clone())
}

#[allow(non_snake_case)]
pub fn leaf_strat_LargeOctets(p: &P) -> BoxedStrategy<V> {
    if p.minimal {
        return Just(V::B(vec![])).boxed();
    }
    prop_oneof![
        30 => octets_bytes(65535).prop_map(V::B),
        1 => (65_536usize..=120_000, any::<u8>(), any::<u8>()).prop_map(|(n, a, b)| V::B(pattern(n, a, b))),
    ]
    .boxed()
}
#[allow(non_snake_case)]
pub fn leaf_build_LargeOctets(v: &V) -> LargeOctets {
    LargeOctets(as_bytes(v).clone())
}

/// zero-terminated string: any bytes except NUL (the encoder's documented precondition),
/// both valid UTF-8 and not
#[allow(non_snake_case)]
pub fn leaf_strat_WireString(p: &P) -> BoxedStrategy<V> {
    if p.minimal {
        return Just(V::B(vec![])).boxed();
    }
    prop_oneof![
        15 => Just(vec![]),
        40 => pvec(0x20u8..0x7f, 1..=20),
        25 => pvec(1u8..=255, 1..=20),
        10 => pvec(0x20u8..0x7f, 21..=200),
        8 => "\\PC{1,12}".prop_map(|s| s.into_bytes().into_iter().filter(|b| *b != 0).collect()),
        2 => (1000usize..=3000, 1u8..=255).prop_map(|(n, a)| vec![a; n]),
    ]
    .prop_map(V::B)
    .boxed()
}
#[allow(non_snake_case)]
pub fn leaf_build_WireString(v: &V) -> WireString {
    WireString(as_bytes(v).clone())
}

// --- scripts, transactions ---

/// scriptPubKeys: witness programs of every length class, legacy scripts, and near misses
fn script_strat() -> BoxedStrategy<Vec<u8>> {
    fn prog(ver: u8, p: Vec<u8>) -> Vec<u8> {
        let mut s = vec![ver, p.len() as u8];
        s.extend(p);
        s
    }
    prop_oneof![
        // witness programs
        4 => pvec(any::<u8>(), 20..=20).prop_map(|h| prog(0x00, h)),
        3 => pvec(any::<u8>(), 32..=32).prop_map(|h| prog(0x00, h)),
        3 => pvec(any::<u8>(), 32..=32).prop_map(|h| prog(0x51, h)),
        1 => (0x51u8..=0x60, pvec(any::<u8>(), 2..=40)).prop_map(|(ver, h)| prog(ver, h)),
        1 => pvec(any::<u8>(), 2..=2).prop_map(|h| prog(0x60, h)),
        1 => pvec(any::<u8>(), 40..=40).prop_map(|h| prog(0x52, h)),
        // legacy
        3 => pvec(any::<u8>(), 20..=20).prop_map(|h| {
            let mut s = vec![0x76, 0xa9, 0x14];
            s.extend(h);
            s.extend([0x88, 0xac]);
            s
        }),
        3 => pvec(any::<u8>(), 20..=20).prop_map(|h| {
            let mut s = vec![0xa9, 0x14];
            s.extend(h);
            s.push(0x87);
            s
        }),
        1 => Just(vec![]),
        // near misses of a witness program
        1 => pvec(any::<u8>(), 19..=19).prop_map(|h| { let mut s = vec![0x00, 0x14]; s.extend(h); s }),
        1 => pvec(any::<u8>(), 21..=21).prop_map(|h| { let mut s = vec![0x00, 0x14]; s.extend(h); s }),
        1 => pvec(any::<u8>(), 41..=41).prop_map(|h| prog(0x00, h)),
        1 => pvec(any::<u8>(), 1..=1).prop_map(|h| prog(0x51, h)),
        1 => pvec(any::<u8>(), 20..=20).prop_map(|h| prog(0x4f, h)),
        1 => pvec(any::<u8>(), 20..=20).prop_map(|h| prog(0x61, h)),
        1 => pvec(any::<u8>(), 20..=20).prop_map(|h| { let mut s = vec![0x00, 0x4c, 0x14]; s.extend(h); s }),
        1 => pvec(any::<u8>(), 20..=20).prop_map(|h| { let mut s = prog(0x00, h); s.push(0x51); s }),
        2 => pvec(any::<u8>(), 1..=50),
    ]
    .boxed()
}

fn amount_strat() -> BoxedStrategy<u64> {
    prop_oneof![
        1 => Just(0u64),
        1 => Just(1u64),
        1 => Just(546u64),
        1 => Just(21_000_000u64 * 100_000_000),
        1 => Just(u64::MAX),
        5 => any::<u64>(),
        5 => 0u64..=10_000_000,
    ]
    .boxed()
}

fn u32_edge() -> BoxedStrategy<u32> {
    prop_oneof![
        1 => Just(0u32),
        1 => Just(1u32),
        1 => Just(499_999_999u32),
        1 => Just(500_000_000u32),
        1 => Just(0xffff_fffeu32),
        1 => Just(u32::MAX),
        4 => any::<u32>(),
    ]
    .boxed()
}

fn txout_strat() -> BoxedStrategy<TxOut> {
    (amount_strat(), script_strat())
        .prop_map(|(v, s)| TxOut { value: Amount::from_sat(v), script_pubkey: ScriptBuf::from_bytes(s) })
        .boxed()
}

/// a transaction; `signed` = inputs may carry scriptSigs and witnesses
fn tx_strat(min_in: usize, max_in: usize, min_out: usize, max_out: usize, signed: bool) -> BoxedStrategy<Transaction> {
    let input = (
        pvec(any::<u8>(), 32..=32),
        u32_edge(),
        if signed { pvec(any::<u8>(), 0..=30).boxed() } else { Just(vec![]).boxed() },
        u32_edge(),
        if signed { pvec(pvec(any::<u8>(), 0..=40), 0..=3).boxed() } else { Just(vec![]).boxed() },
    )
        .prop_map(|(txid, vout, ss, seq, wit)| TxIn {
            previous_output: OutPoint { txid: Txid::from_slice(&txid).unwrap(), vout },
            script_sig: ScriptBuf::from_bytes(ss),
            sequence: Sequence(seq),
            witness: Witness::from_slice(&wit),
        });
    (
        prop_oneof![3 => Just(2i32), 2 => Just(1i32), 1 => Just(0i32), 1 => Just(-1i32), 1 => Just(i32::MAX), 1 => any::<i32>()],
        u32_edge(),
        pvec(input, min_in..=max_in),
        pvec(txout_strat(), min_out..=max_out),
    )
        .prop_map(|(ver, lt, input, output)| Transaction {
            version: Version(ver),
            lock_time: LockTime::from_consensus(lt),
            input,
            output,
        })
        .boxed()
}

fn empty_tx() -> Transaction {
    Transaction { version: Version(2), lock_time: LockTime::ZERO, input: vec![], output: vec![] }
}

#[allow(non_snake_case)]
pub fn leaf_strat_Transaction(p: &P) -> BoxedStrategy<V> {
    if p.minimal {
        return Just(V::B(serialize(&empty_tx()))).boxed();
    }
    tx_strat(0, 3, 0, 3, true).prop_map(|tx| V::B(serialize(&tx))).boxed()
}
#[allow(non_snake_case)]
pub fn leaf_build_Transaction(v: &V) -> Transaction {
    deserialize(as_bytes(v)).expect("case holds a consensus-serialised transaction")
}

// --- PSBTs ---

fn test_pubkeys() -> Vec<PublicKey> {
    let secp = Secp256k1::new();
    (1u8..=4).map(|i| PublicKey::from_secret_key(&secp, &SecretKey::from_slice(&[i; 32]).unwrap())).collect()
}

type Derivs = Vec<(u8, [u8; 4], Vec<u32>)>;

fn derivs_strat() -> BoxedStrategy<Derivs> {
    prop_oneof![
        2 => Just(vec![]),
        3 => pvec((0u8..4, any::<[u8; 4]>(), pvec(u32_edge(), 0..=3)), 1..=2),
    ]
    .boxed()
}

fn derivs_map(d: &Derivs) -> BTreeMap<PublicKey, (Fingerprint, DerivationPath)> {
    let keys = test_pubkeys();
    d.iter()
        .map(|(k, fp, path)| {
            let path: Vec<ChildNumber> = path.iter().map(|c| ChildNumber::from(*c)).collect();
            (keys[*k as usize % keys.len()], (Fingerprint::from(*fp), DerivationPath::from(path)))
        })
        .collect()
}

fn opt_script() -> BoxedStrategy<Option<Vec<u8>>> {
    prop_oneof![2 => Just(None), 1 => script_strat().prop_map(Some)].boxed()
}

#[derive(Clone, Debug)]
struct InSpec {
    /// 0 none, 1 witness_utxo only, 2 non_witness_utxo only, 3 both (consistent)
    mode: u8,
    prev: Transaction,
    vout_sel: u16,
    wutxo: TxOut,
    free_prevout: (Vec<u8>, u32),
    sequence: u32,
    redeem: Option<Vec<u8>>,
    wscript: Option<Vec<u8>>,
    derivs: Derivs,
    sighash: Option<u32>,
    final_sig: Option<Vec<u8>>,
    final_wit: Option<Vec<Vec<u8>>>,
    unknown: Option<(Vec<u8>, Vec<u8>)>,
}

fn inspec_strat() -> BoxedStrategy<InSpec> {
    (
        (
            prop_oneof![1 => Just(0u8), 2 => Just(1u8), 3 => Just(2u8), 2 => Just(3u8)],
            tx_strat(0, 2, 1, 3, true),
            any::<u16>(),
            txout_strat(),
            (pvec(any::<u8>(), 32..=32), u32_edge()),
            u32_edge(),
        ),
        (
            opt_script(),
            opt_script(),
            derivs_strat(),
            prop_oneof![3 => Just(None), 1 => prop_oneof![Just(1u32), Just(0x81u32), Just(0u32), any::<u32>()].prop_map(Some)],
            prop_oneof![4 => Just(None), 1 => pvec(any::<u8>(), 0..=30).prop_map(Some)],
            prop_oneof![4 => Just(None), 1 => pvec(pvec(any::<u8>(), 0..=40), 0..=3).prop_map(Some)],
            prop_oneof![5 => Just(None), 1 => (pvec(any::<u8>(), 0..=8), pvec(any::<u8>(), 0..=20)).prop_map(Some)],
        ),
    )
        .prop_map(|((mode, prev, vout_sel, wutxo, free_prevout, sequence), (redeem, wscript, derivs, sighash, final_sig, final_wit, unknown))| InSpec {
            mode,
            prev,
            vout_sel,
            wutxo,
            free_prevout,
            sequence,
            redeem,
            wscript,
            derivs,
            sighash,
            final_sig,
            final_wit,
            unknown,
        })
        .boxed()
}

/// A PSBT in which every `non_witness_utxo` is the transaction its input spends (txid matches,
/// the output exists) and a `witness_utxo` given next to it equals that output: the only PSBTs
/// the streaming decoder is documented to accept.
fn psbt_strat() -> BoxedStrategy<Psbt> {
    (
        prop_oneof![3 => Just(2i32), 1 => Just(1i32), 1 => any::<i32>()],
        u32_edge(),
        pvec(inspec_strat(), 0..=3),
        pvec((txout_strat(), opt_script(), opt_script(), derivs_strat()), 0..=3),
        prop_oneof![5 => Just(None), 1 => (pvec(any::<u8>(), 0..=8), pvec(any::<u8>(), 0..=20)).prop_map(Some)],
        // size padding (one large unknown global entry): PSBTs around and beyond 64 KiB, still
        // well inside the 128 KiB message limit
        prop_oneof![30 => Just(0usize), 1 => 65_300usize..65_700, 1 => 70_000usize..100_000],
        // inputs (by position) that spend another output of the same previous transaction as the
        // nearest earlier input that carries its previous transaction
        prop_oneof![2 => Just(0u8), 1 => any::<u8>()],
    )
        .prop_map(|(ver, lt, ins, outs, gunknown, pad, share_mask)| {
            let mut txins = vec![];
            let mut inputs = vec![];
            let mut last_prev: Option<(Transaction, u32)> = None;
            for (pos, s) in ins.iter().enumerate() {
                let mut inp = Input::default();
                let prevout = if s.mode >= 2 {
                    let (prev, vout) = match &last_prev {
                        Some((lp, lv)) if share_mask >> pos & 1 == 1 && lp.output.len() >= 2 => {
                            // another output of the same parent
                            let n = lp.output.len() as u32;
                            (lp.clone(), (lv + 1 + pick_idx(s.vout_sel, (n - 1) as usize) as u32) % n)
                        }
                        _ => (s.prev.clone(), pick_idx(s.vout_sel, s.prev.output.len()) as u32),
                    };
                    if s.mode == 3 {
                        inp.witness_utxo = Some(prev.output[vout as usize].clone());
                    }
                    inp.non_witness_utxo = Some(prev.clone());
                    last_prev = Some((prev.clone(), vout));
                    OutPoint { txid: prev.compute_txid(), vout }
                } else {
                    if s.mode == 1 {
                        inp.witness_utxo = Some(s.wutxo.clone());
                    }
                    OutPoint { txid: Txid::from_slice(&s.free_prevout.0).unwrap(), vout: s.free_prevout.1 }
                };
                inp.redeem_script = s.redeem.clone().map(ScriptBuf::from_bytes);
                inp.witness_script = s.wscript.clone().map(ScriptBuf::from_bytes);
                inp.bip32_derivation = derivs_map(&s.derivs);
                inp.sighash_type = s.sighash.map(bitcoin::psbt::PsbtSighashType::from_u32);
                inp.final_script_sig = s.final_sig.clone().map(ScriptBuf::from_bytes);
                inp.final_script_witness = s.final_wit.as_ref().map(|w| Witness::from_slice(w));
                if let Some((k, val)) = &s.unknown {
                    inp.unknown.insert(bitcoin::psbt::raw::Key { type_value: 0xdd, key: k.clone() }, val.clone());
                }
                txins.push(TxIn {
                    previous_output: prevout,
                    script_sig: ScriptBuf::new(),
                    sequence: Sequence(s.sequence),
                    witness: Witness::default(),
                });
                inputs.push(inp);
            }
            let mut txouts = vec![];
            let mut outputs = vec![];
            for (txo, redeem, wscript, derivs) in outs.iter() {
                let mut o = Output::default();
                o.redeem_script = redeem.clone().map(ScriptBuf::from_bytes);
                o.witness_script = wscript.clone().map(ScriptBuf::from_bytes);
                o.bip32_derivation = derivs_map(derivs);
                txouts.push(txo.clone());
                outputs.push(o);
            }
            let mut unknown = BTreeMap::new();
            if let Some((k, val)) = gunknown {
                unknown.insert(bitcoin::psbt::raw::Key { type_value: 0xdd, key: k }, val);
            }
            if pad > 0 {
                unknown.insert(bitcoin::psbt::raw::Key { type_value: 0xde, key: vec![0x70, 0x61, 0x64] }, vec![0xab; pad]);
            }
            Psbt {
                unsigned_tx: Transaction {
                    version: Version(ver),
                    lock_time: LockTime::from_consensus(lt),
                    input: txins,
                    output: txouts,
                },
                version: 0,
                xpub: Default::default(),
                proprietary: BTreeMap::new(),
                unknown,
                inputs,
                outputs,
            }
        })
        .boxed()
}

fn empty_psbt() -> Psbt {
    Psbt {
        unsigned_tx: empty_tx(),
        version: 0,
        xpub: Default::default(),
        proprietary: BTreeMap::new(),
        unknown: BTreeMap::new(),
        inputs: vec![],
        outputs: vec![],
    }
}

fn psbt_from_case(v: &V) -> Psbt {
    Psbt::deserialize(as_bytes(v)).expect("case holds a serialised PSBT")
}

#[allow(non_snake_case)]
pub fn leaf_strat_PsbtWrapper(p: &P) -> BoxedStrategy<V> {
    if p.minimal {
        return Just(V::B(empty_psbt().serialize())).boxed();
    }
    psbt_strat().prop_map(|p| V::B(p.serialize())).boxed()
}
#[allow(non_snake_case)]
pub fn leaf_build_PsbtWrapper(v: &V) -> PsbtWrapper {
    PsbtWrapper::from(psbt_from_case(v))
}
#[allow(non_snake_case)]
pub fn leaf_strat_StreamedPSBT(p: &P) -> BoxedStrategy<V> {
    leaf_strat_PsbtWrapper(p)
}
#[allow(non_snake_case)]
pub fn leaf_build_StreamedPSBT(v: &V) -> StreamedPSBT {
    StreamedPSBT::new(psbt_from_case(v))
}

// --- hashes, headers, proofs ---

#[allow(non_snake_case)]
pub fn leaf_strat_BlockHeader(p: &P) -> BoxedStrategy<V> {
    fixed_bytes(80, p)
}
#[allow(non_snake_case)]
pub fn leaf_build_BlockHeader(v: &V) -> BlockHeader {
    deserialize(&as_fixed::<80>(v)).expect("80 bytes are a block header")
}
#[allow(non_snake_case)]
pub fn leaf_strat_FilterHeader(p: &P) -> BoxedStrategy<V> {
    fixed_bytes(32, p)
}
#[allow(non_snake_case)]
pub fn leaf_build_FilterHeader(v: &V) -> FilterHeader {
    FilterHeader::from_byte_array(as_fixed::<32>(v))
}
#[allow(non_snake_case)]
pub fn leaf_strat_BlockHash(p: &P) -> BoxedStrategy<V> {
    fixed_bytes(32, p)
}
#[allow(non_snake_case)]
pub fn leaf_build_BlockHash(v: &V) -> BlockHash {
    BlockHash::from_byte_array(as_fixed::<32>(v))
}
#[allow(non_snake_case)]
pub fn leaf_strat_Txid(p: &P) -> BoxedStrategy<V> {
    fixed_bytes(32, p)
}
#[allow(non_snake_case)]
pub fn leaf_build_Txid(v: &V) -> Txid {
    Txid::from_byte_array(as_fixed::<32>(v))
}
#[allow(non_snake_case)]
pub fn leaf_strat_OutPoint(p: &P) -> BoxedStrategy<V> {
    if p.minimal {
        return rec(vec![fixed_bytes(32, p), uint(32, p)]);
    }
    rec(vec![fixed_bytes(32, p), uint(32, p)])
}
#[allow(non_snake_case)]
pub fn leaf_build_OutPoint(v: &V) -> OutPoint {
    let f = as_rec(v, 2, "OutPoint");
    OutPoint { txid: Txid::from_byte_array(as_fixed::<32>(&f[0])), vout: leaf_build_u32(&f[1]) }
}

/// A TXOO proof built the way the chain follower builds it (`TxoProof::prove_unchecked` with the
/// dummy oracle key) over a small block; kind 0 = filter + SPV proof, 1 = whole block,
/// 2 = external block.  The case stores (block, previous filter header, height, kind).
#[allow(non_snake_case)]
pub fn leaf_strat_DebugTxoProof(p: &P) -> BoxedStrategy<V> {
    let block = |txs: BoxedStrategy<Vec<Transaction>>| {
        (pvec(any::<u8>(), 80..=80), txs).prop_map(|(h, txdata)| {
            let header: BlockHeader = deserialize(&h).unwrap();
            V::B(serialize(&Block { header, txdata }))
        })
    };
    if p.minimal {
        return rec(vec![
            block(Just(vec![empty_tx()]).boxed()).boxed(),
            fixed_bytes(32, p),
            uint(32, p),
            Just(V::U(2)).boxed(),
        ]);
    }
    rec(vec![
        block(pvec(tx_strat(0, 2, 0, 2, true), 1..=3).boxed()).boxed(),
        fixed_bytes(32, p),
        uint(32, p),
        (0u64..=2).prop_map(V::U).boxed(),
    ])
}
#[allow(non_snake_case)]
pub fn leaf_build_DebugTxoProof(v: &V) -> DebugTxoProof {
    let f = as_rec(v, 4, "DebugTxoProof");
    let block: Block = deserialize(as_bytes(&f[0])).expect("case holds a block");
    let pfh = FilterHeader::from_byte_array(as_fixed::<32>(&f[1]));
    let mut proof = TxoProof::prove_unchecked(&block, &pfh, leaf_build_u32(&f[2]));
    match as_u(&f[3]) {
        1 => proof.proof = ProofType::Block(block),
        2 => proof.proof = ProofType::ExternalBlock(),
        _ => {}
    }
    DebugTxoProof(proof)
}

// ---------------------------------------------------------------------------------------------
// generated registry, strategies and builders

#[allow(clippy::all, unused_variables, dead_code)]
mod gen {
    use super::*;
    include!(concat!(env!("OUT_DIR"), "/c19_gen.rs"));
}
pub use gen::REGISTRY;

fn registry_index(name: &str) -> usize {
    REGISTRY.iter().position(|e| e.name == name).unwrap_or_else(|| panic!("C19 case names message type {} which is not in the registry", name))
}

/// per-type evaluation counters (whole process), read by `min_nontrivial` at the end of the run
static HITS: [AtomicU64; 512] = [const { AtomicU64::new(0) }; 512];

// ---------------------------------------------------------------------------------------------
// case

#[derive(Clone, Debug, Serialize, Deserialize, PartialEq)]
pub enum Mutation {
    Flip { pos: u16, bit: u8 },
    Set { pos: u16, val: u8 },
    Truncate { keep: u16 },
    Extend { tail: Vec<u8> },
    Insert { pos: u16, bytes: Vec<u8> },
    Delete { pos: u16, n: u8 },
}

#[derive(Clone, Debug, Serialize, Deserialize)]
pub struct Case {
    /// message struct name (registry entry)
    pub msg: String,
    /// field values
    pub v: V,
    /// G2: byte-level mutations applied to the encoding (empty = G1)
    #[serde(default)]
    pub mutations: Vec<Mutation>,
}

fn mutation_strat() -> BoxedStrategy<Mutation> {
    prop_oneof![
        4 => (any::<u16>(), 0u8..8).prop_map(|(pos, bit)| Mutation::Flip { pos, bit }),
        3 => (any::<u16>(), prop_oneof![Just(0u8), Just(1u8), Just(0xffu8), Just(0xfdu8), Just(0xfeu8), any::<u8>()])
            .prop_map(|(pos, val)| Mutation::Set { pos, val }),
        2 => any::<u16>().prop_map(|keep| Mutation::Truncate { keep }),
        2 => pvec(any::<u8>(), 1..=8).prop_map(|tail| Mutation::Extend { tail }),
        1 => (any::<u16>(), pvec(any::<u8>(), 1..=4)).prop_map(|(pos, bytes)| Mutation::Insert { pos, bytes }),
        1 => (any::<u16>(), 1u8..=4).prop_map(|(pos, n)| Mutation::Delete { pos, n }),
    ]
    .boxed()
}

fn mutate(bytes: &[u8], ms: &[Mutation]) -> Vec<u8> {
    let mut b = bytes.to_vec();
    for m in ms {
        match m {
            Mutation::Flip { pos, bit } =>
                if !b.is_empty() {
                    let i = pick_idx(*pos, b.len());
                    b[i] ^= 1 << (bit % 8);
                },
            Mutation::Set { pos, val } =>
                if !b.is_empty() {
                    let i = pick_idx(*pos, b.len());
                    b[i] = *val;
                },
            Mutation::Truncate { keep } => {
                let k = pick_idx(*keep, b.len() + 1);
                b.truncate(k);
            }
            Mutation::Extend { tail } => b.extend(tail),
            Mutation::Insert { pos, bytes } => {
                let i = pick_idx(*pos, b.len() + 1);
                let tail = b.split_off(i);
                b.extend(bytes);
                b.extend(tail);
            }
            Mutation::Delete { pos, n } =>
                if !b.is_empty() {
                    let i = pick_idx(*pos, b.len());
                    let e = std::cmp::min(b.len(), i + *n as usize);
                    b.drain(i..e);
                },
        }
    }
    b
}

fn guard<T>(f: impl FnOnce() -> T) -> Result<T, String> {
    catch_unwind(AssertUnwindSafe(f)).map_err(|e| {
        if let Some(s) = e.downcast_ref::<&str>() {
            s.to_string()
        } else if let Some(s) = e.downcast_ref::<String>() {
            s.clone()
        } else {
            "panic".to_string()
        }
    })
}

fn trunc(mut s: String, n: usize) -> String {
    if s.len() > n {
        let mut k = n;
        while !s.is_char_boundary(k) {
            k -= 1;
        }
        s.truncate(k);
        s.push_str("…");
    }
    s
}

fn first_diff(a: &[u8], b: &[u8]) -> String {
    let i = a.iter().zip(b.iter()).position(|(x, y)| x != y).unwrap_or(std::cmp::min(a.len(), b.len()));
    let show = |x: &[u8]| hex::encode(&x[i.saturating_sub(4)..std::cmp::min(x.len(), i + 12)]);
    format!("lengths {} vs {}, first difference at byte {}: ..{} vs ..{}", a.len(), b.len(), i, show(a), show(b))
}

/// BIP-141: "A scriptPubKey that consists of a 1-byte push opcode (one of OP_0, OP_1..OP_16)
/// followed by a direct data push between 2 and 40 bytes" is a witness program.
fn is_witness_program_bip141(script: &[u8]) -> bool {
    if script.len() < 4 || script.len() > 42 {
        return false;
    }
    let ver_ok = script[0] == 0x00 || (0x51..=0x60).contains(&script[0]);
    let push = script[1] as usize;
    ver_ok && (2..=40).contains(&push) && script.len() == 2 + push
}

/// attestation count of an `AddBlock` encoding: type 2005 | header: u16 len + bytes | option
/// marker | u32 little-endian count
fn addblock_attestation_count(b: &[u8]) -> Option<u32> {
    let id = REGISTRY.iter().find(|e| e.name == "AddBlock")?.id;
    if b.len() < 4 || u16::from_be_bytes([b[0], b[1]]) != id {
        return None;
    }
    let hlen = u16::from_be_bytes([b[2], b[3]]) as usize;
    let at = 4 + hlen;
    if b.len() < at + 5 || b[at] == 0 {
        return None;
    }
    Some(u32::from_le_bytes([b[at + 1], b[at + 2], b[at + 3], b[at + 4]]))
}

/// pseudo message name of the size-boundary fixed cases
const SIZE_BOUNDARY: &str = "RemoveBlock@exact-size";
/// pseudo message name of the dispatch-enum structure fixed case
const DISPATCH_STRUCTURE: &str = "Message@dispatch-structure";

/// A transport that takes at most `chunk` bytes per write call.
struct ShortWriter {
    buf: Vec<u8>,
    chunk: usize,
}

impl vls_protocol::serde_bolt::io::Write for ShortWriter {
    fn write(&mut self, b: &[u8]) -> vls_protocol::serde_bolt::io::Result<usize> {
        let n = b.len().min(self.chunk);
        self.buf.extend_from_slice(&b[..n]);
        Ok(n)
    }
    fn flush(&mut self) -> vls_protocol::serde_bolt::io::Result<()> {
        Ok(())
    }
}

/// A transport that delivers at most `chunk` bytes per read call and then ends.
struct ShortReader<'a> {
    buf: &'a [u8],
    chunk: usize,
}

impl<'a> vls_protocol::serde_bolt::io::Read for ShortReader<'a> {
    fn read(&mut self, out: &mut [u8]) -> vls_protocol::serde_bolt::io::Result<usize> {
        let n = out.len().min(self.chunk).min(self.buf.len());
        out[..n].copy_from_slice(&self.buf[..n]);
        self.buf = &self.buf[n..];
        Ok(n)
    }
}

pub struct C19;

impl C19 {
    fn g1(&self, idx: usize, case: &Case, m: &Message, bytes: &[u8], st: &mut CaseStats, ctx: &Ctx) -> Result<(), Violation> {
        let e = &REGISTRY[idx];
        let name = e.name;
        let dbg = format!("{:?}", m);

        // an earlier variant of `enum Message` with the same type number shadows this one in the
        // dispatcher
        let shadow = REGISTRY[..idx].iter().find(|o| o.id == e.id);
        let collision = |what: String| {
            let o = shadow.unwrap();
            Violation::new(
                format!("C19:{}:type-id-collision", name),
                format!(
                    "{} and {} share wire type {}; the dispatcher decodes every {} as a {}: {}",
                    name, o.name, e.id, name, o.name, what
                ),
            )
        };
        let m2 = match guard(|| from_vec(bytes.to_vec())) {
            Ok(Err(err)) if shadow.is_some() => {
                return ctx.report(
                    st,
                    collision(format!("from_vec(as_vec(m)) = Err({:?}) for m = {} ({} bytes: {})", err, trunc(dbg, 400), bytes.len(), trunc(hex::encode(bytes), 200))),
                );
            }
            Err(p) => {
                return ctx.report(st, Violation::new(format!("C19:{}:decode-panic", name), format!("from_vec panicked: {}; message {}", p, trunc(dbg, 400))));
            }
            Ok(Err(err)) => {
                return ctx.report(
                    st,
                    Violation::new(
                        format!("C19:{}:decode-failed", name),
                        format!("from_vec(as_vec(m)) = Err({:?}) for m = {} ({} bytes: {})", err, trunc(dbg, 400), bytes.len(), trunc(hex::encode(bytes), 200)),
                    ),
                );
            }
            Ok(Ok(m2)) => m2,
        };
        let name2 = if matches!(m2, Message::Unknown(_)) { "Unknown" } else { m2.inner().name() };
        if name2 != name && shadow.is_some() {
            return ctx.report(st, collision(format!("sent {}, received {}", trunc(dbg, 300), trunc(format!("{:?}", m2), 300))));
        }
        if name2 != name {
            return ctx.report(
                st,
                Violation::new(
                    format!("C19:{}:wrong-type", name),
                    format!("the encoding of a {} (type {}) decodes as a {}: sent {}, received {}", name, e.id, name2, trunc(dbg, 300), trunc(format!("{:?}", m2), 300)),
                ),
            );
        }
        let b2 = match guard(|| m2.inner().as_vec()) {
            Ok(b) => b,
            Err(p) =>
                return ctx.report(st, Violation::new(format!("C19:{}:reencode-panic", name), format!("as_vec of the decoded message panicked: {}", p))),
        };

        // the framed path (msgs::write_vec / msgs::read, used over sockets and serial links): the
        // transport may take fewer bytes per write call than it is offered (std::io::Write allows
        // it; a USB serial driver takes one packet).  What arrives must decode to the same bytes.
        for chunk in [usize::MAX, 4096, 64, 1] {
            if chunk != usize::MAX && bytes.len() + 4 <= chunk {
                continue;
            }
            let mut t = ShortWriter { buf: vec![], chunk };
            let wr = guard(|| vls_protocol::msgs::write_vec(&mut t, bytes.to_vec()));
            let framed_ok = match wr {
                Ok(Ok(())) => true,
                Ok(Err(_)) => false, // the encoder reported the failure: nothing was claimed to be sent
                Err(p) => return ctx.report(st, Violation::new(format!("C19:{}:framed-write-panic", name), format!("write_vec panicked: {}", p))),
            };
            if !framed_ok {
                st.class("framed:write-error-reported");
                continue;
            }
            let mut cur = &t.buf[..];
            let back = guard(|| vls_protocol::msgs::read(&mut cur));
            let fb = match back {
                Ok(Ok(m3)) => guard(|| m3.inner().as_vec()).unwrap_or_default(),
                Ok(Err(err)) => {
                    return ctx.report(st, Violation::new(
                        format!("C19:{}:framed-roundtrip-failed", name),
                        format!("msgs::read of what msgs::write_vec reported as sent (transport taking {} bytes per write, {} of {} bytes arrived) = Err({:?})", chunk, t.buf.len(), bytes.len() + 4, err),
                    ))
                }
                Err(p) => return ctx.report(st, Violation::new(format!("C19:{}:framed-read-panic", name), format!("msgs::read panicked: {}", p))),
            };
            if fb != b2 || !cur.is_empty() {
                return ctx.report(st, Violation::new(
                    format!("C19:{}:framed-roundtrip-differs", name),
                    format!("the framed path (transport taking {} bytes per write) delivers another message: {}", chunk, first_diff(&fb, &b2)),
                ));
            }
            st.class(if chunk == usize::MAX { "framed:whole" } else { "framed:short-writes" });
        }

        // the raw framed reader (msgs::read_raw: what a proxy uses to take a reply off the link before
        // it forwards it): over a transport that delivers few bytes per read call it returns exactly
        // the frame; a link that ends inside the frame is an error, never a (padded) frame
        {
            let mut frame = (bytes.len() as u32).to_be_bytes().to_vec();
            frame.extend_from_slice(bytes);
            for chunk in [usize::MAX, 7, 1] {
                let mut r = ShortReader { buf: &frame[..], chunk };
                match guard(|| vls_protocol::msgs::read_raw(&mut r)) {
                    Ok(Ok(v)) if v == bytes => {}
                    Ok(Ok(v)) => {
                        return ctx.report(st, Violation::new(
                            format!("C19:{}:raw-read-differs", name),
                            format!("msgs::read_raw over a transport delivering {} bytes per read returns other bytes than were framed: {}", chunk, first_diff(&v, bytes)),
                        ))
                    }
                    Ok(Err(err)) => {
                        return ctx.report(st, Violation::new(format!("C19:{}:raw-read-failed", name), format!("msgs::read_raw of a complete frame ({} bytes per read) = Err({:?})", chunk, err)))
                    }
                    Err(p) => return ctx.report(st, Violation::new(format!("C19:{}:raw-read-panic", name), format!("msgs::read_raw panicked: {}", p))),
                }
            }
            if !bytes.is_empty() {
                for cut in [4usize, 4 + bytes.len() / 2, 4 + bytes.len() - 1] {
                    let mut r = ShortReader { buf: &frame[..cut], chunk: 5 };
                    if let Ok(Ok(v)) = guard(|| vls_protocol::msgs::read_raw(&mut r)) {
                        return ctx.report(st, Violation::new(
                            format!("C19:{}:raw-read-of-truncated-frame", name),
                            format!("the link ended after {} of {} frame bytes and msgs::read_raw returned a frame of {} bytes ({} of them equal to what was sent)", cut, frame.len(), v.len(), v.iter().zip(bytes.iter()).take_while(|(a, b)| a == b).count()),
                        ));
                    }
                }
                st.class("framed:raw-read:truncated-refused");
            }
        }

        // the typed entry point used by the node side for replies
        let typed = guard(|| gen::typed_roundtrip(idx, bytes.to_vec()));
        let (tb, tdbg) = match typed {
            Err(p) => return ctx.report(st, Violation::new(format!("C19:{}:typed-decode-panic", name), format!("{}::from_vec panicked: {}", name, p))),
            Ok(Err(err)) =>
                return ctx.report(
                    st,
                    Violation::new(format!("C19:{}:typed-decode-failed", name), format!("{}::from_vec(as_vec(m)) = Err({}) for m = {}", name, err, trunc(dbg, 400))),
                ),
            Ok(Ok(x)) => x,
        };
        if tb != b2 {
            return ctx.report(
                st,
                Violation::new(
                    format!("C19:{}:typed-decode-differs", name),
                    format!("{}::from_vec and msgs::from_vec disagree on the same bytes: {}", name, first_diff(&tb, &b2)),
                ),
            );
        }

        // the typed framed writer / reader (msgs::write / msgs::read_message::<T>: what the client
        // side and the serial transports use): the frame is the length of the encoding, then the
        // encoding, and reading it back gives the same message
        let mut want_frame = (tb.len() as u32).to_be_bytes().to_vec();
        want_frame.extend_from_slice(&tb);
        match guard(|| gen::typed_write(idx, bytes.to_vec())) {
            Err(p) => return ctx.report(st, Violation::new(format!("C19:{}:typed-write-panic", name), format!("msgs::write panicked: {}", p))),
            Ok(Err(err)) => return ctx.report(st, Violation::new(format!("C19:{}:typed-write-failed", name), format!("msgs::write = Err({}) for m = {}", err, trunc(dbg, 300)))),
            Ok(Ok(frame)) => {
                if frame != want_frame {
                    return ctx.report(
                        st,
                        Violation::new(
                            format!("C19:{}:typed-write-frame-differs", name),
                            format!("msgs::write framed {} bytes (announced length {}), the message encodes to {} bytes: {}", frame.len(), frame.get(..4).map(|b| u32::from_be_bytes([b[0], b[1], b[2], b[3]])).unwrap_or(0), tb.len(), first_diff(&frame, &want_frame)),
                        ),
                    );
                }
            }
        }
        match guard(|| gen::typed_read(idx, &want_frame)) {
            Err(p) => return ctx.report(st, Violation::new(format!("C19:{}:typed-read-panic", name), format!("msgs::read_message panicked: {}", p))),
            Ok(Err(err)) => return ctx.report(st, Violation::new(format!("C19:{}:typed-read-failed", name), format!("msgs::read_message::<{}> of a well-formed frame = Err({})", name, err))),
            Ok(Ok(back)) => {
                if back != tb {
                    return ctx.report(st, Violation::new(format!("C19:{}:typed-read-differs", name), format!("msgs::read_message::<{}> decodes the frame to another message: {}", name, first_diff(&back, &tb))));
                }
            }
        }
        st.class("framed:typed-write-read");

        match e.streamed_field {
            None => {
                if b2 != bytes {
                    return ctx.report(
                        st,
                        Violation::new(
                            format!("C19:{}:reencode-differs", name),
                            format!("decoded message re-encodes differently ({}); sent {}, received {}", first_diff(bytes, &b2), trunc(dbg, 300), trunc(format!("{:?}", m2), 300)),
                        ),
                    );
                }
                let dbg2 = format!("{:?}", m2);
                let inner_dbg = format!("{:?}", m.inner());
                if dbg2 != dbg || tdbg != inner_dbg {
                    return ctx.report(
                        st,
                        Violation::new(format!("C19:{}:debug-differs", name), format!("sent {} received {}", trunc(dbg, 400), trunc(dbg2, 400))),
                    );
                }
            }
            Some(fi) => {
                let rec = match &case.v {
                    V::R(r) => r,
                    _ => malformed("record", &case.v),
                };
                let src = psbt_from_case(&rec[fi]);
                let dec = gen::streamed_ref(&m2).expect("streamed message");
                let d = dec.psbt();
                if d.unsigned_tx != src.unsigned_tx {
                    return ctx.report(
                        st,
                        Violation::new(format!("C19:{}:psbt-tx", name), format!("decoded unsigned tx {:?} != source {:?}", d.unsigned_tx, src.unsigned_tx)),
                    );
                }
                let n = src.inputs.len();
                if d.inputs.len() != n || dec.segwit_flags.len() != n {
                    return ctx.report(
                        st,
                        Violation::new(
                            format!("C19:{}:psbt-input-count", name),
                            format!("source has {} inputs, decoded has {} inputs and {} segwit flags", n, d.inputs.len(), dec.segwit_flags.len()),
                        ),
                    );
                }
                let mut expected = src.clone();
                for i in 0..n {
                    let sin = &src.inputs[i];
                    let vout = src.unsigned_tx.input[i].previous_output.vout as usize;
                    let (designated, mode): (Option<TxOut>, &str) = match (&sin.non_witness_utxo, &sin.witness_utxo) {
                        (Some(tx), w) => (Some(tx.output[vout].clone()), if w.is_some() { "both" } else { "non_witness_utxo" }),
                        (None, Some(w)) => (Some(w.clone()), "witness_utxo"),
                        (None, None) => (None, "none"),
                    };
                    st.class(format!("streamed-input:{}", mode));
                    if d.inputs[i].witness_utxo != designated {
                        return ctx.report(
                            st,
                            Violation::new(
                                format!("C19:{}:psbt-prevout", name),
                                format!("input {} ({}): decoded previous output {:?} != designated {:?}", i, mode, d.inputs[i].witness_utxo, designated),
                            ),
                        );
                    }
                    let want = sin.non_witness_utxo.is_some()
                        && designated.as_ref().map(|o| is_witness_program_bip141(o.script_pubkey.as_bytes())).unwrap_or(false);
                    st.class(format!("streamed-segwit-flag:{}", want));
                    if dec.segwit_flags[i] != want {
                        return ctx.report(
                            st,
                            Violation::new(
                                format!("C19:{}:psbt-segwit-flag", name),
                                format!(
                                    "input {} ({}): segwit flag {} but the source PSBT implies {} (previous output {:?})",
                                    i, mode, dec.segwit_flags[i], want, designated
                                ),
                            ),
                        );
                    }
                    expected.inputs[i].non_witness_utxo = None;
                    expected.inputs[i].witness_utxo = designated;
                }
                if *d != expected {
                    return ctx.report(
                        st,
                        Violation::new(
                            format!("C19:{}:psbt-other-fields", name),
                            format!("decoded PSBT differs from the source beyond the summarised inputs: {:?} vs expected {:?}", d, expected),
                        ),
                    );
                }
                // every non-PSBT field: re-encoding equals the encoding of the same message with the
                // summarised PSBT
                let mut v2 = rec.clone();
                v2[fi] = V::B(expected.serialize());
                let want_bytes = gen::build_message(idx, &V::R(v2)).inner().as_vec();
                if b2 != want_bytes {
                    return ctx.report(
                        st,
                        Violation::new(
                            format!("C19:{}:reencode-differs", name),
                            format!("decoded message re-encodes differently from the sent fields with the summarised PSBT ({})", first_diff(&want_bytes, &b2)),
                        ),
                    );
                }
            }
        }
        Ok(())
    }

    fn g2(&self, name: &str, mutated: Vec<u8>, st: &mut CaseStats, ctx: &Ctx) -> Result<(), Violation> {
        let wire_name = message_name_from_vec(&mutated);
        if addblock_attestation_count(&mutated).map(|n| n > 1000).unwrap_or(false) {
            // txoo 0.10.0 `TxoProof::consensus_decode` does `Vec::with_capacity(count)` with the
            // unchecked u32 count from the wire: a large count aborts the process (allocation
            // failure is not a panic and cannot be contained in-process).  Outside C19's statement;
            // reported separately, skipped here so that the rest of G2 can run.
            st.class("g2:skipped(AddBlock attestation count > 1000 aborts in txoo)");
            return Ok(());
        }
        let m2 = match guard(|| from_vec(mutated.clone())) {
            Err(p) =>
                return ctx.report(
                    st,
                    Violation::new(format!("C19:{}:g2-decode-panic", wire_name), format!("from_vec panicked ({}) on {} (mutated {})", p, trunc(hex::encode(&mutated), 400), name)),
                ),
            Ok(Err(_)) => {
                st.class("g2:rejected");
                return Ok(());
            }
            Ok(Ok(m)) => m,
        };
        if matches!(m2, Message::Unknown(_)) {
            st.class("g2:unknown-type");
            return Ok(());
        }
        st.class("g2:decoded");
        let n2 = m2.inner().name();
        let b2 = match guard(|| m2.inner().as_vec()) {
            Ok(b) => b,
            Err(p) =>
                return ctx.report(
                    st,
                    Violation::new(format!("C19:{}:g2-reencode-panic", n2), format!("as_vec panicked ({}) for the message decoded from {}", p, trunc(hex::encode(&mutated), 400))),
                ),
        };
        if b2.len() > MAX_MESSAGE_SIZE {
            return Ok(());
        }
        let m3 = match guard(|| from_vec(b2.clone())) {
            Err(p) => return ctx.report(st, Violation::new(format!("C19:{}:g2-decode-panic", n2), format!("from_vec panicked ({}) on a re-encoding", p))),
            Ok(Err(err)) =>
                return ctx.report(
                    st,
                    Violation::new(
                        format!("C19:{}:g2-reencoding-rejected", n2),
                        format!("bytes {} decode to {}, whose encoding {} is refused: {:?}", trunc(hex::encode(&mutated), 300), trunc(format!("{:?}", m2), 300), trunc(hex::encode(&b2), 300), err),
                    ),
                ),
            Ok(Ok(m)) => m,
        };
        let n3 = if matches!(m3, Message::Unknown(_)) { "Unknown" } else { m3.inner().name() };
        let b3 = guard(|| m3.inner().as_vec()).unwrap_or_default();
        if n3 != n2 || b3 != b2 {
            return ctx.report(
                st,
                Violation::new(
                    format!("C19:{}:g2-not-fixed-point", n2),
                    format!("decode(encode(decode(bytes))) re-encodes differently: {} -> {} ({})", n2, n3, first_diff(&b2, &b3)),
                ),
            );
        }
        Ok(())
    }
}

impl Prop for C19 {
    type Case = Case;
    fn id(&self) -> &'static str {
        "C19"
    }
    fn rule(&self) -> String {
        format!(
            "G1: one message per case, type drawn (weight 1 fixed-size, 3 with variable parts, 8 streamed PSBT) from the {} entries of `enum Message` found in the source tree at build time \
             ({} developer-only; `Unknown` has no encoder); fields composed from leaf strategies: boundary integers, fixed arrays (zero/ff/random), \
             Octets/LargeOctets (0, 1, small, medium, 65535 / up to 120000 bytes), WireString (NUL-free, UTF-8 and not), arrays (0, 1, 2-4, 5-40, 200-400, \
             largest count that fits the 128 KiB message limit, at most 65535), options present/absent, transactions with 0-3 inputs/outputs \
             (legacy/segwit, boundary versions, lock times, amounts), PSBTs with 0-3 inputs/outputs, each input with none / witness_utxo / \
             non_witness_utxo / both (consistent), derivations, redeem/witness scripts, final scripts, unknown keys; TXOO proofs of all three kinds. \
             G2 (thorough): 1-3 byte-level mutations (flip, set, truncate, extend, insert, delete) of a G1 encoding. \
             Non-trivial: >= 1 non-empty variable-length field or present option; distinct by (type, bucketed shape). \
             Every message type must be evaluated >= 50 (quick) / 500 (thorough) times or the run is vacuous (enforced; per-type counts are the `type:*` classes).",
            REGISTRY.len(),
            REGISTRY.iter().filter(|e| e.developer).count()
        )
    }
    fn assumptions(&self) -> Vec<String> {
        vec![
            "messages larger than MAX_MESSAGE_SIZE (128 KiB) are refused by from_vec by design and are outside the domain (counted as `oversize(skipped)`)".into(),
            "WireString values contain no NUL byte, Octets hold at most 65535 bytes, arrays at most 65535 elements (encoder preconditions)".into(),
            "streamed PSBTs are internally consistent (non_witness_utxo is the spent transaction, witness_utxo next to it equals its output): anything else is refused by design".into(),
            "`Message::Unknown` is not a wire message (no encoder) and is not generated".into(),
            "a symmetric codec error (encoder and decoder wrong in the same way) is invisible to any round-trip oracle; the hand-written reference for the streamed PSBT (BIP-141 witness-program rule, output designation) is independent of psbt.rs".into(),
            "rust-bitcoin's transaction/PSBT (de)serialisation and txoo's TxoProof builder are trusted to construct the inputs".into(),
            "segwit flag rule: flag_i = (source input i carries non_witness_utxo) AND (scriptPubKey of non_witness_utxo.output[vout_i] is 4..=42 bytes, starts with OP_0 or OP_1..OP_16, followed by one direct push of 2..=40 bytes that ends the script)".into(),
        ]
    }
    fn cases(&self, tier: Tier) -> u32 {
        // average evaluations per message type (the draw is weighted, see `type_weight`)
        let per_type = tier.pick(3000u64, 100_000u64);
        ((REGISTRY.len() as u64 * per_type + SHARDS - 1) / SHARDS) as u32
    }
    fn strategy(&self, tier: Tier) -> BoxedStrategy<Case> {
        let p = P { minimal: false };
        let strats: Vec<BoxedStrategy<V>> = (0..REGISTRY.len()).map(|i| gen::strat_message(i, &p)).collect();
        let muts: BoxedStrategy<Vec<Mutation>> = match tier {
            Tier::Quick => Just(vec![]).boxed(),
            Tier::Thorough => prop_oneof![3 => Just(vec![]), 2 => pvec(mutation_strat(), 1..=3)].boxed(),
        };
        // the type selector does not shrink: a failing case keeps its message type
        let mut deck: Vec<usize> = vec![];
        for (i, e) in REGISTRY.iter().enumerate() {
            for _ in 0..type_weight(e) {
                deck.push(i);
            }
        }
        (proptest::sample::select(deck).no_shrink(), muts)
            .prop_flat_map(move |(i, mutations)| {
                let name = REGISTRY[i].name.to_string();
                strats[i].clone().prop_map(move |v| Case { msg: name.clone(), v, mutations: mutations.clone() })
            })
            .boxed()
    }
    fn fixed_cases(&self) -> Vec<Case> {
        [65_535u64, 65_536, 65_537, MAX_MESSAGE_SIZE as u64 - 1, MAX_MESSAGE_SIZE as u64]
            .iter()
            .map(|t| Case { msg: SIZE_BOUNDARY.to_string(), v: V::U(*t), mutations: vec![] })
            .chain(std::iter::once(Case { msg: DISPATCH_STRUCTURE.to_string(), v: V::U(0), mutations: vec![] }))
            .collect()
    }
    fn min_nontrivial(&self, tier: Tier) -> usize {
        // called once, after all shards have finished: enforce the per-type hit floor
        let floor = tier.pick(50u64, 500u64);
        let mut low = vec![];
        for (i, e) in REGISTRY.iter().enumerate() {
            let h = HITS[i].load(Ordering::Relaxed);
            if h < floor {
                low.push(format!("{}={}", e.name, h));
            }
        }
        if !low.is_empty() {
            eprintln!("C19: message types evaluated fewer than {} times: {}", floor, low.join(" "));
            return usize::MAX;
        }
        tier.pick(1500, 10_000)
    }
    fn run(&self, case: &Case, st: &mut CaseStats, ctx: &Ctx) -> Result<(), Violation> {
        // Size boundary cases (fixed cases): a message whose encoding has exactly the given size
        // (just below, at and above 64 KiB; just below and at the documented, inclusive maximum of
        // 128 KiB) survives the wire.
        if case.msg == DISPATCH_STRUCTURE {
            // the dispatch enum as parsed at build time: a variant that carries another message's
            // struct makes that message decode as the other type; a message struct without a
            // variant cannot be decoded through `Message` at all
            st.class("dispatch-structure-checked");
            st.nontrivial_shape(("dispatch-structure", gen::VARIANT_MISMATCH.len()));
            if let Some((v, t)) = gen::VARIANT_MISMATCH.first() {
                return ctx.report(st, Violation::new(
                    "C19:message-enum:variant-carries-other-struct",
                    format!("enum Message: variant {} carries struct {}: a {} encoding does not decode as a {} (all mismatches: {:?})", v, t, v, v, gen::VARIANT_MISMATCH),
                ));
            }
            let orphans: Vec<_> = gen::STRUCTS_WITHOUT_VARIANT.iter().filter(|(n, _)| *n != "UnknownPlaceholder").collect();
            if let Some((n, id)) = orphans.first() {
                return ctx.report(st, Violation::new(
                    "C19:message-enum:message-struct-without-variant",
                    format!("message struct {} (type {}) has no variant in enum Message: its encoding cannot survive msgs::from_vec (all: {:?})", n, id, orphans),
                ));
            }
            return Ok(());
        }
        if case.msg == SIZE_BOUNDARY {
            use vls_protocol::msgs;
            use vls_protocol::serde_bolt::LargeOctets;
            let total = match &case.v {
                V::U(t) => *t as usize,
                _ => return Ok(()),
            };
            let mk = |n: usize| {
                let header: bitcoin::block::Header = bitcoin::consensus::deserialize(&[0u8; 80]).expect("header");
                msgs::Message::RemoveBlock(msgs::RemoveBlock {
                    unspent_proof: Some(LargeOctets(vec![0xab; n])),
                    prev_block_header: header,
                    prev_filter_header: bitcoin::hash_types::FilterHeader::all_zeros(),
                })
            };
            let overhead = mk(0).inner().as_vec().len();
            if total < overhead || total > MAX_MESSAGE_SIZE {
                return Ok(());
            }
            let bytes = mk(total - overhead).inner().as_vec();
            assert_eq!(bytes.len(), total, "harness: size arithmetic");
            st.class(format!("size-boundary:{}", total));
            st.nontrivial_shape(("size-boundary", total));
            return match guard(|| msgs::from_vec(bytes.clone())) {
                Ok(Ok(m2)) => {
                    if m2.inner().as_vec() != bytes {
                        ctx.report(st, Violation::new("C19:size-boundary:re-encoding-differs", format!("a RemoveBlock of {} bytes re-encodes differently", total)))
                    } else {
                        Ok(())
                    }
                }
                Ok(Err(e)) => ctx.report(st, Violation::new("C19:size-boundary:decode-failed", format!("from_vec(as_vec(m)) = Err({:?}) for a RemoveBlock whose encoding is {} bytes (maximum {})", e, total, MAX_MESSAGE_SIZE))),
                Err(p) => ctx.report(st, Violation::new("C19:size-boundary:decode-panic", format!("decoding a {} byte message panicked: {}", total, p))),
            };
        }
        let idx = registry_index(&case.msg);
        let e = &REGISTRY[idx];
        let m = gen::build_message(idx, &case.v);
        let bytes = match guard(|| m.inner().as_vec()) {
            Ok(b) => b,
            Err(p) =>
                return ctx.report(
                    st,
                    Violation::new(format!("C19:{}:encode-panic", e.name), format!("as_vec panicked ({}) for {}", p, trunc(format!("{:?}", m), 400))),
                ),
        };
        if bytes.len() <= 600 {
            st.sample = Some(json!({ "case": case, "debug": trunc(format!("{:?}", m), 600), "encoding": hex::encode(&bytes) }));
        }
        if bytes.len() > MAX_MESSAGE_SIZE {
            st.class("oversize(skipped)");
            return Ok(());
        }
        if !case.mutations.is_empty() {
            st.class("g2");
            let mutated = mutate(&bytes, &case.mutations);
            if mutated.len() > MAX_MESSAGE_SIZE {
                return Ok(());
            }
            return self.g2(e.name, mutated, st, ctx);
        }
        HITS[idx].fetch_add(1, Ordering::Relaxed);
        st.class(format!("type:{}", e.name));
        if e.developer {
            st.class("developer-only");
        }
        if bytes.len() > 60_000 {
            st.class("encoding>60000B");
        }
        if nontrivial(&case.v) {
            st.class("nontrivial");
            let mut sh = vec![];
            shape(&case.v, &mut sh);
            st.nontrivial_shape((e.name, sh));
        } else if e.has_variable {
            st.class("trivial(all-empty)");
        } else {
            st.class("trivial(fixed-size type)");
        }
        classes(&case.v, st);
        self.g1(idx, case, &m, &bytes, st, ctx)
    }
}

/// draw weight of a message type: fixed-size messages 1, messages with variable-length or
/// optional parts 3, streamed-PSBT requests 8
fn type_weight(e: &gen::RegEntry) -> usize {
    if e.streamed_field.is_some() {
        8
    } else if e.has_variable {
        3
    } else {
        1
    }
}

/// histogram classes of the interesting generator features
fn classes(v: &V, st: &mut CaseStats) {
    match v {
        V::U(_) | V::F(_) => {}
        V::B(b) => {
            if b.len() >= 65535 {
                st.class("bytes:>=65535");
            } else if b.is_empty() {
                st.class("bytes:empty");
            }
        }
        V::L(l) => {
            st.class(match l.len() {
                0 => "array:empty",
                1 => "array:1",
                2..=40 => "array:2-40",
                41..=999 => "array:41-999",
                65533..=65535 => "array:65533-65535",
                _ => "array:max-fit",
            });
            for x in l.iter().take(3) {
                classes(x, st);
            }
        }
        V::O(o) => match o {
            Some(x) => {
                st.class("option:present");
                classes(x, st);
            }
            None => st.class("option:absent"),
        },
        V::R(r) =>
            for x in r {
                classes(x, st);
            },
    }
}
