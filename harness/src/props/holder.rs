//! Holder-side commitment state machine shared by C01 and C02.
//!
//! History = Vec<Op> interpreted against a live World with one ready channel (plus a stub).
//! Oracle = ghost ledger of what was observed at the API boundary.

use crate::engine::*;
use crate::world::*;
use lightning_signer::bitcoin::secp256k1::ecdsa::Signature;
use lightning_signer::bitcoin::secp256k1::{PublicKey, SecretKey};
use lightning_signer::channel::ChannelBase;
use lightning_signer::util::status::Status;
use proptest::prelude::*;
use serde::{Deserialize, Serialize};
use serde_json::json;
use std::collections::{BTreeMap, BTreeSet};

#[derive(Clone, Debug, Serialize, Deserialize, PartialEq, Eq, Hash)]
pub struct HSel {
    pub offered: bool,
    pub h: u8,
    pub amt: u8,
    pub cltv: u8,
}

/// How the content of a validation request is chosen
#[derive(Clone, Debug, Serialize, Deserialize, PartialEq, Eq, Hash)]
pub enum CSel {
    /// the content last accepted for this number (retry) or, failing that, the current one
    Same,
    /// the current content with one HTLC added
    Add(HSel),
    /// the current content with its first HTLC removed
    Remove,
    /// fresh content
    Fresh { fee: u8, to_cp: u8, htlcs: Vec<HSel> },
}

#[derive(Clone, Debug, Serialize, Deserialize, PartialEq, Eq, Hash)]
pub enum Op {
    /// validate holder commitment next+d
    Validate { d: i8, c: CSel, sig: SigKind, phase1: bool },
    /// revoke_previous_holder_commitment(next+d)
    Revoke { d: i8 },
    Activate,
    GetPoint { d: i8 },
    /// get_per_commitment_secret(next+d)
    GetSecret { d: i8 },
    SecretOrNone { d: i8 },
    CheckFuture { d: i8, right: bool },
    /// sign_holder_commitment_tx_phase2(next-1+d)
    SignHolder { d: i8 },
    SignRecovery,
    SignRedundant { d: i8, c: CSel },
    /// every secret-bearing request issued against the stub channel
    StubProbe { n: u8 },
    Restart,
    /// the protocol's normal step: validate(next, valid signatures) then revoke(next)
    /// (activate for number 0); two real requests
    Advance { c: CSel, phase1: bool },
    /// injected storage fault: the next write of the channel entry fails (nothing is stored).  The
    /// request that hits it is answered (with an error, unless the signer swallows it) and the
    /// signer process then dies and is restarted from the store, as vlsd does on a persist failure
    StorageFault,
}

pub fn d_strat() -> impl Strategy<Value = i8> {
    prop_oneof![6 => Just(0i8), 3 => Just(-1i8), 2 => Just(1i8), 1 => Just(-2i8), 1 => Just(2i8), 1 => Just(-3i8)]
}

fn hsel_strat() -> impl Strategy<Value = HSel> {
    (any::<bool>(), 0u8..4, 0u8..3, 0u8..3).prop_map(|(offered, h, amt, cltv)| HSel { offered, h, amt, cltv })
}

pub fn csel_strat() -> impl Strategy<Value = CSel> {
    prop_oneof![
        4 => Just(CSel::Same),
        3 => hsel_strat().prop_map(CSel::Add),
        1 => Just(CSel::Remove),
        2 => (0u8..3, 0u8..3, proptest::collection::vec(hsel_strat(), 0..4))
            .prop_map(|(fee, to_cp, htlcs)| CSel::Fresh { fee, to_cp, htlcs }),
    ]
}

pub fn sig_strat(valid_weight: u32) -> impl Strategy<Value = SigKind> {
    prop_oneof![
        valid_weight => Just(SigKind::Valid),
        1 => Just(SigKind::CommitOverOtherContent),
        1 => Just(SigKind::CommitWrongKey),
        1 => Just(SigKind::CommitOtherNumber),
        1 => Just(SigKind::HtlcReversed),
        1 => Just(SigKind::HtlcWrongKey),
        1 => Just(SigKind::HtlcWrongFlag),
        1 => Just(SigKind::HtlcOtherDelay),
        1 => Just(SigKind::HtlcMissingLast),
        1 => Just(SigKind::HtlcExtra),
    ]
}

pub fn op_strat(valid_weight: u32, sign_weight: u32) -> impl Strategy<Value = Op> {
    prop_oneof![
        30 => (d_strat(), csel_strat(), sig_strat(valid_weight), any::<bool>())
            .prop_map(|(d, c, sig, phase1)| Op::Validate { d, c, sig, phase1 }),
        24 => d_strat().prop_map(|d| Op::Revoke { d }),
        3 => Just(Op::Activate),
        3 => d_strat().prop_map(|d| Op::GetPoint { d }),
        9 => d_strat().prop_map(|d| Op::GetSecret { d }),
        6 => d_strat().prop_map(|d| Op::SecretOrNone { d }),
        3 => (d_strat(), any::<bool>()).prop_map(|(d, right)| Op::CheckFuture { d, right }),
        sign_weight => d_strat().prop_map(|d| Op::SignHolder { d }),
        sign_weight => Just(Op::SignRecovery),
        sign_weight => (d_strat(), csel_strat()).prop_map(|(d, c)| Op::SignRedundant { d, c }),
        3 => (0u8..4).prop_map(|n| Op::StubProbe { n }),
        6 => Just(Op::Restart),
        27 => (csel_strat(), any::<bool>()).prop_map(|(c, phase1)| Op::Advance { c, phase1 }),
        5 => Just(Op::StorageFault),
    ]
}

#[derive(Clone, Debug, Serialize, Deserialize)]
pub struct Case {
    pub anchors: bool,
    pub outbound: bool,
    pub ops: Vec<Op>,
    /// None: the history is issued at API level (Node::with_channel).  Some(v): the same history
    /// is issued as wire-protocol messages to the vls-protocol-signer handlers with protocol
    /// version v (4, 5 or 6) negotiated (see proto.rs).  Absent in older replay files.
    #[serde(default)]
    pub proto: Option<u8>,
    /// API level only: the signer runs with the validator factory vlsd uses by default
    /// (OnchainValidatorFactory around the simple validator) on a channel whose funding
    /// transaction is confirmed on the tracker's chain
    #[serde(default)]
    pub onchain: bool,
    /// API level only, 0 = no: the SetupChannel of the history's channel was refused (1 holder
    /// contest delay out of range, 2 counterparty contest delay out of range, 3 unsafe legacy
    /// commitment type) and never repeated: the channel is not set up, and C01's last clause says
    /// that no request sequence obtains a secret from it
    #[serde(default)]
    pub refused_setup: u8,
    /// API level (simple or on-chain validator factory): the operator's policy filter is a carve-out in vlsd's
    /// `--policy-filter` order: the rules the revocation / signing guarantees are tagged with stay
    /// errors (`policy-revoke-*`, `policy-commitment-holder-not-revoked`, `policy-other`,
    /// `policy-commitment-spends-active-utxo`), every other `policy-*` rule is only logged
    #[serde(default)]
    pub carve_out: bool,
}

/// Execution level of a history.  VERIF_PROTO_ONLY=1 removes the API level (sensitivity runs
/// of the protocol path); VERIF_PROTO_ONLY=4|5|6 keeps a single protocol version.
pub fn proto_strat() -> BoxedStrategy<Option<u8>> {
    match std::env::var("VERIF_PROTO_ONLY").ok().as_deref() {
        Some("4") => Just(Some(4u8)).boxed(),
        Some("5") => Just(Some(5u8)).boxed(),
        Some("6") => Just(Some(6u8)).boxed(),
        Some(_) => prop_oneof![Just(Some(4u8)), Just(Some(5u8)), Just(Some(6u8))].boxed(),
        None => prop_oneof![2 => Just(None), 2 => Just(Some(4u8)), 2 => Just(Some(5u8)), 2 => Just(Some(6u8))].boxed(),
    }
}

pub fn case_strat(max_ops: usize, valid_weight: u32, sign_weight: u32) -> BoxedStrategy<Case> {
    (any::<bool>(), any::<bool>(), proptest::collection::vec(op_strat(valid_weight, sign_weight), 1..max_ops), proto_strat(), any::<bool>(), prop_oneof![3 => Just(0u8), 1 => 1u8..4], prop::bool::weighted(0.4))
        .prop_map(|(anchors, outbound, ops, proto, onchain, refused_setup, carve_out)| {
            let refused_setup = if proto.is_none() { refused_setup } else { 0 };
            let onchain = onchain && proto.is_none() && refused_setup == 0;
            Case { anchors, outbound, ops, onchain, proto, refused_setup, carve_out: carve_out && proto.is_none() && refused_setup == 0 }
        })
        .boxed()
}

const AMTS: [u64; 3] = [10_000, 25_000, 400_000];
const CLTVS: [u32; 3] = [1_000, 1_010, 2_000];
const FEERATES: [u32; 3] = [253, 1000, 5000];

fn mk_htlc(s: &HSel) -> Htlc {
    Htlc { h: s.h, sat: AMTS[s.amt as usize % 3], cltv: CLTVS[s.cltv as usize % 3] }
}

/// Normalise: derive to_holder so that the implied fee matches `feerate` for the weight.
pub fn finish_content(anchors: bool, value_sat: u64, feerate: u32, to_cp: u64, offered: Vec<Htlc>, received: Vec<Htlc>) -> Content {
    let n = offered.len() + received.len();
    let weight = if anchors { 1124 } else { 724 } + 172 * n as u64;
    let mut fee = feerate as u64 * weight / 1000;
    if anchors {
        fee += 660;
    }
    let hs: u64 = offered.iter().chain(received.iter()).map(|h| h.sat).sum();
    let to_holder = value_sat.saturating_sub(to_cp + hs + fee);
    Content { feerate, to_holder, to_cp, offered, received }
}

pub struct Ghost {
    /// numbers for which a validation with independently verified signatures was accepted
    pub accepted_valid: BTreeSet<u64>,
    /// every content accepted for a number (valid or not, for signature attribution)
    pub accepted_contents: BTreeMap<u64, Vec<Content>>,
    /// current content (last advanced), pending content
    pub current: Option<Content>,
    pub pending: Option<(u64, Content)>,
    /// secrets disclosed: n -> first op index
    pub revoked: BTreeMap<u64, usize>,
    /// numbers on which a holder funding signature was released: n -> first op index
    pub signed: BTreeMap<u64, usize>,
}

pub struct Machine {
    pub w: World,
    pub ci: usize,
    pub stub: usize,
    pub g: Ghost,
    pub dead: bool,
    /// the SetupChannel of the history's channel was answered with an error and not repeated
    pub setup_refused: bool,
}

pub fn carve_out_cfg() -> WorldCfg {
    carve_out_of(WorldCfg::default_testnet())
}

pub fn carve_out_of(mut cfg: WorldCfg) -> WorldCfg {
    use lightning_signer::policy::filter::{FilterResult, FilterRule, PolicyFilter};
    let mut f = PolicyFilter::default();
    f.merge(PolicyFilter {
        rules: vec![
            FilterRule { tag: "policy-revoke-".to_string(), is_prefix: true, action: FilterResult::Error },
            FilterRule { tag: "policy-commitment-holder-not-revoked".to_string(), is_prefix: false, action: FilterResult::Error },
            FilterRule { tag: "policy-other".to_string(), is_prefix: false, action: FilterResult::Error },
            FilterRule { tag: "policy-commitment-spends-active-utxo".to_string(), is_prefix: false, action: FilterResult::Error },
            FilterRule { tag: "policy-".to_string(), is_prefix: true, action: FilterResult::Warn },
        ],
    });
    cfg.policy.filter.merge(f);
    cfg
}

pub fn setup_world(anchors: bool, outbound: bool) -> Machine {
    setup_world_cfg(anchors, outbound, WorldCfg::default_testnet())
}

pub fn setup_world_cfg(anchors: bool, outbound: bool, cfg: WorldCfg) -> Machine {
    let mut w = World::new(cfg);
    let mut spec = ChanSpec::basic(1);
    spec.anchors = anchors;
    spec.outbound = outbound;
    let ci = w.open(&spec);
    let mut stub_spec = ChanSpec::basic(2);
    stub_spec.anchors = anchors;
    let stub = w.new_stub(&stub_spec).ok().expect("stub");
    // approvals so that offered HTLCs are not refused for lack of an invoice
    let payee = PublicKey::from_secret_key(&w.secp, &SecretKey::from_slice(&[5u8; 32]).unwrap());
    for h in 0u8..4 {
        w.node.add_keysend(payee, phash(h), 2_000_000_000).expect("keysend");
    }
    Machine {
        w,
        ci,
        stub,
        g: Ghost::new(),
        dead: false,
        setup_refused: false,
    }
}

/// As `setup_world`, but the channel's SetupChannel is refused (see Case::refused_setup) and not
/// repeated.  None if the signer accepts the setup (then there is nothing to check).
pub fn setup_world_refused(anchors: bool, outbound: bool, kind: u8) -> Option<Machine> {
    let mut w = World::new(WorldCfg::default_testnet());
    let mut spec = ChanSpec::basic(1);
    spec.anchors = anchors;
    spec.outbound = outbound;
    let ci = w.new_stub(&spec).ok().expect("stub");
    match kind % 4 {
        1 => w.chans[ci].setup.holder_selected_contest_delay = 3000,
        2 => w.chans[ci].setup.counterparty_selected_contest_delay = 3000,
        _ => w.chans[ci].setup.commitment_type = lightning_signer::channel::CommitmentType::Legacy,
    }
    if w.setup_chan(ci).is_ok() {
        return None;
    }
    let mut stub_spec = ChanSpec::basic(2);
    stub_spec.anchors = anchors;
    let stub = w.new_stub(&stub_spec).ok().expect("stub");
    let payee = PublicKey::from_secret_key(&w.secp, &SecretKey::from_slice(&[5u8; 32]).unwrap());
    for h in 0u8..4 {
        w.node.add_keysend(payee, phash(h), 2_000_000_000).expect("keysend");
    }
    Some(Machine { w, ci, stub, g: Ghost::new(), dead: false, setup_refused: true })
}

/// As `setup_world`, with the on-chain validator factory and a confirmed funding transaction.
pub fn setup_world_onchain(anchors: bool, outbound: bool) -> Machine {
    setup_world_onchain_cfg(anchors, outbound, crate::chainpool::regtest_cfg())
}

pub fn setup_world_onchain_cfg(anchors: bool, outbound: bool, cfg: WorldCfg) -> Machine {
    let mut w = World::new_onchain(cfg);
    let mut spec = ChanSpec::basic(1);
    spec.anchors = anchors;
    spec.outbound = outbound;
    let (ci, _funding) = crate::chainpool::open_confirmed(&mut w, &spec);
    let mut stub_spec = ChanSpec::basic(2);
    stub_spec.anchors = anchors;
    let stub = w.new_stub(&stub_spec).ok().expect("stub");
    let payee = PublicKey::from_secret_key(&w.secp, &SecretKey::from_slice(&[5u8; 32]).unwrap());
    for h in 0u8..4 {
        w.node.add_keysend(payee, phash(h), 2_000_000_000).expect("keysend");
    }
    Machine { w, ci, stub, g: Ghost::new(), dead: false, setup_refused: false }
}

impl Machine {
    pub fn next(&self) -> u64 {
        self.w.with_chan(self.ci, |c| Ok(c.enforcement_state.next_holder_commit_num)).ok().unwrap_or(0)
    }

    pub fn closed(&self) -> bool {
        self.w.with_chan(self.ci, |c| Ok(c.enforcement_state.channel_closed)).ok().unwrap_or(false)
    }

    fn num(&self, base: u64, d: i8) -> Option<u64> {
        let v = base as i64 + d as i64;
        if v < 0 {
            None
        } else {
            Some(v as u64)
        }
    }

    pub fn resolve_content(&self, n: u64, c: &CSel) -> Content {
        resolve_content_for(&self.w.chans[self.ci], &self.g, n, c)
    }

    /// Record disclosed secrets; returns the numbers disclosed by this reply.
    fn note_secrets(&mut self, i: usize, secrets: &[[u8; 32]]) -> Vec<u64> {
        let upto = self.next();
        note_secrets_in(&self.w.chans[self.ci], &mut self.g, upto, i, secrets)
    }

    /// attribute a released holder signature to a commitment number
    fn note_signature(&mut self, i: usize, requested_n: u64, sig: &Signature) -> (u64, bool) {
        let next = self.next();
        note_signature_in(&self.w.chans[self.ci], &self.w.secp, &mut self.g, next, i, requested_n, sig)
    }
}

// Ledger helpers shared by the API-level machine and the protocol-level machine (proto.rs).

pub fn resolve_content_for(chan: &Chan, g: &Ghost, n: u64, c: &CSel) -> Content {
    let mut r = resolve_content0(chan, g, n, c);
    if n == 0 && (!r.offered.is_empty() || !r.received.is_empty() || r.to_cp > 0) {
        // the initial commitment carries no HTLCs and (funder) no to-counterparty value
        r = finish_content(chan.spec.anchors, chan.setup.channel_value_sat, r.feerate, 0, vec![], vec![]);
    }
    r
}

fn resolve_content0(chan: &Chan, g: &Ghost, n: u64, c: &CSel) -> Content {
    let value = chan.setup.channel_value_sat;
    let anchors = chan.spec.anchors;
    let base = g.current.clone().unwrap_or_else(|| finish_content(anchors, value, 1000, 0, vec![], vec![]));
    match c {
        CSel::Same => {
            if let Some((pn, pc)) = &g.pending {
                if *pn == n {
                    return pc.clone();
                }
            }
            base
        }
        CSel::Add(h) => {
            let mut o = base.offered.clone();
            let mut r = base.received.clone();
            if h.offered {
                o.push(mk_htlc(h));
            } else {
                r.push(mk_htlc(h));
            }
            finish_content(anchors, value, base.feerate, base.to_cp, o, r)
        }
        CSel::Remove => {
            let mut o = base.offered.clone();
            let mut r = base.received.clone();
            if !o.is_empty() {
                o.remove(0);
            } else if !r.is_empty() {
                r.remove(0);
            }
            finish_content(anchors, value, base.feerate, base.to_cp, o, r)
        }
        CSel::Fresh { fee, to_cp, htlcs } => {
            let o = htlcs.iter().filter(|h| h.offered).map(mk_htlc).collect();
            let r = htlcs.iter().filter(|h| !h.offered).map(mk_htlc).collect();
            let to_cp = [0u64, 20_000, 700_000][*to_cp as usize % 3];
            finish_content(anchors, value, FEERATES[*fee as usize % 3], to_cp, o, r)
        }
    }
}

/// Scan a disclosed 32-byte value against the table of the holder's true secrets.
pub fn which_secret_of(chan: &Chan, s: &[u8; 32], upto: u64) -> Option<u64> {
    (0..=upto + 4).find(|k| &chan.holder_secret(*k) == s)
}

/// Record disclosed secrets (`upto` = next holder commitment number after the request);
/// returns the numbers disclosed by this reply.
pub fn note_secrets_in(chan: &Chan, g: &mut Ghost, upto: u64, i: usize, secrets: &[[u8; 32]]) -> Vec<u64> {
    let mut out = vec![];
    for s in secrets {
        if let Some(n) = which_secret_of(chan, s, upto) {
            g.revoked.entry(n).or_insert(i);
            out.push(n);
        }
    }
    out
}

/// attribute a released holder signature to a commitment number
pub fn note_signature_in(
    chan: &Chan,
    secp: &lightning_signer::bitcoin::secp256k1::Secp256k1<lightning_signer::bitcoin::secp256k1::All>,
    g: &mut Ghost,
    next: u64,
    i: usize,
    requested_n: u64,
    sig: &Signature,
) -> (u64, bool) {
    let upto = next + 2;
    for n in 0..=upto {
        if let Some(cs) = g.accepted_contents.get(&n) {
            for c in cs {
                let tx = chan.ref_holder_commitment(secp, n, c);
                let m = chan.commitment_sighash(&tx.trust().built_transaction().transaction);
                if secp.verify_ecdsa(&m, sig, &chan.holder_pubkeys.funding_pubkey).is_ok() {
                    g.signed.entry(n).or_insert(i);
                    return (n, true);
                }
            }
        }
    }
    g.signed.entry(requested_n).or_insert(i);
    (requested_n, false)
}

impl Ghost {
    pub fn new() -> Ghost {
        Ghost {
            accepted_valid: BTreeSet::new(),
            accepted_contents: BTreeMap::new(),
            current: None,
            pending: None,
            revoked: BTreeMap::new(),
            signed: BTreeMap::new(),
        }
    }
}

/// What the C01 / C02 oracles need from a machine that executes a history.
pub trait HistoryMachine {
    fn step(&mut self, i: usize, op: &Op) -> StepOut;
    /// next_holder_commit_num of the channel (ghost read of the signer's state)
    fn next(&self) -> u64;
    fn is_dead(&self) -> bool;
    fn ghost(&self) -> &Ghost;
    fn restarts(&self) -> u32;
    /// the SetupChannel of the history's channel was answered with an error and not repeated
    fn setup_refused(&self) -> bool {
        false
    }
}

impl HistoryMachine for Machine {
    fn step(&mut self, i: usize, op: &Op) -> StepOut {
        Machine::step(self, i, op)
    }
    fn next(&self) -> u64 {
        Machine::next(self)
    }
    fn is_dead(&self) -> bool {
        self.dead
    }
    fn ghost(&self) -> &Ghost {
        &self.g
    }
    fn restarts(&self) -> u32 {
        self.w.restarts
    }
    fn setup_refused(&self) -> bool {
        self.setup_refused
    }
}

/// The machine for a case: API level, or protocol level at the case's protocol version.
pub fn machine_for(case: &Case) -> Box<dyn HistoryMachine> {
    match case.proto {
        None if case.refused_setup != 0 => match setup_world_refused(case.anchors, case.outbound, case.refused_setup) {
            Some(m) => Box::new(m),
            None => Box::new(setup_world(case.anchors, case.outbound)),
        },
        None if case.onchain && case.carve_out => Box::new(setup_world_onchain_cfg(case.anchors, case.outbound, carve_out_of(crate::chainpool::regtest_cfg()))),
        None if case.onchain => Box::new(setup_world_onchain(case.anchors, case.outbound)),
        None if case.carve_out => Box::new(setup_world_cfg(case.anchors, case.outbound, carve_out_cfg())),
        None => Box::new(setup_world(case.anchors, case.outbound)),
        Some(v) => Box::new(crate::props::proto::setup_proto(case.anchors, case.outbound, v as u32)),
    }
}

pub fn level_name(case: &Case) -> String {
    match case.proto {
        None if case.refused_setup != 0 => "api-refused-setup".to_string(),
        None if case.onchain && case.carve_out => "api-onchain-carve-out-filter".to_string(),
        None if case.onchain => "api-onchain".to_string(),
        None if case.carve_out => "api-carve-out-filter".to_string(),
        None => "api".to_string(),
        Some(v) => format!("v{}", v),
    }
}

/// One executed step, for oracles and statistics.
pub struct StepOut {
    pub tag: &'static str,
    /// secrets disclosed by this reply (commitment numbers)
    pub disclosed: Vec<u64>,
    /// holder signature released on this number
    pub signed: Option<u64>,
    pub accepted_invalid_sig: bool,
    pub kind: &'static str,
    /// the underlying request (differs from kind for macro ops)
    pub req: &'static str,
    pub err: String,
    /// extra histogram classes (protocol level: per-message results, triage findings)
    pub notes: Vec<String>,
    /// a per-commitment point carried by a reply differs from the channel's point for the
    /// number the reply is about (judged by the C18 check, counted elsewhere)
    pub point_mismatch: Option<String>,
}

impl StepOut {
    pub fn new() -> StepOut {
        StepOut { tag: "skip", disclosed: vec![], signed: None, accepted_invalid_sig: false, kind: "", req: "", err: String::new(), notes: vec![], point_mismatch: None }
    }
}

impl Machine {
    /// a reply carried `p` as the per-commitment point of number `n`
    fn check_point(&self, so: &mut StepOut, what: &str, n: u64, p: &PublicKey) {
        let want = self.w.chans[self.ci].holder_point(&self.w.secp, n);
        if *p != want && so.point_mismatch.is_none() {
            so.point_mismatch = Some(format!("{}: the reply carries {} as per-commitment point {} but the channel's point {} is {}", what, p, n, n, want));
        }
    }

    /// One request (or one sub-request of a macro op), followed by the crash-and-restart that a
    /// fired storage fault entails.
    pub fn step(&mut self, i: usize, op: &Op) -> StepOut {
        let before = self.w.fault.fired.load(std::sync::atomic::Ordering::SeqCst);
        let mut so = self.step_req(i, op);
        if self.w.fault.fired.load(std::sync::atomic::Ordering::SeqCst) != before && !self.dead {
            so.notes.push("storage-fault-fired:crash-restart".to_string());
            let r = self.w.restart();
            if !r.is_ok() {
                self.dead = true;
            }
        }
        so
    }

    fn step_req(&mut self, i: usize, op: &Op) -> StepOut {
        let mut so = self.step_inner(i, op);
        if so.req.is_empty() {
            so.req = so.kind;
        }
        so
    }

    fn step_inner(&mut self, i: usize, op: &Op) -> StepOut {
        let next = self.next();
        let mut so = StepOut::new();
        match op {
            Op::Validate { d, c, sig, phase1 } => {
                so.kind = "validate";
                let Some(n) = self.num(next, *d) else { return so };
                let content = self.resolve_content(n, c);
                let chan = &self.w.chans[self.ci];
                let signed = chan.cp_sign_holder(&self.w.secp, n, &content, *sig);
                let (o, r) = (to_info2(&content.offered), to_info2(&content.received));
                let res: Out<()> = if *phase1 {
                    let tx = signed.tx.trust().built_transaction().transaction.clone();
                    let ws = witscripts(chan, &self.w.secp, &signed.tx, true);
                    self.w.with_chan(self.ci, |ch| {
                        ch.validate_holder_commitment_tx(&tx, &ws, n, content.feerate, o.clone(), r.clone(), &signed.commit_sig, &signed.htlc_sigs)
                    })
                } else {
                    self.w.with_chan(self.ci, |ch| {
                        ch.validate_holder_commitment_tx_phase2(n, content.feerate, content.to_holder, content.to_cp, o.clone(), r.clone(), &signed.commit_sig, &signed.htlc_sigs)
                    })
                };
                so.tag = res.tag();
                so.err = short_err(&res.err_msg());
                if res.is_panic() {
                    self.dead = true;
                }
                if res.is_ok() {
                    self.g.accepted_contents.entry(n).or_default().push(content.clone());
                    if signed.all_valid {
                        self.g.accepted_valid.insert(n);
                    } else {
                        so.accepted_invalid_sig = true;
                    }
                    if n == next {
                        self.g.pending = Some((n, content));
                    }
                }
            }
            Op::Revoke { d } => {
                so.kind = "revoke";
                let Some(n) = self.num(next, *d) else { return so };
                let res = self.w.with_chan(self.ci, |ch| ch.revoke_previous_holder_commitment(n));
                so.tag = res.tag();
                if res.is_panic() {
                    self.dead = true;
                }
                if let Out::Ok((point, secret)) = res {
                    self.check_point(&mut so, "revoke", n + 1, &point);
                    if let Some(s) = secret {
                        so.disclosed = self.note_secrets(i, &[s.secret_bytes()]);
                    }
                    if n == next {
                        if let Some((pn, pc)) = self.g.pending.take() {
                            if pn == n && self.next() == n + 1 {
                                self.g.current = Some(pc);
                            } else {
                                self.g.pending = Some((pn, pc));
                            }
                        }
                    }
                }
            }
            Op::Activate => {
                so.kind = "activate";
                let res = self.w.with_chan(self.ci, |ch| ch.activate_initial_commitment());
                so.tag = res.tag();
                if res.is_panic() {
                    self.dead = true;
                }
                if let Out::Ok(p) = &res {
                    self.check_point(&mut so, "activate", 1, p);
                }
                if res.is_ok() {
                    if let Some((pn, pc)) = self.g.pending.take() {
                        if pn == 0 {
                            self.g.current = Some(pc);
                        }
                    }
                }
            }
            Op::GetPoint { d } => {
                so.kind = "get_point";
                let Some(n) = self.num(next, *d) else { return so };
                let res = self.w.with_chan(self.ci, |ch| ch.get_per_commitment_point(n));
                so.tag = res.tag();
                if let Out::Ok(p) = &res {
                    self.check_point(&mut so, "get_point", n, p);
                }
            }
            Op::GetSecret { d } => {
                so.kind = "get_secret";
                let Some(n) = self.num(next, *d) else { return so };
                let res = self.w.with_chan(self.ci, |ch| ch.get_per_commitment_secret(n));
                so.tag = res.tag();
                if res.is_panic() {
                    self.dead = true;
                }
                if let Out::Ok(s) = res {
                    so.disclosed = self.note_secrets(i, &[s.secret_bytes()]);
                }
            }
            Op::SecretOrNone { d } => {
                so.kind = "secret_or_none";
                let Some(n) = self.num(next, *d) else { return so };
                let res = self.w.with_chan(self.ci, |ch| Ok(ch.get_per_commitment_secret_or_none(n)));
                so.tag = res.tag();
                if res.is_panic() {
                    self.dead = true;
                }
                if let Out::Ok(Some(s)) = res {
                    so.disclosed = self.note_secrets(i, &[s.secret_bytes()]);
                }
            }
            Op::CheckFuture { d, right } => {
                so.kind = "check_future";
                let Some(n) = self.num(next, *d) else { return so };
                let sec = if *right { self.w.chans[self.ci].holder_secret(n) } else { [7u8; 32] };
                let sk = SecretKey::from_slice(&sec).unwrap();
                let res = self.w.with_chan(self.ci, |ch| ch.check_future_secret(n, &sk));
                so.tag = res.tag();
            }
            Op::SignHolder { d } => {
                so.kind = "sign_holder";
                let Some(n) = self.num(next.saturating_sub(1), *d) else { return so };
                let res = self.w.with_chan(self.ci, |ch| ch.sign_holder_commitment_tx_phase2(n));
                so.tag = res.tag();
                if res.is_panic() {
                    self.dead = true;
                }
                if let Out::Ok(sig) = res {
                    let (sn, _matched) = self.note_signature(i, n, &sig);
                    so.signed = Some(sn);
                }
            }
            Op::SignRecovery => {
                so.kind = "sign_recovery";
                let res = self.w.with_chan(self.ci, |ch| ch.sign_holder_commitment_tx_for_recovery(1000, &[]));
                so.tag = res.tag();
                if res.is_panic() {
                    self.dead = true;
                }
                if let Out::Ok((tx, _htlc_txs, _spk, (key, _stack), _rev)) = res {
                    // identify the commitment by its signed transaction: the witness carries
                    // the holder signature; attribute to next-1 at the time of the request
                    let n = next.saturating_sub(1);
                    let _ = tx;
                    self.g.signed.entry(n).or_insert(i);
                    so.signed = Some(n);
                    so.disclosed = self.note_secrets(i, &[key.secret_bytes()]);
                }
            }
            Op::SignRedundant { d, c } => {
                so.kind = "sign_redundant";
                let Some(n) = self.num(next.saturating_sub(1), *d) else { return so };
                let content = self.resolve_content(n, c);
                let (o, r) = (to_info2(&content.offered), to_info2(&content.received));
                let res = self.w.with_chan(self.ci, |ch| {
                    ch.sign_holder_commitment_tx_phase2_redundant(n, content.feerate, content.to_holder, content.to_cp, o.clone(), r.clone())
                });
                so.tag = res.tag();
                if res.is_panic() {
                    self.dead = true;
                }
                if let Out::Ok(_sig) = res {
                    self.g.signed.entry(n).or_insert(i);
                    so.signed = Some(n);
                }
            }
            Op::StubProbe { n } => {
                so.kind = "stub_probe";
                let node = self.w.node.clone();
                let id = self.w.chans[self.stub].id0.clone();
                let n = *n as u64;
                let r1: Out<SecretKey> = call(|| node.with_channel_base(&id, |b| b.get_per_commitment_secret(n)));
                let r2: Out<Option<SecretKey>> = call(|| node.with_channel_base(&id, |b| Ok(b.get_per_commitment_secret_or_none(n))));
                let r3: Out<(PublicKey, Option<SecretKey>)> = call(|| node.with_channel(&id, |c| c.revoke_previous_holder_commitment(n)));
                so.tag = if r1.is_ok() || matches!(r2, Out::Ok(Some(_))) || r3.is_ok() { "ok" } else { "err" };
                // any secret from the stub is a violation: mark with a sentinel number
                if r1.is_ok() || matches!(r2, Out::Ok(Some(_))) || matches!(r3, Out::Ok((_, Some(_)))) {
                    so.disclosed = vec![u64::MAX];
                }
            }
            Op::Advance { c, phase1 } => {
                let a = self.step(i, &Op::Validate { d: 0, c: c.clone(), sig: SigKind::Valid, phase1: *phase1 });
                if self.dead {
                    return a;
                }
                let mut b = if next == 0 { self.step(i, &Op::Activate) } else { self.step(i, &Op::Revoke { d: 0 }) };
                b.req = b.kind;
                b.kind = "advance";
                b.accepted_invalid_sig = a.accepted_invalid_sig;
                if b.point_mismatch.is_none() {
                    b.point_mismatch = a.point_mismatch.clone();
                }
                return b;
            }
            Op::Restart => {
                so.kind = "restart";
                let r = self.w.restart();
                so.tag = r.tag();
                if !r.is_ok() {
                    self.dead = true;
                }
            }
            Op::StorageFault => {
                so.kind = "storage-fault";
                self.w.fault.arm();
                so.tag = "ok";
            }
        }
        so
    }
}

pub fn short_err(m: &str) -> String {
    // keep the policy tag / leading words, drop numbers so that classes stay few
    let t: String = m.chars().filter(|c| !c.is_ascii_digit()).take(110).collect();
    t
}

pub fn status_tag(s: &Status) -> String {
    s.message().chars().take(40).collect()
}

// ---------------------------------------------------------------------------------------------

pub struct C01;

impl Prop for C01 {
    type Case = Case;
    fn id(&self) -> &'static str {
        "C01"
    }
    fn rule(&self) -> String {
        "histories of <=40 (quick) / <=120 (thorough) requests on one ready channel (static-remotekey or anchors, inbound/outbound) plus a \
         stub: validate holder commitment next+d (phase-1 tx+witscripts or phase-2 values; content same/add/remove/fresh; counterparty \
         signatures valid or one of 7 invalid kinds), revoke(next+d), activate, get point/secret/secret-or-none/check-future at next+d, the \
         three holder signing requests, stub probes, restarts (signer rebuilt from a copy of the store) and injected storage faults (API level: the next write of the channel entry fails, the request is answered, and the signer then restarts from the store). Each history runs at one of four \
         levels with equal weight: API (Node::with_channel) or wire messages to the vls-protocol-signer handlers with protocol version 4, 5 \
         or 6 negotiated by HsmdInit/HsmdInit2 and asserted on the reply (v<5: ValidateCommitmentTx(2) validates and revokes in one request \
         and RevokeCommitmentTx is refused; v>=5: separate RevokeCommitmentTx; v<6: GetPerCommitmentPoint(n) also returns secret n-2; \
         GetPerCommitmentPoint2, SignLocalCommitmentTx2, SignCommitmentTx, CheckFutureSecret at every version). Oracle: every 32-byte secret in \
         any reply (protocol level: every 32-byte window of every serialised reply) is matched against the channel's true BOLT-3 secrets; secret n may appear only if the ledger holds an accepted validation \
         of n+1 whose signatures were independently verified (secp256k1) against the harness-built transaction and every HTLC transaction; \
         the stub never discloses. Non-trivial: history with >=1 secret request at or beyond the frontier (number >= next-1) AND >=1 \
         validation attempt with invalid signatures AND >=1 disclosed secret; distinct by level and (op kind, d, sig kind, result) sequence."
            .into()
    }
    fn assumptions(&self) -> Vec<String> {
        vec![
            "reference transactions are built with LDK's CommitmentTransaction/build_htlc_transaction from the generated setup; a defect shared by LDK's builder and the signer is invisible".into(),
            "default testnet SimplePolicy (non-permissive filter)".into(),
            "each history is issued either at API level (Node::with_channel) or as wire messages to the vls-protocol-signer handlers at negotiated protocol version 4, 5 or 6 (proto.rs: requests and replies are serialised; GetSecret/SecretOrNone have no message and become GetPerCommitmentPoint(n+2); the recovery/redundant signing requests become SignCommitmentTx)".into(),
        ]
    }
    fn cases(&self, tier: Tier) -> u32 {
        tier.pick(500, 3200)
    }
    fn strategy(&self, tier: Tier) -> BoxedStrategy<Case> {
        case_strat(tier.pick(40, 120), 6, 1)
    }
    fn run(&self, case: &Case, st: &mut CaseStats, ctx: &Ctx) -> Result<(), Violation> {
        let mut m = machine_for(case);
        let level = level_name(case);
        st.class(format!("proto:{}", level));
        // the setup of the channel was answered with an error
        let refused_setup = m.setup_refused();
        let mut refused_reqs = 0u32;
        let mut shape: Vec<(&'static str, i8, u8, &'static str)> = vec![];
        let combined_revoke = case.proto.map_or(false, |v| v < 5);
        let point_with_secret = case.proto.map_or(false, |v| v < 6);
        let mut frontier_req = false;
        let mut invalid_attempt = false;
        let mut disclosed_any = false;
        let mut trace = vec![];
        for (i, op) in case.ops.iter().enumerate() {
            if m.is_dead() {
                st.class("history_truncated_after_abort");
                break;
            }
            let next = m.next();
            let so = m.step(i, op);
            st.class(format!("{}:{}", so.kind, so.tag));
            st.class(format!("{}:{}:{}", level, so.kind, so.tag));
            for c in so.notes.iter() {
                st.class(c.clone());
            }
            if std::env::var("VERIF_ERRCLASS").is_ok() && !so.err.is_empty() {
                st.class(format!("E:{}:{}", so.kind, so.err));
            }
            let (d, sk) = match op {
                Op::Validate { d, sig, .. } => {
                    if *sig != SigKind::Valid {
                        invalid_attempt = true;
                    }
                    if combined_revoke && *d >= 0 {
                        // below protocol version 5 the validation request also revokes
                        frontier_req = true;
                    }
                    (*d, *sig as u8)
                }
                Op::GetPoint { d } => {
                    if point_with_secret && *d >= 1 {
                        // below protocol version 6 the point request for n returns secret n-2
                        frontier_req = true;
                    }
                    (*d, 0)
                }
                Op::Revoke { d } => {
                    if *d >= 0 {
                        frontier_req = true;
                    }
                    (*d, 0)
                }
                Op::GetSecret { d } | Op::SecretOrNone { d } => {
                    if *d >= -1 {
                        frontier_req = true;
                    }
                    (*d, 0)
                }
                Op::CheckFuture { d, .. } | Op::SignHolder { d } | Op::SignRedundant { d, .. } => (*d, 0),
                _ => (0, 0),
            };
            shape.push((so.kind, d, sk, so.tag));
            if so.tag == "err" {
                refused_reqs += 1;
            }
            if trace.len() < 60 {
                trace.push(json!({"op": op, "next_before": next, "result": so.tag, "disclosed": so.disclosed, "signed": so.signed}));
            }
            if so.accepted_invalid_sig {
                // accepted although the signatures do not verify: not yet a disclosure, but
                // it is exactly the precondition C01 forbids being relied upon
                st.class("accepted_validation_with_invalid_signature");
            }
            for n in so.disclosed.iter() {
                disclosed_any = true;
                if *n == u64::MAX {
                    ctx.report(st, Violation::new("C01:stub-disclosed-secret", format!("step {} {:?}: the stub channel disclosed a secret", i, op)))?;
                    continue;
                }
                if refused_setup {
                    ctx.report(st, Violation::new(
                        format!("C01:secret-from-channel-whose-setup-was-refused:{}", so.req),
                        format!("step {} {:?}: the setup of this channel was refused and never repeated, yet the secret of holder commitment {} was disclosed", i, op, n),
                    ))?;
                    continue;
                }
                if !m.ghost().accepted_valid.contains(&(n + 1)) {
                    let v = Violation::new(
                        format!("C01:secret-without-countersigned-successor:{}", so.req),
                        format!(
                            "step {} {:?}: secret of holder commitment {} disclosed, but no validation of {} with verifying signatures was accepted (accepted_valid={:?}, next={})",
                            i, op, n, n + 1, m.ghost().accepted_valid, next
                        ),
                    );
                    ctx.report(st, v)?;
                }
            }
        }
        st.sample = Some(json!({"anchors": case.anchors, "outbound": case.outbound, "proto": level, "trace": trace}));
        if disclosed_any {
            st.class("history_with_disclosure");
            st.class(format!("{}:history_with_disclosure", level));
        }
        if m.restarts() > 0 {
            st.class("history_with_restart");
        }
        if frontier_req && invalid_attempt && disclosed_any {
            st.class(format!("nontrivial:{}", level));
            st.nontrivial_shape((case.proto, shape));
        } else if refused_setup && frontier_req && refused_reqs >= 2 {
            st.class("nontrivial:api-refused-setup");
            st.nontrivial_shape(("refused-setup", case.refused_setup, refused_reqs.min(6)));
        }
        Ok(())
    }
    fn min_nontrivial(&self, tier: Tier) -> usize {
        tier.pick(100, 1000)
    }
}

// ---------------------------------------------------------------------------------------------

pub struct C02;

impl Prop for C02 {
    type Case = Case;
    fn id(&self) -> &'static str {
        "C02"
    }
    fn rule(&self) -> String {
        "same request machine as C01 with mostly valid signatures and the three holder signing requests (force-close, recovery, redundant) \
         at every offset from the frontier, in both orders relative to revocation, with or without a pre-validated successor, across \
         restarts, at API level or through the protocol handlers at version 4, 5 or 6 (see C01; force-close signing is SignLocalCommitmentTx2 \
         or CLN's SignCommitmentTx on the root handler). Oracle (ghost ledger): Signed = numbers for which a holder funding signature was released (attributed by verifying the \
         signature against the harness-built transactions of every accepted content), Revoked = numbers whose true BOLT-3 secret appeared \
         in any reply; Signed and Revoked stay disjoint and Revoked does not grow after the first signature. Non-trivial: history with >=1 \
         released signature AND >=1 disclosed secret AND a revocation or secret request after the first signature; distinct by op/result sequence."
            .into()
    }
    fn assumptions(&self) -> Vec<String> {
        vec![
            "reference transactions built with LDK builders from the generated setup".into(),
            "mutual-close signatures are not holder-commitment signatures and are outside Signed".into(),
            "each history is issued either at API level or as wire messages to the vls-protocol-signer handlers at negotiated protocol version 4, 5 or 6 (proto.rs)".into(),
        ]
    }
    fn cases(&self, tier: Tier) -> u32 {
        tier.pick(500, 3200)
    }
    fn strategy(&self, tier: Tier) -> BoxedStrategy<Case> {
        case_strat(tier.pick(40, 120), 30, 4)
    }
    fn run(&self, case: &Case, st: &mut CaseStats, ctx: &Ctx) -> Result<(), Violation> {
        let mut m = machine_for(case);
        let level = level_name(case);
        st.class(format!("proto:{}", level));
        let mut shape: Vec<(&'static str, i8, &'static str)> = vec![];
        let mut trace = vec![];
        // below protocol version 5 the validation request also revokes; below 6 the point
        // request also returns a secret: both are then revocation / secret requests
        let combined_revoke = case.proto.map_or(false, |v| v < 5);
        let point_with_secret = case.proto.map_or(false, |v| v < 6);
        let mut first_sign: Option<usize> = None;
        let mut attempt_after_sign = false;
        for (i, op) in case.ops.iter().enumerate() {
            if m.is_dead() {
                st.class("history_truncated_after_abort");
                break;
            }
            let next = m.next();
            let before_revoked: BTreeSet<u64> = m.ghost().revoked.keys().cloned().collect();
            let so = m.step(i, op);
            st.class(format!("{}:{}", so.kind, so.tag));
            st.class(format!("{}:{}:{}", level, so.kind, so.tag));
            for c in so.notes.iter() {
                st.class(c.clone());
            }
            let d = match op {
                Op::Validate { d, .. } | Op::Revoke { d } | Op::GetSecret { d } | Op::SecretOrNone { d } | Op::SignHolder { d } | Op::SignRedundant { d, .. } | Op::GetPoint { d } | Op::CheckFuture { d, .. } => *d,
                _ => 0,
            };
            shape.push((so.kind, d, so.tag));
            if trace.len() < 60 {
                trace.push(json!({"op": op, "next_before": next, "result": so.tag, "disclosed": so.disclosed, "signed": so.signed}));
            }
            if first_sign.is_some()
                && (matches!(op, Op::Revoke { .. } | Op::GetSecret { .. } | Op::SecretOrNone { .. })
                    || (combined_revoke && matches!(op, Op::Validate { .. } | Op::Advance { .. }))
                    || (point_with_secret && matches!(op, Op::GetPoint { .. })))
            {
                attempt_after_sign = true;
            }
            if so.signed.is_some() && first_sign.is_none() {
                first_sign = Some(i);
            }
            // invariant 1: disjoint
            let both: Vec<u64> = m.ghost().signed.keys().filter(|n| m.ghost().revoked.contains_key(n)).cloned().collect();
            if let Some(n) = both.first() {
                let order = if m.ghost().signed[n] <= m.ghost().revoked[n] { "sign-then-revoke" } else { "revoke-then-sign" };
                let v = Violation::new(
                    format!("C02:signed-and-revoked:{}:{}", order, so.req),
                    format!("step {} {:?}: holder commitment {} is both signed (step {}) and revoked (step {})", i, op, n, m.ghost().signed[n], m.ghost().revoked[n]),
                );
                ctx.report(st, v)?;
                st.class("history_truncated_after_known_finding");
                break;
            }
            // invariant 2: no new disclosure after the first signature
            if let Some(fs) = first_sign {
                if fs < i || so.signed.is_none() {
                    let newly: Vec<u64> = so.disclosed.iter().filter(|n| **n != u64::MAX && !before_revoked.contains(n)).cloned().collect();
                    if let Some(n) = newly.first() {
                        let v = Violation::new(
                            format!("C02:new-disclosure-after-signature:{}", so.req),
                            format!("step {} {:?}: secret {} newly disclosed after a holder signature was released at step {} (signed={:?})", i, op, n, fs, m.ghost().signed.keys().collect::<Vec<_>>()),
                        );
                        ctx.report(st, v)?;
                        st.class("history_truncated_after_known_finding");
                        break;
                    }
                }
            }
        }
        st.sample = Some(json!({"anchors": case.anchors, "outbound": case.outbound, "proto": level, "trace": trace}));
        if m.restarts() > 0 {
            st.class("history_with_restart");
        }
        if first_sign.is_some() {
            st.class(format!("{}:history_with_signature", level));
        }
        if first_sign.is_some() && !m.ghost().revoked.is_empty() && attempt_after_sign {
            st.class(format!("nontrivial:{}", level));
            st.nontrivial_shape((case.proto, shape));
        }
        Ok(())
    }
    fn min_nontrivial(&self, tier: Tier) -> usize {
        tier.pick(100, 1000)
    }
}
